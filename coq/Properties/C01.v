(* C01  Rendered markup parses back to the same element tree. *)
From HT Require Import Model.Str Model.Tree Model.Render Model.TagTable Gen.Tables
     Spec.Tokenizer Spec.TreeElems
     Proofs.TokenizeLemmas Proofs.BuildTree Proofs.ParsePieces Proofs.ParseBack.

(* For every ordinary tree (valid element and attribute names, plain attribute values, no
   duplicate attribute names after lower-casing, no script/style, only text, metadata and
   ordinary tags as descendants), every indent and every whitespace-only eol: rendering
   succeeds, the spec tokenizer accepts the markup, its tags are well nested, and the parsed
   forest equals the tree's element forest once adjacent text is merged, runs are trimmed and
   empty runs dropped on both sides.  This covers the one-line forms (no children, a single
   text child), the self-closed form of childless void tags, block and inline layout, and
   every attribute value (all seven escaped characters decode to themselves). *)
Theorem C01_parse_back :
  forall (M : Type) (t : node M) (i : nat) (eol : str),
    is_tag t = true -> ordinary t = true -> ws_only eol = true ->
    exists s, tag_html i eol t = Ok s
              /\ option_map canon (parse s) = Some (canon (elems_of t)).
Proof. intros M. exact parse_back. Qed.
Print Assumptions C01_parse_back.

(* The tokenizer layer on its own: the rendered string of an ordinary tree is the
   concatenation of a tokenizable piece list, and the spec tokenizer maps it to exactly one
   start / end tag token per tag piece (lower-cased name, lower-cased attribute names with
   the stored values, self-closing flag) and one character token per maximal run of
   whitespace and text pieces (their unescaped concatenation, empty runs dropped). *)
Theorem C01_tokenizes :
  forall (M : Type) (t : node M) (i : nat) (eol : str),
    is_tag t = true -> ordinary t = true -> ws_only eol = true ->
    exists ps,
      render_tag i eol t = Ok ps /\ tag_html i eol t = Ok (pieces_str ps)
      /\ tokenizable ps = true
      /\ tokenize (pieces_str ps) = Some (merge_chars (toks_of_pieces ps)).
Proof. intros M. exact ordinary_tokenizes. Qed.
Print Assumptions C01_tokenizes.

(* ... and for any piece list with valid names and attributes, whitespace-only layout
   pieces and escaped text as the only content, whether or not a tree produced it *)
Theorem C01_tokenizes_pieces :
  forall ps : list piece,
    tokenizable ps = true ->
    tokenize (pieces_str ps) = Some (merge_chars (toks_of_pieces ps)).
Proof. exact tokenize_pieces. Qed.
Print Assumptions C01_tokenizes_pieces.

(* the tree builder does not see how character data was split into tokens *)
Theorem C01_build_merge :
  forall ts : list token,
    option_map canon (build (merge_chars ts)) = option_map canon (build ts).
Proof. exact build_merge_chars. Qed.
Print Assumptions C01_build_merge.

(* The void names of the regenerated table are the 16 of the statement: area base br col
   command embed hr img input keygen link meta param source track wbr. *)
Theorem C01_void_table :
  void_names =
  [[97;114;101;97]; [98;97;115;101]; [98;114]; [99;111;108]; [99;111;109;109;97;110;100];
   [101;109;98;101;100]; [104;114]; [105;109;103]; [105;110;112;117;116];
   [107;101;121;103;101;110]; [108;105;110;107]; [109;101;116;97]; [112;97;114;97;109];
   [115;111;117;114;99;101]; [116;114;97;99;107]; [119;98;114]].
Proof. reflexivity. Qed.
Print Assumptions C01_void_table.

(* every element name of the regenerated tags.py / svg.py wrapper tables is a valid name *)
Theorem C01_catalogue_valid :
  forallb (fun r => valid_name (snd (fst (fst r)))) (html_tag_rows ++ svg_tag_rows) = true.
Proof. vm_compute. reflexivity. Qed.
Print Assumptions C01_catalogue_valid.

Example C01_example :
  let t := TagN (M:=unit) [100;105;118] true [([105;100], AStr [34;60])]
             [Text [97;38]; TagN [98;114] false [] []; Text [32]] in
  ordinary t = true /\
  match tag_html 1 [10] t with
  | Ok s => option_map canon (parse s) = Some (canon (elems_of t))
  | Err _ => False
  end.
Proof. vm_compute. split; reflexivity. Qed.

(* a void child (self-closed), an upper-case name with a metadata child only (written as
   an open and a close tag: the void table is matched case-sensitively), an attribute value with all seven escaped characters, adjacent text leaves, text next to
   layout whitespace, a whitespace-only text child, inline and block children *)
Example C01_example_2 :
  let t := TagN (M:=unit) [100;105;118] true
             [([116;105;116;108;101], AStr [38;60;62;34;39;13;10]);
              ([68;65;84;65;45;120], AStr [97])]
             [Text [32;97;38;98;32];
              TagN [98;114] false [] [];
              TagN [73;77;71] true [([115;114;99], AStr [34])] [Meta tt];
              Text [120]; Text [60;121;62];
              TagN [112] true [] [Text [32;32]];
              Meta tt;
              TagN [115;112;97;110] false [] [Text [113]; TagN [98] false [] []];
              Text [32;122]] in
  ordinary t = true /\
  match tag_html 2 [13;10] t with
  | Ok s => option_map canon (parse s) = Some (canon (elems_of t))
            /\ option_map (@length _) (tokenize s) = Some 19%nat
  | Err _ => False
  end.
Proof. vm_compute. repeat split; reflexivity. Qed.

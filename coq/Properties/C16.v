(* C16  Class/style helpers and css() act as token-set and declaration algebra.
   Statements only; proofs live in Proofs/ClassStyleProofs.v.  Every theorem is closed by
   `exact` and followed by Print Assumptions.

   st : attrs is the tag's attribute map (insertion-ordered association list);
   class_tokens st = split_ws of the stored class value (no tokens when absent);
   token c = c is non-empty and contains no whitespace code point;
   plain_class st = the stored class value is a plain str or absent (not HTML markup). *)
From HT Require Import Model.Str Model.Tree Model.Escape Model.ClassStyle
     Spec.ClassStyleSpec Proofs.ClassStyleProofs.

(* ---- what a whitespace token is ------------------------------------------------ *)

(* split_ws (the model of str.split()) is THE tokenisation: these three equations
   determine it on every string. *)
Theorem C16_split_spec :
  split_ws [] = [] /\
  (forall c s, is_ws c = true -> split_ws (c :: s) = split_ws s) /\
  (forall t s, token t -> (s = [] \/ exists w s', s = w :: s' /\ is_ws w = true) ->
               split_ws (t ++ s) = t :: split_ws s).
Proof. exact (conj split_ws_nil (conj split_ws_ws_cons split_ws_token_then)). Qed.
Print Assumptions C16_split_spec.

Theorem C16_split_join :
  forall toks, Forall token toks -> split_ws (join [32] toks) = toks.
Proof. exact split_ws_join. Qed.
Print Assumptions C16_split_join.

(* ---- has_class ------------------------------------------------------------------ *)

(* has_class is whitespace-token membership, for every state and every argument. *)
Theorem C16_has :
  forall st c, has_class st c = spec_has (class_tokens st) c.
Proof. exact has_class_spec. Qed.
Print Assumptions C16_has.

(* ---- add_class ------------------------------------------------------------------ *)

(* The token goes first / last, the other tokens are undisturbed. *)
Theorem C16_add_tokens :
  forall st c p, token c -> plain_class st ->
  class_tokens (add_class st (AStr c) p) = spec_add (class_tokens st) c p.
Proof. exact add_tokens. Qed.
Print Assumptions C16_add_tokens.

Theorem C16_add_has :
  forall st c p, token c -> plain_class st -> has_class (add_class st (AStr c) p) c = true.
Proof. exact add_has. Qed.
Print Assumptions C16_add_has.

(* The exact stored value: the old string is kept verbatim with one space between (so an
   old empty string leaves a leading / trailing space); an absent attribute is created (at
   the end of the map); an existing one keeps its position.  With an HTML old value the
   result is HTML and the new plain token is html-escaped. *)
Theorem C16_add_value :
  forall st c p,
  add_class st (AStr c) p =
  attr_set k_class
    (match attr_get k_class st with
     | None => AStr c
     | Some (AStr o) => AStr (if p then c ++ [32] ++ o else o ++ [32] ++ c)
     | Some (AHtml h) => AHtml (if p then esc c ++ [32] ++ h else h ++ [32] ++ esc c)
     end) st.
Proof. exact add_class_plain_value. Qed.
Print Assumptions C16_add_value.

(* no other attribute changes *)
Theorem C16_add_class_frame :
  forall st c p k, k <> k_class -> attr_get k (add_class st c p) = attr_get k st.
Proof. exact add_class_frame. Qed.
Print Assumptions C16_add_class_frame.

(* Outside the promise (argument with surrounding / internal whitespace): its tokens are
   added as a block. *)
Theorem C16_add_tokens_any_arg :
  forall st c p, plain_class st ->
  class_tokens (add_class st (AStr c) p) =
  if p then split_ws c ++ class_tokens st else class_tokens st ++ split_ws c.
Proof. exact add_tokens_general. Qed.
Print Assumptions C16_add_tokens_any_arg.

(* HTML-valued class attribute: the token is added in html-escaped form ... *)
Theorem C16_add_tokens_html :
  forall st c p h, token c -> attr_get k_class st = Some (AHtml h) ->
  class_tokens (add_class st (AStr c) p) = spec_add (class_tokens st) (esc c) p.
Proof. exact add_tokens_html. Qed.
Print Assumptions C16_add_tokens_html.

(* ... so add/has agree when escaping leaves the token alone (no & < >) ... *)
Theorem C16_add_has_html :
  forall st c p h, token c -> attr_get k_class st = Some (AHtml h) -> esc c = c ->
  has_class (add_class st (AStr c) p) c = true.
Proof. exact add_has_html. Qed.
Print Assumptions C16_add_has_html.

(* ... and DISAGREE otherwise: class=HTML(x); add_class(a&b); has_class(a&b) is False.
   The statement of C16 (add_class makes has_class true for a whitespace-free token, any
   initial class value) fails on the faithful model for HTML-valued class attributes. *)
Theorem C16_add_has_html_refuted :
  exists st c p, token c /\ has_class (add_class st (AStr c) p) c = false.
Proof.
  exists [(k_class, AHtml [120])], [97; 38; 98], false. split.
  - apply token_b_spec. vm_compute. reflexivity.
  - vm_compute. reflexivity.
Qed.
Print Assumptions C16_add_has_html_refuted.

(* ---- remove_class --------------------------------------------------------------- *)

(* Never raises; removes every occurrence of exactly that token, keeps the others in
   order; no other attribute changes.  (Any state: plain, HTML, absent.) *)
Theorem C16_remove :
  forall st c, token c ->
  exists st', remove_class st c = Ok st' /\
              class_tokens st' = spec_remove (class_tokens st) c /\
              forall k, k <> k_class -> attr_get k st' = attr_get k st.
Proof. exact remove_token. Qed.
Print Assumptions C16_remove.

(* arbitrary argument: it is stripped first *)
Theorem C16_remove_any_arg :
  forall st c st', remove_class st c = Ok st' ->
  class_tokens st' = spec_remove (class_tokens st) (strip c).
Proof. exact remove_tokens. Qed.
Print Assumptions C16_remove_any_arg.

(* The attribute is dropped exactly when no token remains; otherwise the stored value is
   the plain str of the remaining tokens joined by single spaces -- provided the attribute
   was present with a non-empty value ... *)
Theorem C16_remove_attr :
  forall st c st' v,
  token c -> remove_class st c = Ok st' -> attr_get k_class st = Some v -> aval_str v <> [] ->
  (attr_get k_class st' = None <-> spec_remove (class_tokens st) c = []) /\
  (forall t ts, spec_remove (class_tokens st) c = t :: ts ->
                attr_get k_class st' = Some (AStr (join [32] (t :: ts)))).
Proof. exact remove_attr_token. Qed.
Print Assumptions C16_remove_attr.

(* ... and it is a no-op for an empty argument, an absent attribute, or a stored EMPTY
   string (which therefore stays: class= with no tokens is not dropped). *)
Theorem C16_remove_noop :
  forall st c,
  (c = [] \/ attr_get k_class st = None \/
   exists v, attr_get k_class st = Some v /\ aval_str v = []) ->
  remove_class st c = Ok st.
Proof. exact remove_noop. Qed.
Print Assumptions C16_remove_noop.

(* removing foo does not touch foobar or foo-x (or anything else that is not foo) *)
Theorem C16_remove_other_tokens :
  forall st c d st', remove_class st c = Ok st' -> d <> strip c -> has_class st' d = has_class st d.
Proof. exact remove_other_tokens. Qed.
Print Assumptions C16_remove_other_tokens.

Theorem C16_remove_then_has :
  forall st c st', remove_class st c = Ok st' -> has_class st' (strip c) = false.
Proof. exact remove_then_has. Qed.
Print Assumptions C16_remove_then_has.

(* ---- add_style ------------------------------------------------------------------ *)

(* No trailing semicolon: ValueError, and the tag state is what it was. *)
Theorem C16_style_guard :
  forall st v p, ends_with_char 59 (aval_str v) = false ->
  add_style st (Some v) p = Err ValueError /\ step st (OAddStyle (Some v) p) = st.
Proof. exact style_guard. Qed.
Print Assumptions C16_style_guard.

(* Otherwise the declaration string is appended / prepended with one space (str | HTML
   addition), the attribute being created when absent. *)
Theorem C16_add_style :
  forall st v p, ends_with_char 59 (aval_str v) = true ->
  add_style st (Some v) p =
  Ok (attr_set k_style
        (match attr_get k_style st with
         | None => v
         | Some o => if p then join_sp v o else join_sp o v
         end) st).
Proof. exact add_style_eq. Qed.
Print Assumptions C16_add_style.

Theorem C16_add_style_plain :
  forall st d p old, ends_with_char 59 d = true ->
  attr_get k_style st = option_map AStr old ->
  add_style st (Some (AStr d)) p = Ok (attr_set k_style (AStr (spec_add_decl old d p)) st).
Proof. exact add_style_plain. Qed.
Print Assumptions C16_add_style_plain.

(* add_style(None) -- what css() returns when nothing remains -- is accepted and changes
   nothing; add_style never changes another attribute. *)
Theorem C16_add_style_none :
  forall st p, add_style st None p = Ok st.
Proof. exact add_style_none. Qed.
Print Assumptions C16_add_style_none.

Theorem C16_add_style_frame :
  forall st s p st' k, add_style st s p = Ok st' -> k <> k_style -> attr_get k st' = attr_get k st.
Proof. exact add_style_frame. Qed.
Print Assumptions C16_add_style_frame.

(* ---- css() ---------------------------------------------------------------------- *)

(* The two regex substitutions + lower() are the per-character map of the statement
   (ASCII keys): capital X -> hyphen x, underscore -> hyphen. *)
Theorem C16_css_key :
  forall k, norm_key k = spec_key k.
Proof. exact norm_key_spec. Qed.
Print Assumptions C16_css_key.

(* One name:value; (+ separator) per non-None argument, in order; None when nothing
   remains; TypeError for a non-str separator (or a list value with a non-str item). *)
Theorem C16_css :
  forall sep kw, css (Some sep) kw = spec_css sep kw.
Proof. exact css_spec. Qed.
Print Assumptions C16_css.

Theorem C16_css_bad_separator :
  forall kw, css None kw = Err TypeError.
Proof. exact css_badsep. Qed.
Print Assumptions C16_css_bad_separator.

Theorem C16_css_none_iff :
  forall sep kw, css (Some sep) kw = Ok None <-> present kw = [].
Proof. exact css_none_iff. Qed.
Print Assumptions C16_css_none_iff.

(* With the default separator the output (a string ending in ; or None) is always
   accepted by add_style. *)
Theorem C16_css_accepted :
  forall kw r st p, css (Some []) kw = Ok r ->
  exists st', add_style st (option_map AStr r) p = Ok st'.
Proof. exact css_accepted. Qed.
Print Assumptions C16_css_accepted.

(* ---- histories ------------------------------------------------------------------ *)

(* Any sequence of add_class (plain whitespace-free tokens, either prepend setting) /
   remove_class (any argument) / add_style (any argument, accepted or rejected), from any
   state whose class value is a plain str or absent: the class tokens are the declarative
   fold of the token-list operations. *)
Theorem C16_history_tokens :
  forall ops st, plain_class st -> Forall op_ok ops ->
  class_tokens (run_ops st ops) = spec_run (class_tokens st) (map abs_op ops).
Proof. exact history_tokens. Qed.
Print Assumptions C16_history_tokens.

Theorem C16_history_has :
  forall ops st c, plain_class st -> Forall op_ok ops ->
  has_class (run_ops st ops) c = spec_has (spec_run (class_tokens st) (map abs_op ops)) c.
Proof. exact history_has. Qed.
Print Assumptions C16_history_has.

(* The association list stays a dict: keys distinct after any history. *)
Theorem C16_history_keys_nodup :
  forall ops st, NoDup (map fst st) -> NoDup (map fst (run_ops st ops)).
Proof. exact history_nodup. Qed.
Print Assumptions C16_history_keys_nodup.

(* ---- non-vacuity: concrete instances meeting the hypotheses ---------------------- *)
Definition s_foo : str := [102; 111; 111].
Definition s_foobar : str := [102; 111; 111; 98; 97; 114].
Definition s_foox : str := [102; 111; 111; 45; 120].
(* class = foo foobar  foo-x foo ; style = a:b; *)
Definition st0 : attrs :=
  [(k_class, AStr (s_foo ++ [32] ++ s_foobar ++ [32; 9] ++ s_foox ++ [32] ++ s_foo));
   (k_style, AStr [97; 58; 98; 59])].

Example C16_ex_token :
  token_b s_foo = true /\ token_b s_foox = true /\ token_b s_foobar = true /\
  token_b [98] = true /\ token_b [97; 98] = true /\ token_b [97; 38; 98] = true /\
  is_ws 9 = true /\ is_ws 32 = true.
Proof. vm_compute. repeat split; reflexivity. Qed.

Example C16_ex_plain : plain_class st0.
Proof. intros h. vm_compute. discriminate. Qed.

(* split_spec / split_join *)
Example C16_ex_split :
  split_ws (aval_str (AStr (s_foo ++ [32; 9] ++ s_foox))) = [s_foo; s_foox] /\
  split_ws (join [32] [s_foo; s_foobar]) = [s_foo; s_foobar].
Proof. vm_compute. split; reflexivity. Qed.

(* add_tokens / add_has / add_value *)
Example C16_ex_add :
  class_tokens (add_class st0 (AStr [98]) true) = [[98]; s_foo; s_foobar; s_foox; s_foo] /\
  class_tokens (add_class st0 (AStr [98]) false) = [s_foo; s_foobar; s_foox; s_foo; [98]] /\
  has_class (add_class st0 (AStr [98]) false) [98] = true /\
  add_class [] (AStr [98]) false = [(k_class, AStr [98])].
Proof. vm_compute. repeat split; reflexivity. Qed.

(* add_tokens_html / add_has_html: class = HTML(x), token ab, esc ab = ab *)
Example C16_ex_add_html :
  attr_get k_class [(k_class, AHtml [120])] = Some (AHtml [120]) /\
  esc [97; 98] = [97; 98] /\
  has_class (add_class [(k_class, AHtml [120])] (AStr [97; 98]) true) [97; 98] = true.
Proof. vm_compute. repeat split; reflexivity. Qed.

(* remove / remove_attr / remove_other_tokens / remove_then_has *)
Example C16_ex_remove :
  remove_class st0 s_foo =
    Ok [(k_class, AStr (s_foobar ++ [32] ++ s_foox)); (k_style, AStr [97; 58; 98; 59])] /\
  remove_class [(k_class, AStr s_foo)] s_foo = Ok [] /\
  s_foobar <> strip s_foo.
Proof. vm_compute. repeat split; try reflexivity. discriminate. Qed.

(* remove_noop: a stored empty string stays *)
Example C16_ex_remove_noop :
  remove_class [(k_class, AStr [])] s_foo = Ok [(k_class, AStr [])].
Proof. vm_compute. reflexivity. Qed.

(* style_guard / add_style / add_style_plain / add_style_frame *)
Example C16_ex_style :
  ends_with_char 59 [99; 58; 100] = false /\
  add_style st0 (Some (AStr [99; 58; 100])) false = Err ValueError /\
  ends_with_char 59 [99; 58; 100; 59] = true /\
  attr_get k_style st0 = option_map AStr (Some [97; 58; 98; 59]) /\
  add_style st0 (Some (AStr [99; 58; 100; 59])) true =
    Ok [(k_class, AStr (s_foo ++ [32] ++ s_foobar ++ [32; 9] ++ s_foox ++ [32] ++ s_foo));
        (k_style, AStr [99; 58; 100; 59; 32; 97; 58; 98; 59])].
Proof. vm_compute. repeat split; reflexivity. Qed.

(* css / css_none_iff / css_accepted: css(fontSize=12px, a_b=None, marginTop=[1 2]) *)
Example C16_ex_css :
  css (Some [])
      [([102;111;110;116;83;105;122;101], Some (CStr [49;50;112;120]));
       ([97;95;98], None);
       ([109;97;114;103;105;110;84;111;112], Some (CList [Some [49]; Some [50]]))] =
  Ok (Some [102;111;110;116;45;115;105;122;101;58;49;50;112;120;59;
            109;97;114;103;105;110;45;116;111;112;58;49;32;50;59]) /\
  css (Some []) [([97;95;98], None)] = Ok None /\
  present [([97;95;98], @None cssval)] = [].
Proof. vm_compute. repeat split; reflexivity. Qed.

(* history_tokens / history_has / history_keys_nodup *)
Example C16_ex_history :
  let ops := [OAddClass (AStr s_foo) true; ORemoveClass ([32] ++ s_foobar ++ [10]);
              OAddStyle (Some (AStr [120])) false; OAddStyle (Some (AHtml [120; 59])) true;
              ORemoveClass s_foo; OAddClass (AStr s_foo) false] in
  forallb (fun o => match o with OAddClass (AStr c) _ => token_b c | OAddClass _ _ => false | _ => true end) ops = true /\
  class_tokens (run_ops st0 ops) = [s_foox; s_foo] /\
  spec_run (class_tokens st0) (map abs_op ops) = [s_foox; s_foo] /\
  NoDup (map fst st0).
Proof.
  vm_compute. repeat split; try reflexivity.
  constructor; [intros [E|[]]; discriminate|]. constructor; [intros []|constructor].
Qed.

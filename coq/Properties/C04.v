(* C04  HTML() content is written verbatim, plain strings are escaped exactly once, and
   concatenation preserves both readings.
   Statements only; proofs live in Proofs/.  Every theorem is closed by `exact` (or by
   reflexivity for the two attribute equations) and followed by Print Assumptions. *)
From HT Require Import Model.Str Model.Escape Model.Tree Model.Render Model.Concat Gen.Tables
     Proofs.RenderContent Proofs.ConcatProofs.

(* The content pieces of a rendered tag, in output order, are exactly the leaves of the
   tree in document order: each plain-text leaf as PTxt s (written html_escape(s), once),
   except plain text directly inside script/style, which is PRaw s (written as is); each
   HTML() leaf and each _repr_html_ result as PRaw s (written as is).  This holds on the
   single-child fast path, on the general path, for first and later children, indented or
   not, at any depth; everything else in the output is layout whitespace or tag markup. *)
Theorem C04_verbatim_and_escaped_once :
  forall (M : Type) (n : node M) (i : nat) (eol : str) (ps : list piece),
    render_tag i eol n = Ok ps -> filter is_content ps = leaf_pieces true n.
Proof. intros M. exact render_content. Qed.
Print Assumptions C04_verbatim_and_escaped_once.

(* The same for a TagList rendered with any add_ws and _escape_strings flags. *)
Theorem C04_list_content :
  forall (M : Type) (l : list (node M)) (i : nat) (eol : str) (aw esc : bool) (ps : list piece),
    render_list i eol aw esc l = Ok ps -> filter is_content ps = flat_map (leaf_pieces esc) l.
Proof. intros M. exact render_list_content. Qed.
Print Assumptions C04_list_content.

(* The strings written without escaping are exactly the HTML() / _repr_html_ leaves and the
   plain text directly inside script/style, in document order, each one unchanged. *)
Theorem C04_raw_pieces :
  forall (M : Type) (n : node M) (i : nat) (eol : str) (ps : list piece),
    render_tag i eol n = Ok ps -> raws_of ps = verbatim_leaves n.
Proof. intros M. exact raw_pieces. Qed.
Print Assumptions C04_raw_pieces.

(* Attribute values: HTML() verbatim, plain strings through the attribute escaper once. *)
Theorem C04_attr_verbatim :
  forall k s : str, attr_str (k, AHtml s) = [32] ++ k ++ [61; 34] ++ s ++ [34].
Proof. reflexivity. Qed.
Print Assumptions C04_attr_verbatim.

Theorem C04_attr_plain_escaped :
  forall k s : str, attr_str (k, AStr s) = [32] ++ k ++ [61; 34] ++ html_escape true s ++ [34].
Proof. reflexivity. Qed.
Print Assumptions C04_attr_plain_escaped.

(* Concatenation: for every expression tree over + (any grouping, any order; += and the
   reflected form are the same operation) that evaluates, rendering the result as a child
   equals rendering the operands as separate adjacent children: each plain operand escaped
   exactly once, each HTML operand never. *)
Theorem C04_concat_child :
  forall (e : cexpr) (v : cval),
    eval e = Some v -> child_str v = flat_map operand_str (leaves e).
Proof. exact concat_child. Qed.
Print Assumptions C04_concat_child.

(* The result is an HTML value iff some operand is. *)
Theorem C04_concat_is_html :
  forall (e : cexpr) (v : cval),
    eval e = Some v -> is_html_val v = existsb is_html_operand (leaves e).
Proof. exact concat_is_html. Qed.
Print Assumptions C04_concat_is_html.

(* Over str and HTML operands, + never raises. *)
Theorem C04_concat_total :
  forall e : cexpr, Forall str_or_html (leaves e) -> exists v, eval e = Some v.
Proof. exact concat_total_on_str_html. Qed.
Print Assumptions C04_concat_total.

(* A sum is always a str or an HTML, never a foreign object. *)
Theorem C04_concat_never_obj :
  forall (e : cexpr) (v : cval),
    eval e = Some v -> (exists a b, e = Add a b) ->
    match v with CObj _ => False | _ => True end.
Proof. exact concat_never_obj. Qed.
Print Assumptions C04_concat_never_obj.


(* F9 (repaired by c4a8f45): whatever a self-rendering child returns -- a str or an HTML object --
   the accumulated markup stays a str and the returned markup is appended to it byte for byte. *)
Theorem C04_repr_result_appended_verbatim :
  forall acc s : str,
    acc_step acc (CStr s) = Some (CStr (acc ++ s)) /\ acc_step acc (CHtml s) = Some (CStr (acc ++ s)).
Proof. intros acc s. split; reflexivity. Qed.
Print Assumptions C04_repr_result_appended_verbatim.

(* ... which the unrepaired step  html_ += r  did not do: an HTML result turned the markup rendered so
   far into the left operand of HTML.__radd__.  Witness: acc = the text a<b already escaped,
   r = HTML of <i>. *)
Theorem C04_unrepaired_accumulation_refuted :
  exists (acc s : str),
    option_map str_of (acc_step_unrepaired acc (CHtml s)) <> Some (acc ++ s).
Proof.
  exists [97; 38; 108; 116; 59; 98], [60; 105; 62].
  vm_compute. intros H. discriminate H.
Qed.
Print Assumptions C04_unrepaired_accumulation_refuted.

(* non-vacuity.  (a) the children  a<b  and HTML(<i>) under script are both written as is,
   under div the text is escaped and the HTML is not; (b) & + (HTML(&) + <) *)
Example C04_example_script_div :
  tag_html (M:=unit) 0 [10]
    (TagN [115;99;114;105;112;116] false [] [Text [97;60;98]; Html [60;105;62]])
  = Ok ([60;115;99;114;105;112;116;62] ++ [97;60;98] ++ [60;105;62]
        ++ [60;47;115;99;114;105;112;116;62])
  /\ tag_html (M:=unit) 0 [10]
    (TagN [100;105;118] false [] [Text [97;60;98]; Html [60;105;62]])
  = Ok ([60;100;105;118;62] ++ [97;38;108;116;59;98] ++ [60;105;62] ++ [60;47;100;105;118;62])
  /\ render_tag (M:=unit) 0 [10]
    (TagN [115;99;114;105;112;116] false [] [Text [97;60;98]; Html [60;105;62]])
  = Ok [PWs []; POpen [115;99;114;105;112;116] [] false; PRaw [97;60;98]; PRaw [60;105;62];
        PClose [115;99;114;105;112;116] false]
  /\ render_tag (M:=unit) 0 [10]
    (TagN [100;105;118] false [] [Text [97;60;98]; Html [60;105;62]])
  = Ok [PWs []; POpen [100;105;118] [] false; PTxt [97;60;98]; PRaw [60;105;62];
        PClose [100;105;118] false].
Proof. vm_compute. repeat split; reflexivity. Qed.

Example C04_example_concat :
  eval (Add (Leaf (OStr [38])) (Add (Leaf (OHtml [38])) (Leaf (OStr [60]))))
  = Some (CHtml [38;97;109;112;59; 38; 38;108;116;59]).
Proof. vm_compute. reflexivity. Qed.

(* C18  Output is deterministic across processes and independent of history.
   Statements only; proofs live in Proofs/HeadContentProofs.v.

   What is proved here is the part of the property that is a fact about the code's
   functions: head_content names are a function of the rendered content only (so equal
   content occupies one entry of a document's resolved dependencies), and, under the
   explicit premise that the content hash is injective, different content gets different
   names and is never merged.  The content hash (hashlib.sha1) is a universally
   quantified function H : str -> str; injectivity is a premise of the theorems that
   need it, not an axiom.

   PARTIAL by design (DESIGN section 6, C18): that the same construction gives the same
   bytes in every interpreter process, for every hash seed and after every history, is
   OBSERVED by the harness (harness/props/C18.py: a battery rendered in subprocesses with
   distinct PYTHONHASHSEED values and distinct orders), not proved.

   C18_model_is_list_based (informal): every collection in the models of rendering
   (Model/Render.v: children, attributes, pieces), of collection (Model/Deps.v: collect)
   and of resolution (Model/Deps.v: the insertion-ordered dict is an association list)
   is a list, and every model function is a total Gallina function of its arguments:
   there is no set, no hash-ordered iteration and no state to model.  The one place where
   the implementation uses a set (seen_deps in HTMLTextDocument's extraction) only tests
   membership; the order of the result comes from the list it appends to. *)
From HT Require Import Model.Str Model.Tree Model.Render Model.Deps Model.HeadContent
     Spec.StripMeta Proofs.HeadContentProofs.
From HT Require Model.Heap Model.HeapOps Proofs.HeapProofs Proofs.TagifyProofs.

(* head_content( *args ) is: render TagList( *args ) with the defaults (indent 0, newline,
   add_ws True, escaping on); if that raises (an un-expanded tagifiable object) so does
   head_content; otherwise the dependency is named prefix ++ H(rendering), has version
   0.0 and carries the arguments as its head payload. *)
Theorem C18_head_content_spec :
  forall (H : str -> str) (M : Type) (args : list (node M)),
    head_content H args =
    match list_html 0 [10] true true args with
    | Ok s => Ok (mkhdep (hc_prefix ++ H s) [0; 0] args)
    | Err e => Err e
    end
    /\ hc_name H args = res_map (fun s => hc_prefix ++ H s) (list_html 0 [10] true true args)
    /\ res_map h_name (head_content H args) = hc_name H args.
Proof.
  intros H M args. split; [apply head_content_spec|].
  split; [apply hc_name_spec|apply head_content_name].
Qed.
Print Assumptions C18_head_content_spec.

(* The name depends on the rendered string only: equal rendered content gives equal
   names (for every hash function, and also when both renderings fail alike) ... *)
Theorem C18_name_of_content :
  forall (H : str -> str) (M : Type) (a b : list (node M)),
    list_html 0 [10] true true a = list_html 0 [10] true true b -> hc_name H a = hc_name H b.
Proof. exact hc_name_content. Qed.
Print Assumptions C18_name_of_content.

(* ... hence (C10: one entry per name) two head_content dependencies of equal rendered
   content, placed anywhere among the dependencies l of a document, occupy exactly one
   entry of the resolved list. *)
Theorem C18_equal_content_once :
  forall (H : str -> str) (M : Type) (a b : list (node M)) na nb (l : list dep) da db,
    list_html 0 [10] true true a = list_html 0 [10] true true b ->
    hc_name H a = Ok na -> hc_name H b = Ok nb ->
    In da l -> In db l -> dname da = na -> dname db = nb ->
    na = nb /\ length (filter (fun r => str_eqb (dname r) na) (resolve l)) = 1%nat.
Proof. exact hc_equal_content_once. Qed.
Print Assumptions C18_equal_content_once.

(* Under an injective content hash, different rendered content gives different names ... *)
Theorem C18_distinct :
  forall (H : str -> str), (forall x y, H x = H y -> x = y) ->
  forall (M : Type) (a b : list (node M)) sa sb,
    list_html 0 [10] true true a = Ok sa -> list_html 0 [10] true true b = Ok sb ->
    sa <> sb -> hc_name H a <> hc_name H b.
Proof. exact hc_distinct. Qed.
Print Assumptions C18_distinct.

(* ... and both are kept by the resolution, as two entries of different names. *)
Theorem C18_distinct_both_kept :
  forall (H : str -> str), (forall x y, H x = H y -> x = y) ->
  forall (M : Type) (a b : list (node M)) sa sb (l : list dep) da db,
    list_html 0 [10] true true a = Ok sa -> list_html 0 [10] true true b = Ok sb ->
    sa <> sb ->
    In da l -> In db l -> hc_name H a = Ok (dname da) -> hc_name H b = Ok (dname db) ->
    exists ra rb, In ra (resolve l) /\ In rb (resolve l) /\
                  dname ra = dname da /\ dname rb = dname db /\ dname ra <> dname rb.
Proof. exact hc_distinct_both_kept. Qed.
Print Assumptions C18_distinct_both_kept.

(* Never merged, for a whole document: head_content dependencies (content string, object
   id) of pairwise different content come back from the resolution unchanged -- all kept,
   the same objects, in the same order. *)
Theorem C18_distinct_all_kept :
  forall (H : str -> str), (forall x y, H x = H y -> x = y) ->
  forall (cs : list (str * N)),
    NoDup (map fst cs) ->
    resolve (map (fun c => hc_dep H (fst c) (snd c)) cs)
    = map (fun c => hc_dep H (fst c) (snd c)) cs.
Proof. exact hc_all_kept. Qed.
Print Assumptions C18_distinct_all_kept.

(* Content that differs only in metadata nodes (dependencies, at any depth) has the same
   name (from C07): head_content(dep1) and head_content(dep2) are one entry.  This is what
   the code does; whether it is intended is for the maintainers (see the report). *)
Theorem C18_metadata_invisible :
  forall (H : str -> str) (M : Type) (a b : list (node M)),
    strip_list a = strip_list b -> hc_name H a = hc_name H b.
Proof. exact hc_name_strip. Qed.
Print Assumptions C18_metadata_invisible.

(* ---- non-vacuity -------------------------------------------------------------------- *)
(* the identity is an injective function str -> str: the premise of C18_distinct* can be met *)
(* Independence of history, at the level of object graphs (heap layer of C08): in ANY history
   of the read-only operations (tagify, render, get_html_string, get_dependencies, copy,
   HTMLDocument.render, ...) started in a well-formed heap, every operation's outcome is the
   pure function of the tree its receiver denoted in the ORIGINAL heap -- hence the outcome it
   has when run first, alone: rendering A before B never changes B.  (The models hold no
   module-level state, and no operation stores into a pre-existing object.) *)
Theorem C18_history :
  forall upd mk resolve dep_script dep_tags fuel os h h' rs,
    (forall k p, forallb HT.Proofs.TagifyProofs.no_custom (dep_tags k p) = true) ->
    HT.Model.Heap.wf h ->
    HT.Model.HeapOps.run_ops upd mk resolve dep_script dep_tags fuel h os = Some (h', rs) ->
    (exists ext, h' = h ++ ext)
    /\ (forall f v, HT.Model.Heap.val_ok (length h) v ->
                    HT.Model.Heap.abs_val f h' v = HT.Model.Heap.abs_val f h v)
    /\ Forall2 (fun o r =>
                  forall f rt, HT.Model.Heap.abs_root f h (HT.Model.HeapOps.op_target o) = Some rt ->
                    exists out,
                      HT.Model.HeapOps.pure_op upd mk resolve dep_script dep_tags o rt = Some out
                      /\ (exists f', HT.Model.HeapOps.observe f' h' r = Some out)
                      /\ forall h1 r1,
                          HT.Model.HeapOps.run_op upd mk resolve dep_script dep_tags fuel h o = Some (h1, r1) ->
                          exists f1, HT.Model.HeapOps.observe f1 h1 r1 = Some out) os rs.
Proof. exact HT.Proofs.HeapProofs.c08_replay_all. Qed.
Print Assumptions C18_history.

Example C18_example_injective : forall x y : str, (fun s : str => s) x = (fun s => s) y -> x = y.
Proof. intros x y E. exact E. Qed.

(* premises of C18_name_of_content / C18_equal_content_once: two different argument lists
   with equal rendered content (the text < and the markup &lt; ; a trailing dependency) *)
Example C18_example_equal_content :
  list_html (M:=unit) 0 [10] true true [Text [60]; TagN [112] true [] []]
  = list_html (M:=unit) 0 [10] true true [Html [38;108;116;59]; TagN [112] true [] []; Meta tt]
  /\ hc_name (fun s => s) (M:=unit) [Text [60]; TagN [112] true [] []]
     = Ok (hc_prefix ++ [38;108;116;59;10;60;112;62;60;47;112;62]).
Proof. vm_compute. split; reflexivity. Qed.

(* premises of C18_distinct / C18_distinct_both_kept / C18_distinct_all_kept: two contents
   that render, and render differently; a duplicate-free content list *)
Example C18_example_distinct :
  list_html (M:=unit) 0 [10] true true [Text [97]] = Ok [97]
  /\ list_html (M:=unit) 0 [10] true true [TagN [98] false [] [Text [97]]]
     = Ok [60;98;62;97;60;47;98;62]
  /\ [97] <> [60;98;62;97;60;47;98;62]
  /\ resolve (map (fun c => hc_dep (fun s => s) (fst c) (snd c)) [([97], 0); ([98], 1); ([97;98], 2)])
     = map (fun c => hc_dep (fun s => s) (fst c) (snd c)) [([97], 0); ([98], 1); ([97;98], 2)]
  /\ map did (resolve (map (fun c => hc_dep (fun s => s) (fst c) (snd c))
                           [([97], 0); ([98], 1); ([97], 2); ([98], 3); ([99], 4)]))
     = [0; 1; 4].
Proof. vm_compute. repeat split; try reflexivity. intros E; discriminate E. Qed.

(* premise of C18_metadata_invisible, and the error branch of C18_head_content_spec: an
   un-expanded tagifiable object makes head_content fail like get_html_string *)
Example C18_example_metadata_and_error :
  strip_list (M:=unit) [Meta tt; TagN [112] true [] [Meta tt; Text [97]]]
  = strip_list [TagN [112] true [] [Text [97]; Meta tt]; Meta tt]
  /\ head_content (fun s => s) (M:=unit) [Text [97]; Custom None [Text [98]]] = Err NotTagified
  /\ res_map h_name (head_content (fun s => s) (M:=unit) [Custom (Some [120]) []])
     = Ok (hc_prefix ++ [120]).
Proof. vm_compute. repeat split; reflexivity. Qed.

(* C09  Tagifiable objects render as their expansion. *)
From HT Require Import Model.Str Model.Tree Model.Render Model.Tagify Proofs.TagifyProofs.

(* The index loop of TagList.tagify (indices len-1 down to 0, each child replaced through the
   slice assignment cp[i:i+1] = f child) computes flat_map f: every child is replaced in
   place by what it contributes, for any length, any positions, any multiplicities,
   adjacent objects and empty contributions included. *)
Theorem C09_splice :
  forall (M : Type) (f : node M -> list (node M)) (l : list (node M)),
    splice_loop f (length l) l = flat_map f l.
Proof. intros M. exact splice_loop_flat_map. Qed.
Print Assumptions C09_splice.

(* TagList.tagify and Tag.tagify (the faithful fuelled models) are the declarative
   substitution: each object is replaced by its expansion, recursively through the
   children of tags, everything else stays itself. *)
Theorem C09_tagify_is_substitution :
  forall (M : Type),
    (forall l : list (node M), taglist_tagify l = flat_map subst l)
    /\ (forall n : node M, tag_tagify n = subst n).
Proof. intros M. split; [exact taglist_tagify_subst | exact tag_tagify_subst]. Qed.
Print Assumptions C09_tagify_is_substitution.

(* Tagifying a tag yields exactly one tag with the same name, whitespace flag and
   attributes; its children are the substituted children in document order. *)
Theorem C09_tag_shape :
  forall (M : Type) name ws a (kids : list (node M)),
    tag_tagify (TagN name ws a kids) = [TagN name ws a (flat_map subst kids)].
Proof. intros M. exact render_after_tagify. Qed.
Print Assumptions C09_tag_shape.

(* substitution distributes over concatenation of sibling lists *)
Theorem C09_siblings_independent :
  forall (M : Type) (l1 l2 : list (node M)),
    taglist_tagify (l1 ++ l2) = taglist_tagify l1 ++ taglist_tagify l2.
Proof. intros M l1 l2. rewrite !taglist_tagify_subst. apply subst_app. Qed.
Print Assumptions C09_siblings_independent.

(* A tree without any object is unchanged. *)
Theorem C09_no_custom_identity :
  forall (M : Type) (n : node M), no_custom n = true -> tag_tagify n = [n].
Proof. intros M n H. rewrite tag_tagify_subst. exact (subst_no_custom n H). Qed.
Print Assumptions C09_no_custom_identity.

(* When every expansion is itself fully tagified (the contract of an object's tagify()),
   one application reaches a fixed point. *)
Theorem C09_fixed_point :
  forall (M : Type) (n : node M),
    exp_expanded n = true -> taglist_tagify (tag_tagify n) = tag_tagify n.
Proof.
  intros M n H. rewrite taglist_tagify_subst, tag_tagify_subst.
  exact (subst_idem_when_expansions_expanded n H).
Qed.
Print Assumptions C09_fixed_point.

(* Rendering a tag / list in which an object without its own markup is still un-expanded
   at a rendered position raises (nothing is emitted), whatever else the tree contains. *)
Theorem C09_unexpanded_raises :
  forall (M : Type),
    (forall (n : node M) i eol,
        is_tag n = true -> has_unexpanded n = true -> render_tag i eol n = Err NotTagified)
    /\ (forall (l : list (node M)) i eol aw esc,
           existsb has_unexpanded l = true -> render_list i eol aw esc l = Err NotTagified).
Proof. intros M. split; [exact render_unexpanded | exact render_list_unexpanded]. Qed.
Print Assumptions C09_unexpanded_raises.

(* ... and that is the only failure mode: otherwise rendering succeeds. *)
Theorem C09_expanded_renders :
  forall (M : Type),
    (forall (n : node M) i eol,
        is_tag n = true -> has_unexpanded n = false -> exists ps, render_tag i eol n = Ok ps)
    /\ (forall (l : list (node M)) i eol aw esc,
           existsb has_unexpanded l = false -> exists ps, render_list i eol aw esc l = Ok ps).
Proof. intros M. split; [exact render_expanded_ok | exact render_list_expanded_ok]. Qed.
Print Assumptions C09_expanded_renders.

(* Hence, under the tagify() contract, tagify-then-render always succeeds and renders the
   substituted tree. *)
Theorem C09_tagified_renders :
  forall (M : Type),
    (forall name ws a (kids : list (node M)) i eol,
        forallb exp_expanded kids = true ->
        exists ps, render_tag i eol (TagN name ws a (flat_map subst kids)) = Ok ps)
    /\ (forall (l : list (node M)) i eol aw esc,
           forallb exp_expanded l = true ->
           exists ps, render_list i eol aw esc (taglist_tagify l) = Ok ps).
Proof. intros M. split; [exact tagified_tag_renders | exact tagified_list_renders]. Qed.
Print Assumptions C09_tagified_renders.

(* non-vacuity.  a = text a, b = <b></b>, c = HTML c, x = text x. *)
Example C09_example_splice :
  taglist_tagify (M:=unit)
    [Custom None [Text [97]; TagN [98] false [] []]; Custom None []; Text [120];
     Custom None [Html [99]]]
  = [Text [97]; TagN [98] false [] []; Text [120]; Html [99]].
Proof. vm_compute. reflexivity. Qed.

(* <div> holding an un-expanded object raises; after tagify it renders <div>a<b></b></div>
   (nested: the object sits inside a span inside the div as well) *)
Example C09_example_render :
  let t := TagN (M:=unit) [100;105;118] false []
             [Custom None [Text [97]; TagN [98] false [] []]] in
  let t' := TagN (M:=unit) [100;105;118] false [] [Text [97]; TagN [98] false [] []] in
  render_tag 0 [10] t = Err NotTagified
  /\ tag_tagify t = [t']
  /\ tag_html 0 [10] t'
     = Ok [60;100;105;118;62; 97; 60;98;62;60;47;98;62; 60;47;100;105;118;62]
  /\ render_tag 0 [10]
       (TagN (M:=unit) [112] true [] [Text [120]; TagN [105] false [] [Custom None []]])
     = Err NotTagified.
Proof. vm_compute. repeat split; reflexivity. Qed.

(* an object that also has its own markup renders that markup when left un-expanded *)
Example C09_example_self_html :
  render_list (M:=unit) 0 [10] false true [Custom (Some [120]) [Text [121]]] = Ok [PRaw [120]]
  /\ has_unexpanded (M:=unit) (Custom (Some [120]) [Text [121]]) = false.
Proof. vm_compute. split; reflexivity. Qed.

(* the hypotheses of the theorems above are met by these concrete trees *)
Example C09_example_hyps :
  let t := TagN (M:=unit) [100;105;118] false []
             [Custom None [Text [97]; TagN [98] false [] []]; Meta tt] in
  let t' := TagN (M:=unit) [100;105;118] false [] [Text [97]; TagN [98] false [] []; Meta tt] in
  is_tag t = true /\ has_unexpanded t = true /\ exp_expanded t = true
  /\ no_custom t = false /\ no_custom t' = true /\ has_unexpanded t' = false
  /\ tag_tagify t = [t'] /\ tag_tagify t' = [t']
  /\ taglist_tagify (tag_tagify t) = tag_tagify t
  /\ exp_expanded (M:=unit) (Custom None [Custom None []]) = false
  /\ taglist_tagify (tag_tagify (M:=unit) (Custom None [Custom None [Text [97]]]))
     <> tag_tagify (M:=unit) (Custom None [Custom None [Text [97]]]).
Proof. vm_compute. repeat split; try reflexivity. discriminate. Qed.

(* C03  Attribute values are inert, single-line, and decode to the original. *)
From HT Require Import Model.Str Model.Tree Model.Escape Model.Render Spec.CharMap
     Proofs.EscapeProofs Model.Attrs Spec.AttrsSpec Proofs.AttrsProofs Proofs.AttrsEmit
     Model.DriverC03 Proofs.AttrsProgram.

(* html_escape(text, attr=True) -- sequential replace over the regenerated
   HTML_ATTRS_ESCAPE_TABLE in source order -- is the per-character map of the statement. *)
Theorem C03_attr_escape_is_charmap :
  forall s : str, html_escape true s = flat_map esc_attr_char s.
Proof. exact (escape_is_charmap true). Qed.
Print Assumptions C03_attr_escape_is_charmap.

(* the escaped value contains no double quote, single quote, angle bracket, CR or LF: it
   cannot terminate the value, add an attribute, close the tag or break the line *)
Theorem C03_attr_inert :
  forall (s : str) (x : N), In x [34; 39; 60; 62; 13; 10] -> ~ In x (html_escape true s).
Proof.
  intros s x Hx. rewrite escape_is_charmap.
  exact (none_of_In _ _ (attr_no_special s) x Hx).
Qed.
Print Assumptions C03_attr_inert.

(* every ampersand in it starts one of the seven references *)
Theorem C03_attr_amp : forall s : str, amp_ok refs (html_escape true s) = true.
Proof. intros s. rewrite escape_is_charmap. exact (attr_amp_ok s). Qed.
Print Assumptions C03_attr_amp.

(* and decoding the references gives back the original characters *)
Theorem C03_attr_unescape : forall s : str, unescape (html_escape true s) = s.
Proof. intros s. rewrite escape_is_charmap. exact (unescape_escape true s). Qed.
Print Assumptions C03_attr_unescape.

(* the attribute writer: space, name, equals sign, double quote, the emitted text (escaped
   for a plain value, verbatim for an HTML value), double quote *)
Theorem C03_writer :
  forall (k : str) (v : aval), attr_str (k, v) = [32] ++ k ++ [61; 34] ++ emit_aval v ++ [34].
Proof. intros k [s|s]; reflexivity. Qed.
Print Assumptions C03_writer.

(* Merging: for any number of values given for one name in one construction call, in any
   order and any mix of plain and HTML values, what ends up between the quotes is the
   single-space join of: each plain value escaped (attribute table) exactly once, each HTML
   value verbatim. *)
Theorem C03_merge_escapes_once :
  forall dicts kw a ps,
    attrs_new dicts kw = Ok a ->
    kept_pairs (concat dicts ++ kw) = Ok ps ->
    forall k v, In (k, v) a ->
      emit_aval v = join [32] (map emit_aval (values_of k ps)).
Proof. exact new_emit. Qed.
Print Assumptions C03_merge_escapes_once.

(* one merge step, all four kind combinations *)
Theorem C03_merge_step :
  forall old val : aval,
    emit_aval (merge_vals old val) = emit_aval old ++ [32] ++ emit_aval val.
Proof. exact merge_emit. Qed.
Print Assumptions C03_merge_step.

(* attrs.update(...) after construction: the same for the values of that call (replacing) *)
Theorem C03_update_escapes_once :
  forall st dicts kw ps,
    NoDup (keys st) ->
    kept_pairs (concat dicts ++ kw) = Ok ps ->
    forall k v, In k (map fst ps) ->
      lookup k (fst (attrs_update st dicts kw)) = Some v ->
      emit_aval v = join [32] (map emit_aval (values_of k ps)).
Proof. exact update_emit. Qed.
Print Assumptions C03_update_escapes_once.

(* item assignment *)
Theorem C03_setitem :
  forall st k x v,
    norm_value x = Ok (Some v) ->
    lookup (norm_name k) (fst (attrs_setitem st k x)) = Some v /\ emit_aval v = emit_arg x.
Proof. exact setitem_emit. Qed.
Print Assumptions C03_setitem.

(* True renders as an empty value; None and False omit the attribute; numbers as text *)
Theorem C03_bool_none :
  norm_value (VBool true) = Ok (Some (AStr []))
  /\ norm_value VNone = Ok None /\ norm_value (VBool false) = Ok None
  /\ (forall r, norm_value (VInt r) = Ok (Some (AStr r)))
  /\ (forall r, norm_value (VFloat r) = Ok (Some (AStr r))).
Proof. repeat split; reflexivity. Qed.
Print Assumptions C03_bool_none.

(* ---- attribute maps flowing from one tag into another ------------------------------------ *)
(* A stored attribute map given back as a dict argument (tag.attrs itself, dict(tag.attrs), the
   dict returned by consolidate_attrs, the map expanded into keywords): every stored value is
   kept with its mark and still emits the same text ... *)
Theorem C03_reused_value :
  forall v : aval,
    norm_value (arg_of_aval v) = Ok (Some v) /\ emit_arg (arg_of_aval v) = emit_aval v.
Proof. intros v. split; [apply reuse_value|apply reuse_emit]. Qed.
Print Assumptions C03_reused_value.

(* ... the pairs it contributes to a call are exactly the stored (name, value) pairs, so
   C03_merge_escapes_once / C03_update_escapes_once apply with the stored values as they are:
   merged with further values, each original plain value is still escaped exactly once ... *)
Theorem C03_reused_pairs :
  forall a : attrs, wf_attrs a -> kept_pairs (dict_of_attrs a) = Ok a.
Proof. intros a [_ H]. exact (kept_pairs_dict_of_attrs a H). Qed.
Print Assumptions C03_reused_pairs.

(* ... and alone it gives the same map again (what consolidate_attrs followed by a tag is) *)
Theorem C03_reused_attrs :
  forall a : attrs, wf_attrs a -> attrs_new [dict_of_attrs a] [] = Ok a.
Proof. exact attrs_new_of_attrs. Qed.
Print Assumptions C03_reused_attrs.

(* every map reached by a program -- constructions whose dict arguments may be maps of
   earlier tags, then update / item assignment / add_class / add_style / item-wise copying,
   also with the tag's own map as the argument -- is well-formed, so the three facts above
   apply at every step of every program *)
Theorem C03_program_maps_wf :
  forall (ss : list stage) (earlier : list attrs),
    Forall (fun r => forall a, r = Ok a -> wf_attrs a) (run_stages earlier ss).
Proof. exact run_stages_wf. Qed.
Print Assumptions C03_program_maps_wf.

(* non-vacuity: class = (plain a-quote merged with HTML <), title = plain LF: well-formed, and
   given back as a dict it is the same map, which emits a&quot; < and &#10; *)
Example C03_reuse_example :
  let a := [([99;108;97;115;115], merged [AStr [97;34]; AHtml [60]]); ([116], AStr [10])] in
  (NoDup (keys a) /\ Forall normalised (keys a))
  /\ attrs_new [dict_of_attrs a] [] = Ok a
  /\ map (fun kv => emit_aval (snd kv)) a = [[97;38;113;117;111;116;59;32;60]; [38;35;49;48;59]].
Proof.
  split; [split|split; vm_compute; reflexivity].
  - repeat constructor; simpl; intuition discriminate.
  - repeat constructor; unfold normalised; simpl; intuition discriminate.
Qed.

(* non-vacuity: a quote-bearing plain value merged with an HTML value and a newline *)
Example C03_example :
  emit_aval (merged [AStr [97;34]; AHtml [60]; AStr [10]])
  = [97;38;113;117;111;116;59; 32; 60; 32; 38;35;49;48;59].
Proof. vm_compute. reflexivity. Qed.

(* C15  Attribute names and values are normalised and merged in argument order.
   Statements only; proofs live in Proofs/AttrsProofs.v.  Model: Model/Attrs.v (a
   transcription of TagAttrDict, the attribute part of Tag.__init__, HTML.__add__ /
   __radd__ and consolidate_attrs); specification: Spec/AttrsSpec.v. *)
From HT Require Import Model.Str Model.Tree Model.Escape Model.Attrs Spec.CharMap
     Spec.AttrsSpec Proofs.AttrsProofs Proofs.AttrsEmit.

(* ---- names ------------------------------------------------------------------------- *)
(* _normalize_attr_name removes exactly one trailing underscore and then turns every
   remaining underscore into a hyphen (so x__ becomes x-). *)
Theorem C15_name :
  forall x : str, norm_name x = map us_to_hyphen (strip_one_trailing_us x).
Proof. exact norm_name_spec. Qed.
Print Assumptions C15_name.

(* the same, without the helper function: a name ending in an underscore ... *)
Theorem C15_name_trailing :
  forall y : str, norm_name (y ++ [95]) = map us_to_hyphen y.
Proof. intros y. rewrite norm_name_spec. unfold spec_name. rewrite strip_snoc_us. reflexivity. Qed.
Print Assumptions C15_name_trailing.

(* ... and a name not ending in one *)
Theorem C15_name_no_trailing :
  forall x : str, last x 0 <> 95 -> norm_name x = map us_to_hyphen x.
Proof.
  intros x H. rewrite norm_name_spec. unfold spec_name.
  rewrite strip_no_trailing by (apply last_not_us; exact H). reflexivity.
Qed.
Print Assumptions C15_name_no_trailing.

(* a normalised name contains no underscore; names without underscore are left alone;
   hence normalisation is idempotent *)
Theorem C15_name_normalised : forall x : str, ~ In 95 (norm_name x).
Proof. intros x. rewrite norm_name_spec. apply spec_name_no_us. Qed.
Print Assumptions C15_name_normalised.

Theorem C15_name_fixpoint : forall x : str, ~ In 95 x -> norm_name x = x.
Proof. intros x H. rewrite norm_name_spec. apply spec_name_id. exact H. Qed.
Print Assumptions C15_name_fixpoint.

Theorem C15_name_idempotent : forall x : str, norm_name (norm_name x) = norm_name x.
Proof.
  intros x. rewrite (norm_name_spec (norm_name x)). apply spec_name_id.
  rewrite norm_name_spec. apply spec_name_no_us.
Qed.
Print Assumptions C15_name_idempotent.

(* ---- values ------------------------------------------------------------------------ *)
(* None and False are dropped, True is the empty string, numbers are their text, str and
   HTML are kept as they are (and keep their kind); anything else is a TypeError. *)
Theorem C15_value :
  norm_value VNone = Ok None /\
  norm_value (VBool false) = Ok None /\
  norm_value (VBool true) = Ok (Some (AStr [])) /\
  (forall r, norm_value (VInt r) = Ok (Some (AStr r))) /\
  (forall r, norm_value (VFloat r) = Ok (Some (AStr r))) /\
  (forall s, norm_value (VStr s) = Ok (Some (AStr s))) /\
  (forall s, norm_value (VHtml s) = Ok (Some (AHtml s))) /\
  norm_value VBad = Err TypeError.
Proof. repeat split. Qed.
Print Assumptions C15_value.

(* ---- one construction call --------------------------------------------------------- *)
(* TagAttrDict of positional dicts and keywords is the specification attrs_of_call:
   the kept (normalised name, value) pairs of concat dicts ++ kwargs, grouped by name in
   order of first appearance, the values of a name merged in argument order. *)
Theorem C15_call :
  forall (dicts : list pydict) (kwargs : pydict),
    attrs_new dicts kwargs = attrs_of_call dicts kwargs.
Proof.
  intros dicts kw. unfold attrs_new. rewrite attrs_update_spec by constructor.
  unfold spec_step. destruct (attrs_of_call dicts kw) as [a|e]; [|reflexivity].
  unfold replace_merge. simpl. rewrite filter_all by reflexivity. reflexivity.
Qed.
Print Assumptions C15_call.

(* Tag(name, args..., kwargs...): the dict arguments among the positional ones, in order,
   then the keywords; the other positional arguments are the children *)
Theorem C15_tag_call :
  forall (C : Type) (args : list (posarg C)) (kwargs : pydict),
    tag_new args kwargs =
    res_map (fun a => (a, kid_args args)) (attrs_of_call (dict_args args) kwargs).
Proof.
  intros C args kw. unfold tag_new. rewrite C15_call.
  destruct (attrs_of_call (dict_args args) kw); reflexivity.
Qed.
Print Assumptions C15_tag_call.

(* what attrs_of_call says, name by name: order of first appearance, and for each name
   the merge of exactly the values given for it, in argument order *)
Theorem C15_call_order :
  forall dicts kwargs ps a,
    kept_pairs (concat dicts ++ kwargs) = Ok ps ->
    attrs_new dicts kwargs = Ok a ->
    keys a = first_names (map fst ps) /\
    forall n, In n (map fst ps) -> lookup n a = Some (merged (values_of n ps)).
Proof.
  intros dicts kw ps a Hps Ha. rewrite C15_call in Ha. unfold attrs_of_call in Ha.
  rewrite Hps in Ha. simpl in Ha. inversion Ha. subst a. split; [apply keys_group|].
  intros n Hn. rewrite lookup_group. apply mem_str_In in Hn. rewrite Hn. reflexivity.
Qed.
Print Assumptions C15_call_order.

(* all values plain: the value is the texts joined by single spaces *)
Theorem C15_merge_plain :
  forall vs : list aval,
    existsb is_html vs = false -> merged vs = AStr (join [32] (map aval_text vs)).
Proof. exact merged_plain. Qed.
Print Assumptions C15_merge_plain.

(* in general the merge is the code's step, left to right: when either operand is HTML the
   plain one is first turned into HTML(html_escape(x, attr=True)), then (old + space) + val
   with the + of str and HTML (HTML.__add__ / __radd__) *)
Theorem C15_merge_left_to_right :
  forall (v : aval) (vs : list aval), merged (v :: vs) = fold_left merge_vals vs v.
Proof. exact merged_fold. Qed.
Print Assumptions C15_merge_left_to_right.

(* what is written between the quotes is preserved by merging: every plain value escaped
   exactly once with the attribute table, HTML values never, any mixture, order and count *)
Theorem C15_merge_emit :
  forall vs : list aval, emit_aval (merged vs) = join [32] (map emit_aval vs).
Proof. exact merged_emit. Qed.
Print Assumptions C15_merge_emit.

(* a call raises (TypeError) exactly when one of its values has an unsupported type *)
Theorem C15_call_error :
  forall dicts kwargs,
    (exists e, attrs_new dicts kwargs = Err e) <-> In VBad (map snd (concat dicts ++ kwargs)).
Proof.
  intros dicts kw. rewrite C15_call. unfold attrs_of_call. rewrite <- kept_pairs_err.
  destruct (kept_pairs (concat dicts ++ kw)) as [ps|e0]; simpl; split; intros [e H];
    try discriminate; eauto.
Qed.
Print Assumptions C15_call_error.

(* ---- later update / item assignment ------------------------------------------------- *)
(* attrs.update(...) and attrs[k] = v on a stored map with distinct names: the call's own
   attributes (attrs_of_call, resp. the single normalised pair) REPLACE the stored values
   of names already present, which keep their position; new names are appended; a value
   that is dropped leaves the map as it is; a TypeError leaves the map as it is. *)
Theorem C15_replace :
  forall (st : attrs) (o : op), NoDup (keys st) -> step st o = spec_step st o.
Proof. exact step_spec. Qed.
Print Assumptions C15_replace.

Theorem C15_replace_lookup :
  forall k self new,
    lookup k (replace_merge self new) =
    match lookup k new with Some v => Some v | None => lookup k self end.
Proof. exact lookup_replace_merge. Qed.
Print Assumptions C15_replace_lookup.

Theorem C15_replace_order :
  forall self new,
    keys (replace_merge self new) =
    keys self ++ filter (fun k => negb (mem_str k (keys self))) (keys new).
Proof. exact keys_replace_merge. Qed.
Print Assumptions C15_replace_order.

Theorem C15_replace_dropped :
  forall st,
    (forall dicts kwargs, kept_pairs (concat dicts ++ kwargs) = Ok [] ->
                          step st (OpUpdate dicts kwargs) = (st, None)) /\
    (forall k v, norm_value v = Ok None -> step st (OpSet k v) = (st, None)).
Proof.
  intros st. split.
  - intros dicts kw H. simpl. unfold attrs_update. rewrite update_args_call.
    unfold attrs_of_call. rewrite H. reflexivity.
  - intros k v H. simpl. unfold attrs_setitem. rewrite H. reflexivity.
Qed.
Print Assumptions C15_replace_dropped.

(* any sequence of operations, starting from any well-formed map (in particular from a
   freshly constructed tag): the trace of states and exceptions is the specification's *)
Theorem C15_ops :
  forall (ops : list op) (st : attrs), wf_attrs st -> run_ops st ops = spec_run st ops.
Proof. exact run_ops_spec. Qed.
Print Assumptions C15_ops.

(* an operation that raises leaves the stored map unchanged, also when values before the
   offending one were already normalised and merged *)
Theorem C15_update_atomic :
  forall (st : attrs) (o : op) (e : err), snd (step st o) = Some e -> fst (step st o) = st.
Proof. exact step_atomic. Qed.
Print Assumptions C15_update_atomic.

(* invariant over all histories: names stay distinct and normalised (no underscore);
   values are str or HTML by the type of the map *)
Theorem C15_invariant :
  forall (ops : list op) (st : attrs),
    wf_attrs st ->
    wf_attrs (final_state st ops) /\ Forall (fun r => wf_attrs (fst r)) (run_ops st ops).
Proof. intros ops st H. split; [apply final_state_wf|apply run_ops_wf]; exact H. Qed.
Print Assumptions C15_invariant.

Theorem C15_invariant_new :
  forall dicts kwargs a (ops : list op),
    attrs_new dicts kwargs = Ok a -> wf_attrs a /\ wf_attrs (final_state a ops).
Proof.
  intros dicts kw a ops H. pose proof (attrs_new_wf _ _ _ H) as W.
  split; [exact W|apply final_state_wf; exact W].
Qed.
Print Assumptions C15_invariant_new.

(* ---- consolidate_attrs ---------------------------------------------------------------- *)
(* consolidate_attrs returns the attributes of the direct construction and the non-dict
   arguments unchanged, and building a tag from that dict followed by those children gives
   the same attribute list and the same children again; it raises iff the direct
   construction raises. *)
Theorem C15_consolidate :
  forall (C : Type) (args : list (posarg C)) (kwargs : pydict) (a : attrs) (ch : list C),
    consolidate args kwargs = Ok (a, ch) ->
    tag_new args kwargs = Ok (a, ch) /\
    tag_new (PDict (dict_of_attrs a) :: map PChild ch) [] = Ok (a, ch).
Proof. intros C. exact consolidate_rebuild. Qed.
Print Assumptions C15_consolidate.

Theorem C15_consolidate_err :
  forall (C : Type) (args : list (posarg C)) (kwargs : pydict) (e : err),
    consolidate args kwargs = Err e <-> tag_new args kwargs = Err e.
Proof. intros C. exact consolidate_err. Qed.
Print Assumptions C15_consolidate_err.

(* ---- non-vacuity / concrete instances -------------------------------------------------- *)
(* x__ -> x- ; a_b -> a-b ; _ -> empty ; class_ -> class *)
Example C15_name_examples :
  norm_name [120;95;95] = [120;45] /\ norm_name [97;95;98] = [97;45;98] /\
  norm_name [95] = [] /\ norm_name [99;108;97;115;115;95] = [99;108;97;115;115] /\
  last [97;95;98] 0 <> 95 /\ ~ In 95 [97;45;98].
Proof. vm_compute. repeat split; try reflexivity; intuition discriminate. Qed.

(* Tag(div, {class: a, id: None}, {class_: 1}, x_=True, class__=b)  (1 the int):
   class = a 1, then x = empty; class__ normalises to class- *)
Example C15_call_example :
  attrs_new [[([99;108;97;115;115], VStr [97]); ([105;100], VNone)];
             [([99;108;97;115;115;95], VInt [49])]]
            [([120;95], VBool true); ([99;108;97;115;115;95;95], VStr [98])]
  = Ok [([99;108;97;115;115], AStr [97;32;49]); ([120], AStr []);
        ([99;108;97;115;115;45], AStr [98])]
  /\ kept_pairs (concat [[([99;108;97;115;115], VStr [97]); ([105;100], VNone)];
                         [([99;108;97;115;115;95], VInt [49])]]
                 ++ [([120;95], VBool true); ([99;108;97;115;115;95;95], VStr [98])])
     = Ok [([99;108;97;115;115], AStr [97]); ([99;108;97;115;115], AStr [49]);
           ([120], AStr []); ([99;108;97;115;115;45], AStr [98])].
Proof. vm_compute. split; reflexivity. Qed.

(* the mixed merge: Tag(div, {class: a DQUOTE b}, class_=HTML(x)) stores
   HTML(a &quot; b SPACE x): the plain operand went through the ATTRIBUTE table (34 becomes
   &quot;, 10 becomes &#10;) before it was joined with the HTML one. *)
Example C15_mixed_merge_example :
  attrs_new [[([99;108;97;115;115], VStr [97;34;98])]] [([99;108;97;115;115;95], VHtml [120])]
  = Ok [([99;108;97;115;115], AHtml [97; 38;113;117;111;116;59; 98;32;120])]
  /\ merged [AStr [34]; AHtml [60]; AStr [10]]
     = AHtml [38;113;117;111;116;59; 32; 60; 32; 38;35;49;48;59]
  /\ emit_aval (merged [AStr [34]; AStr [60]]) = [38;113;117;111;116;59; 32; 38;108;116;59].
Proof. vm_compute. repeat split; reflexivity. Qed.

(* update replaces and keeps the position, appends new names, is atomic on TypeError *)
Example C15_replace_example :
  let st := [([97], AStr [49]); ([98], AStr [50])] in
  NoDup (keys st) /\ wf_attrs st /\
  step st (OpUpdate [[([99;95], VStr [51]); ([97;95], VStr [120])]] [([97], VStr [121])])
    = ([([97], AStr [120;32;121]); ([98], AStr [50]); ([99], AStr [51])], None) /\
  step st (OpSet [98;95] (VInt [55])) = ([([97], AStr [49]); ([98], AStr [55])], None) /\
  step st (OpSet [98] VNone) = (st, None) /\
  step st (OpUpdate [[([97], VStr [120]); ([98], VBad)]] []) = (st, Some TypeError) /\
  kept_pairs (concat [[([97], VNone)]] ++ [([98], VBool false)]) = Ok [].
Proof.
  assert (N : NoDup (keys [([97], AStr [49]); ([98], AStr [50])])).
  { repeat constructor; simpl; intuition discriminate. }
  cbv zeta. split; [exact N|]. split.
  { split; [exact N|]. unfold keys. simpl.
    constructor; [|constructor; [|constructor]]; unfold normalised; simpl; intuition discriminate. }
  vm_compute. repeat split; reflexivity.
Qed.

(* consolidate_attrs({a_: 1}, child 7, {a: HTML(h)}, b=None) *)
Example C15_consolidate_example :
  consolidate [PDict [([97;95], VInt [49])]; PChild 7; PDict [([97], VHtml [104])]] [([98], VNone)]
  = Ok ([([97], AHtml [49;32;104])], [7]).
Proof. vm_compute. reflexivity. Qed.

(* C08  Rendering and tagify are pure and consistent; tagify returns an independent copy.

   Heap layer: Model/Heap.v (objects, alloc, store, abs, reach, wf), Model/HeapOps.v (the
   operations, written with alloc / store where the Python code creates / assigns).
   Pure layer: Model/Tree.v, Model/Tagify.v (subst), Model/Render.v; Spec/EqSpec.v (==).
   In all heap-layer theorems upd, mk, resolve, dep_script, dep_tags are arbitrary: the
   attribute update of HTMLDocument, dependency resolution and the tags a dependency
   contributes are not C08's subject and the theorems hold whatever they compute.
   Dependency INTERNALS are not modelled (OMeta carries an opaque payload): known finding F8
   lives there. *)
From Coq Require Import PeanoNat Lia.
From HT Require Import Model.Str Model.Tree Model.Tagify Model.Render Model.Heap Model.HeapOps
  Spec.EqSpec Proofs.TagifyProofs Proofs.HeapProofs Proofs.EqProofs.

(* ------------------------------------------------------------------------------------ *)
(* Purity                                                                               *)
(* ------------------------------------------------------------------------------------ *)

(* Every operation -- tagify, render, get_html_string, get_dependencies, copy.copy on a Tag
   or a TagList, HTMLDocument(x, attrs).render() in its three construction cases (lone
   html tag, lone body tag, anything else; the repaired code), and _hoist_head_content
   called on its own on any html tag -- returns the old heap with new objects appended:
   every object that existed before is unchanged. *)
Theorem C08_alloc_only :
  forall upd mk resolve dep_script dep_tags fuel h o h' r,
    run_op upd mk resolve dep_script dep_tags fuel h o = Some (h', r) ->
    exists ext, h' = h ++ ext.
Proof. exact run_op_ext. Qed.
Print Assumptions C08_alloc_only.

(* ... and so does every history of operations. *)
Theorem C08_alloc_only_history :
  forall upd mk resolve dep_script dep_tags fuel os h h' rs,
    run_ops upd mk resolve dep_script dep_tags fuel h os = Some (h', rs) ->
    exists ext, h' = h ++ ext.
Proof. exact run_ops_ext. Qed.
Print Assumptions C08_alloc_only_history.

(* Old locations denote the same tree (or the same failure) whatever is appended. *)
Theorem C08_abs_frame :
  forall fuel h ext v,
    wf h -> val_ok (length h) v -> abs_val fuel (h ++ ext) v = abs_val fuel h v.
Proof. exact abs_frame_wf. Qed.
Print Assumptions C08_abs_frame.

(* Replay.  After any history of operations (all seven kinds, HTMLDocument.render and
   _hoist_head_content included) started in a well-formed heap h:
   (1) the heap is h plus new objects;
   (2) every value of h denotes what it denoted before, for every fuel;
   (3) the outcome of each operation -- new objects observed by the trees they denote -- is
       the pure-layer function pure_op of the tree its receiver denoted in the ORIGINAL
       heap, wherever the operation stands in the history; in particular
   (4) it is the outcome the same operation has when run first, on h itself.
   Hypothesis on what C08 does not model: the tags a dependency contributes to head hold no
   tagifiable object (as_html_tags builds meta / link / script tags and HTML text). *)
Theorem C08_replay :
  forall upd mk resolve dep_script dep_tags fuel os h h' rs,
    (forall k p, forallb no_custom (dep_tags k p) = true) ->
    wf h ->
    run_ops upd mk resolve dep_script dep_tags fuel h os = Some (h', rs) ->
    (exists ext, h' = h ++ ext)
    /\ (forall f v, val_ok (length h) v -> abs_val f h' v = abs_val f h v)
    /\ Forall2 (fun o r =>
                  forall f rt, abs_root f h (op_target o) = Some rt ->
                    exists out,
                      pure_op upd mk resolve dep_script dep_tags o rt = Some out
                      /\ (exists f', observe f' h' r = Some out)
                      /\ forall h1 r1,
                          run_op upd mk resolve dep_script dep_tags fuel h o = Some (h1, r1) ->
                          exists f1, observe f1 h1 r1 = Some out) os rs.
Proof. exact c08_replay_all. Qed.
Print Assumptions C08_replay.

(* The same without any hypothesis on the dependency tags, for the operations that do not
   build a document, and with the observation at the fuel of the hypothesis. *)
Theorem C08_replay_basic :
  forall upd mk resolve dep_script dep_tags fuel os h h' rs,
    wf h ->
    run_ops upd mk resolve dep_script dep_tags fuel h os = Some (h', rs) ->
    (exists ext, h' = h ++ ext)
    /\ (forall f v, val_ok (length h) v -> abs_val f h' v = abs_val f h v)
    /\ Forall2 (fun o r =>
                  is_doc o = false ->
                  forall f rt, abs_root f h (op_target o) = Some rt ->
                    observe f h' r = pure_op upd mk resolve dep_script dep_tags o rt
                    /\ forall h1 r1,
                        run_op upd mk resolve dep_script dep_tags fuel h o = Some (h1, r1) ->
                        observe f h1 r1 = observe f h' r) os rs.
Proof. exact c08_replay. Qed.
Print Assumptions C08_replay_basic.

(* The document construction refines its pure reading: _hoist_head_content called on a tag
   denoting t returns a NEW tag denoting hoist_pure t (head found or created, meta charset
   first, the dependency script and the dependency tags last), and _gen_html_tag_tree on
   content denoting ts returns a tag denoting gen_tree_pure ts (the three construction
   cases; the document attributes go into the copy). *)
Theorem C08_doc_refines :
  forall upd mk resolve dep_script dep_tags,
    (forall k p, forallb no_custom (dep_tags k p) = true) ->
    (forall fuel k h x h' res f t,
        hoist resolve dep_script dep_tags fuel k h x = Some (h', res) ->
        abs f h x = Some t ->
        exists t' f', hoist_pure resolve dep_script dep_tags k t = Some t'
                      /\ abs f' h' res = Some t')
    /\ (forall fuel k h content items h' html f ts,
           gen_tree upd mk resolve dep_script dep_tags fuel k h content = Some (h', html) ->
           lookup h content = Some (OList items) -> abs_list f h items = Some ts ->
           exists t f', gen_tree_pure upd mk resolve dep_script dep_tags k ts = Some t
                        /\ abs f' h' html = Some t).
Proof.
  intros upd mk resolve dep_script dep_tags Hdt. split.
  - exact (hoist_refines resolve dep_script dep_tags Hdt).
  - exact (gen_tree_refines upd mk resolve dep_script dep_tags Hdt).
Qed.
Print Assumptions C08_doc_refines.

(* ------------------------------------------------------------------------------------ *)
(* tagify: fresh, independent, the pure substitution                                    *)
(* ------------------------------------------------------------------------------------ *)

(* Everything reachable from the result of Tag.tagify / TagList.tagify -- the tag objects,
   their attribute maps, their child lists, the metadata nodes, through any number of levels
   -- was allocated by the call. *)
Theorem C08_tagify_fresh :
  forall fuel h l h' r,
    tag_tagify fuel h l = Some (h', r) \/ taglist_tagify fuel h l = Some (h', r) ->
    forall x, reach h' (VRef r) x -> (length h <= x < length h')%nat.
Proof. exact c08_tagify_fresh. Qed.
Print Assumptions C08_tagify_fresh.

(* Mutating the copy (a store at any location reachable from it) leaves every tree of the
   original heap as it was; mutating anything that existed before the call leaves the tree
   of the copy as it was. *)
Theorem C08_independent :
  forall fuel h l h' r,
    tag_tagify fuel h l = Some (h', r) ->
    (forall c o f v t,
        reach h' (VRef r) c -> abs_val f h v = Some t -> abs_val f (store h' c o) v = Some t)
    /\ (forall c o f,
           (c < length h)%nat -> abs_val f (store h' c o) (VRef r) = abs_val f h' (VRef r)).
Proof. exact c08_independent. Qed.
Print Assumptions C08_independent.

(* The copy denotes the pure-layer substitution of the original: every object replaced by
   what its tagify() contributes, everything else kept. *)
Theorem C08_tagify_refines :
  forall fuel h l h' r f t,
    tag_tagify fuel h l = Some (h', r) -> abs f h l = Some t ->
    exists t', subst t = [t'] /\ abs f h' r = Some t'.
Proof. exact c08_tagify_refines. Qed.
Print Assumptions C08_tagify_refines.

(* the same for either kind of receiver *)
Theorem C08_tagify_refines_root :
  forall fuel h l h' r f rt,
    tagify_root fuel h l = Some (h', r) -> abs_root f h l = Some rt ->
    exists rt', root_subst rt = Some rt' /\ abs_root f h' r = Some rt'.
Proof. exact tagify_root_obs. Qed.
Print Assumptions C08_tagify_refines_root.

(* Nothing to expand: the copy denotes the same tree. *)
Theorem C08_tagify_noexp :
  forall fuel h l h' r f t,
    tag_tagify fuel h l = Some (h', r) -> abs f h l = Some t -> no_custom t = true ->
    abs f h' r = Some t.
Proof. exact c08_tagify_noexp. Qed.
Print Assumptions C08_tagify_noexp.

(* The result is a fixed point of tagify. *)
Theorem C08_tagify_idem :
  forall g1 g2 h l h1 r1 h2 r2 f t,
    tag_tagify g1 h l = Some (h1, r1) -> abs f h l = Some t ->
    tag_tagify g2 h1 r1 = Some (h2, r2) ->
    exists t1, abs f h1 r1 = Some t1 /\ abs f h2 r2 = Some t1.
Proof. exact c08_tagify_idem. Qed.
Print Assumptions C08_tagify_idem.

(* copy.copy(tag): a new tag object with its own attribute map and its own child list
   (assigning to the copy's fields, attributes or child list cannot touch the original),
   denoting the same tree; the children are shared (a shallow copy). *)
Theorem C08_copy_shallow :
  forall h l h' cp,
    copy_tag h l = Some (h', cp) ->
    (exists ext, h' = h ++ ext)
    /\ (exists name ws al kl a items,
           lookup h' cp = Some (OTag name ws al kl) /\ lookup h' al = Some (OAttrs a)
           /\ lookup h' kl = Some (OList items)
           /\ (length h <= cp)%nat /\ (length h <= al)%nat /\ (length h <= kl)%nat
           /\ exists al0 kl0, lookup h l = Some (OTag name ws al0 kl0)
                              /\ lookup h al0 = Some (OAttrs a) /\ lookup h kl0 = Some (OList items))
    /\ forall f t, abs f h l = Some t -> abs f h' cp = Some t.
Proof. exact c08_copy_shallow. Qed.
Print Assumptions C08_copy_shallow.

(* ------------------------------------------------------------------------------------ *)
(* The four string forms                                                                *)
(* ------------------------------------------------------------------------------------ *)

(* __str__ is _render_tag_or_taglist = render()[html] in the default (invisible) dependency
   mode, __repr__ and _repr_html_ return str(self): one function. *)
Theorem C08_str_consistent :
  forall r : rootv,
    model_str r = pure_render_html r /\ model_repr r = pure_render_html r
    /\ model_repr_html r = pure_render_html r.
Proof. intros r. repeat split; reflexivity. Qed.
Print Assumptions C08_str_consistent.

(* ... and it is what the heap-level render() returns. *)
Theorem C08_render_is_str :
  forall upd mk resolve dep_script dep_tags fuel h l h' s d f rt,
    run_op upd mk resolve dep_script dep_tags fuel h (OpRender l) = Some (h', RRender s d) ->
    abs_root f h l = Some rt ->
    model_str rt = Some s.
Proof. exact c08_render_is_str. Qed.
Print Assumptions C08_render_is_str.

(* ------------------------------------------------------------------------------------ *)
(* ==                                                                                   *)
(* ------------------------------------------------------------------------------------ *)

(* The model of == answers true exactly on similar trees (same name, same flag, the same
   attribute map up to insertion order with equal value texts, children pairwise similar,
   str / HTML children by text), for trees whose attribute maps are dicts. *)
Theorem C08_eq_reflects :
  forall x y, dict_ok x -> dict_ok y -> (eqb x y = true <-> sim x y).
Proof. exact eqb_sim. Qed.
Print Assumptions C08_eq_reflects.

(* reflexive on trees of tags, text and dependencies; symmetric *)
Theorem C08_eq_refl_sym :
  (forall x, dict_ok x -> plain x = true -> eqb x x = true)
  /\ (forall x y, dict_ok x -> dict_ok y -> eqb x y = eqb y x).
Proof. split; [exact eqb_refl|exact eqb_sym]. Qed.
Print Assumptions C08_eq_refl_sym.

(* == is false as soon as the name, the flag, the set of attributes, an attribute value, the
   number of children or a child differs; false between a tag and anything else; between text
   children it is equality of the texts. *)
Theorem C08_eq_discriminates :
  (forall n w a k n' w' a' k',
      NoDup (map fst a) -> NoDup (map fst a') ->
      eqb (TagN n w a k) (TagN n' w' a' k') = true ->
      n = n' /\ w = w'
      /\ (forall key, In key (map fst a) <-> In key (map fst a'))
      /\ (forall key, option_map aval_text (alookup key a) = option_map aval_text (alookup key a'))
      /\ length k = length k'
      /\ Forall2 (fun c c' => eqb c c' = true) k k')
  /\ (forall n w a k y, is_tag y = false -> eqb (TagN n w a k) y = false /\ eqb y (TagN n w a k) = false)
  /\ (forall s s', eqb (Text s) (Text s') = true <-> s = s').
Proof. exact c08_eq_discriminates. Qed.
Print Assumptions C08_eq_discriminates.

(* ------------------------------------------------------------------------------------ *)
(* Non-vacuity: a heap with aliasing (one tag object in three places, once inside an     *)
(* object's expansion), a dependency, a plain metadata node                              *)
(* ------------------------------------------------------------------------------------ *)
Definition ex_heap : heap :=
  [ OAttrs [([105;100], AStr [97])];                                  (* 0  {id: a}           *)
    OList [VText [120]; VRef 5%nat; VRef 3%nat; VRef 4%nat; VRef 5%nat; VRef 8%nat];      (* 1  children of 2     *)
    OTag [100;105;118] true 0%nat 1%nat;                                      (* 2  <div>, the root   *)
    OMeta 7;                                                          (* 3  a dependency      *)
    OCustom None [VRef 5%nat; VHtml [60;98;62]];                          (* 4  an object         *)
    OTag [101;109] false 6%nat 7%nat;                                         (* 5  <em>, shared      *)
    OAttrs [];                                                        (* 6                    *)
    OList [VText [115]];                                              (* 7                    *)
    OMeta 4 ].                                                        (* 8  a MetadataNode    *)

Definition ex_upd (k : nat) (a : attrs) : attrs := a ++ [([108], AStr [101])].
Definition ex_mk (k : nat) : attrs := [([108], AStr [101])].
Definition ex_resolve (d : list N) : list N := d.
Definition ex_script (d : list N) : str := flat_map dec_of_N d.
Definition ex_tags (k : nat) (p : N) : list (node N) :=
  [TagN s_script true [([115;114;99], AStr (dec_of_N p))] []].
Definition ex_ops : list op :=
  [OpTagify 2%nat; OpRender 2%nat; OpDoc 2%nat 0%nat; OpHtml 2%nat 1%nat s_nl; OpCopy 2%nat; OpDeps 2%nat; OpTagify 1%nat;
   OpDoc 1%nat 1%nat; OpRender 2%nat].
Definition ex_heap_html : heap :=
  ex_heap ++ [OAttrs []; OList [VRef 2%nat; VRef 3%nat]; OTag s_html true 9%nat 10%nat].

Example C08_wf_nonvacuous : wf ex_heap.
Proof.
  unfold wf, ex_heap. repeat constructor; cbn; try lia; eexists; reflexivity.
Qed.

Example C08_replay_nonvacuous : forall k p, forallb no_custom (ex_tags k p) = true.
Proof. intros k p. reflexivity. Qed.

(* the examples are closed computations (checked by the VM), then read off *)
Definition ex_run :=
  Eval vm_compute in run_ops ex_upd ex_mk ex_resolve ex_script ex_tags 9%nat ex_heap ex_ops.
Definition ex_t := Eval vm_compute in abs 9%nat ex_heap 2%nat.
Definition ex_tagified := Eval vm_compute in tag_tagify 9%nat ex_heap 2%nat.
Definition ex_t' :=
  Eval vm_compute in match ex_tagified with Some (h', r) => abs 9%nat h' r | None => None end.
Definition ex_twice :=
  Eval vm_compute in
    match ex_tagified with Some (h', r) => tag_tagify 9%nat h' r | None => None end.

(* a history of nine operations (all six kinds, both receivers, two document variants)
   succeeds on the example heap, whose root and child list denote trees *)
Example C08_alloc_only_nonvacuous :
  run_ops ex_upd ex_mk ex_resolve ex_script ex_tags 9%nat ex_heap ex_ops = ex_run
  /\ option_map (fun p => length (snd p)) ex_run = Some 9%nat
  /\ abs 9%nat ex_heap 2%nat = ex_t /\ ex_t <> None
  /\ abs_root 9%nat ex_heap 1%nat <> None.
Proof.
  split; [vm_compute; reflexivity|]. split; [vm_compute; reflexivity|].
  split; [vm_compute; reflexivity|]. split; vm_compute; discriminate.
Qed.

(* tagify succeeds; the copy denotes the substitution, which differs from the original
   (an object is expanded) *)
Example C08_tagify_nonvacuous :
  tag_tagify 9%nat ex_heap 2%nat = ex_tagified /\ ex_tagified <> None
  /\ option_map subst ex_t = option_map (fun t' => [t']) ex_t' /\ ex_t' <> None
  /\ ex_t <> ex_t' /\ option_map no_custom ex_t = Some false.
Proof.
  split; [vm_compute; reflexivity|]. split; [vm_compute; discriminate|].
  split; [vm_compute; reflexivity|]. split; [vm_compute; discriminate|].
  split; [vm_compute; discriminate|vm_compute; reflexivity].
Qed.

(* _hoist_head_content on an html tag holding the example tree and the dependency *)
Example C08_hoist_nonvacuous :
  run_op ex_upd ex_mk ex_resolve ex_script ex_tags 9%nat ex_heap_html (OpHoist 11%nat 0%nat) <> None.
Proof. vm_compute. discriminate. Qed.

(* the shared <em> has nothing to expand *)
Example C08_tagify_noexp_nonvacuous :
  tag_tagify 9%nat ex_heap 5%nat <> None
  /\ option_map no_custom (abs 9%nat ex_heap 5%nat) = Some true.
Proof. split; [vm_compute; discriminate|vm_compute; reflexivity]. Qed.

Example C08_tagify_idem_nonvacuous :
  ex_tagified <> None /\ ex_twice <> None
  /\ match ex_twice with Some (h2, r2) => abs 9%nat h2 r2 | None => None end = ex_t'.
Proof.
  split; [vm_compute; discriminate|]. split; [vm_compute; discriminate|vm_compute; reflexivity].
Qed.

Example C08_copy_nonvacuous : copy_tag ex_heap 2%nat <> None.
Proof. vm_compute. discriminate. Qed.

(* render() of the root: markup, and the one dependency *)
Example C08_render_is_str_nonvacuous :
  match run_op ex_upd ex_mk ex_resolve ex_script ex_tags 9%nat ex_heap (OpRender 2%nat) with
  | Some (_, RRender (Ok _) d) => d = [7]
  | _ => False
  end.
Proof. vm_compute. reflexivity. Qed.

Example C08_eq_nonvacuous :
  let x := TagN [97] true [([105], AStr [49]); ([106], AHtml [50])] [Text [120]; Html [121]] in
  let y := TagN [97] true [([106], AStr [50]); ([105], AStr [49])] [Html [120]; Text [121]] in
  dict_ok x /\ dict_ok y /\ plain x = true /\ eqb x y = true /\ eqb y x = true
  /\ eqb x (TagN [97] true [([105], AStr [49])] [Text [120]; Html [121]]) = false.
Proof.
  cbn zeta. repeat split; try reflexivity; cbn;
    repeat constructor; cbn; intuition discriminate.
Qed.

(* placeholder until the heap-layer theorems land *)
From HT Require Import Model.Str.
Example C08_example : str_eqb [97] [97] = true.
Proof. reflexivity. Qed.

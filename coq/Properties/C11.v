(* C11  HTMLDocument builds one head/body and hoists every dependency into head.

   doc_tree tags_of content kw   models HTMLDocument._gen_html_tag_tree (with
                                 _hoist_head_content), content = the items of doc._content,
                                 kw = the html attribute keyword arguments,
   doc_render tags_of content kw models HTMLDocument.render(): (dependencies, html),
   tags_of d                     is d.as_html_tags(lib_prefix=, include_version=),
   tagified l                    is the content after tagify (objects replaced by expansions),
   doc_deps content              is the resolved dependency list of the tagified content
                                 (C10: document order, one per name, earliest of maximal
                                 version, names by first occurrence).
   All statements are for every tags_of, every content and every keyword dict. *)
From HT Require Import Model.Str Model.Tree Model.Render Model.Tagify Model.Deps Model.Attrs
     Model.Document Spec.ResolveSpec Spec.StripMeta Spec.DocumentSpec
     Proofs.TagifyProofs Proofs.DocumentProofs.

(* The tree that is rendered is exactly the declarative document tree: an html element
   (attributes: doc_attrs) whose children are the user's tagified children with the FIRST
   head child -- or a new one in front, or new head + body -- extended to
   meta charset :: user's head children ++ listing ++ every dependency's markup. *)
Theorem C11_tree :
  forall tags_of content kw t,
    doc_tree tags_of content kw = Ok t <-> spec_doc tags_of content kw t.
Proof.
  intros. split; [apply doc_tree_sound|apply doc_tree_complete].
Qed.
Print Assumptions C11_tree.

(* Shape: the root is an html element; it is the user's own (same whitespace flag, user's
   attributes updated) when that is the sole content, else a new block element whose
   children are exactly [head; body] with body the user's sole body tag (tagified) or a body
   wrapping the tagified content.  Head children at top level: as many as the user's own
   html had, but at least one -- so exactly one whenever the user supplied at most one
   (when the user's html has several, only the first receives anything, the others stay). *)
Theorem C11_shape :
  forall tags_of content kw t,
    doc_tree tags_of content kw = Ok t ->
    (exists ws a kids,
        t = TagN n_html ws a kids /\ doc_attrs content kw a /\
        (forall ws0 a0 k0, content = [TagN n_html ws0 a0 k0] -> ws = ws0) /\
        (sole_tag n_html content = None ->
         ws = true /\
         kids = [TagN n_head true []
                      (meta_charset :: head_block tags_of (doc_deps content));
                 user_body content])) /\
    count_named n_head (kids_of t) = Nat.max 1 (count_named n_head (user_html_kids content)) /\
    (count_named n_head (user_html_kids content) <= 1 -> count_named n_head (kids_of t) = 1)%nat.
Proof.
  intros tags_of content kw t H. split; [exact (doc_root tags_of content kw t H)|].
  split; [exact (doc_head_count tags_of content kw t H)|exact (doc_head_one tags_of content kw t H)].
Qed.
Print Assumptions C11_shape.

(* Head: the first head child of the result starts with meta charset, keeps the user's head
   children (those of the first head of the user's own html; none otherwise) in order, then
   the listing script -- absent without dependencies, else one script of type
   application/html-dependencies whose only child is the text name[version] joined by
   semicolons -- then each resolved dependency's markup in resolved order. *)
Theorem C11_head :
  forall tags_of content kw t,
    doc_tree tags_of content kw = Ok t ->
    (exists hws ha,
        first_head (kids_of t)
        = Some (TagN n_head hws ha
                     (meta_charset :: user_head content
                                   ++ listing (doc_deps content)
                                   ++ flat_map tags_of (doc_deps content)))) /\
    listing [] = [] /\
    (forall d l,
        listing (d :: l)
        = [TagN n_script true [(k_type, AStr v_deps_type)]
                [Text (join [59] (map (fun x => dname x ++ [91] ++ ver_text (dver x) ++ [93])
                                      (d :: l)))]]).
Proof.
  intros tags_of content kw t H. split; [exact (doc_head tags_of content kw t H)|].
  exact listing_shape.
Qed.
Print Assumptions C11_head.

(* the markup of one dependency is its metas, links, scripts and head payload, in that order
   (the argument order read off as_html_tags by the translator) *)
Theorem C11_markup_order :
  forall m, as_html_tags m = mu_metas m ++ mu_links m ++ mu_scripts m ++ mu_head m.
Proof. exact as_html_tags_parts. Qed.
Print Assumptions C11_markup_order.

(* Once: for dependency markup that holds no dependency objects itself, the result is the
   user's tagified content (pre / uhk / post: see doc_parts) around ONE head block in which
   every resolved dependency (distinct names) has its markup once, in resolved order; and the
   document renders as the tree from which every dependency object has been deleted -- a
   tree without any metadata node: nothing of a dependency is rendered anywhere else. *)
Theorem C11_once :
  forall tags_of content kw t,
    (forall d, forallb meta_free (tags_of d) = true) ->
    doc_tree tags_of content kw = Ok t ->
    exists ws a pre hws ha uhk post,
      doc_parts content ws pre hws ha uhk post /\
      t = TagN n_html ws a
               (pre ++ TagN n_head hws ha
                            (meta_charset :: uhk ++ listing (doc_deps content)
                               ++ flat_map tags_of (doc_deps content))
                    :: post) /\
      NoDup (map dname (doc_deps content)) /\
      strip_meta t
      = TagN n_html ws a
             (strip_list pre ++ TagN n_head hws ha
                          (meta_charset :: strip_list uhk ++ listing (doc_deps content)
                             ++ flat_map tags_of (doc_deps content))
                  :: strip_list post) /\
      meta_free (strip_meta t) = true /\
      (forall i eol, render_tag i eol t = render_tag i eol (strip_meta t)).
Proof. exact doc_once. Qed.
Print Assumptions C11_once.

(* Rest: when the objects honour the tagify() contract (expansions are tagified) and the
   dependency markup holds no tagifiable object, render() succeeds and returns the doctype
   line followed by the ordinary rendering of the document tree at indent 0, together with
   the resolved dependencies of that tree; an error of the tree construction is the error
   of render(). *)
Theorem C11_rest :
  forall tags_of content kw,
    (forall d, forallb no_custom (tags_of d) = true) ->
    forallb exp_expanded content = true ->
    (forall t, doc_tree tags_of content kw = Ok t ->
       exists s, tag_html O nl t = Ok s /\
                 doc_render tags_of content kw
                 = Ok (resolve (collect (kids_of t)), doctype ++ s)) /\
    (forall e, doc_tree tags_of content kw = Err e -> doc_render tags_of content kw = Err e).
Proof.
  intros tags_of content kw Hc He. split.
  - intros t. exact (doc_render_spec tags_of content kw t Hc He).
  - intros e. exact (doc_render_error tags_of content kw e).
Qed.
Print Assumptions C11_rest.

(* Returned: if moreover the dependency markup holds no dependency object (what F7 is
   about), the returned list is exactly the resolved list of the content, and it is the
   list that the listing script names and whose markup follows it in the head. *)
Theorem C11_returned :
  forall tags_of content kw deps html,
    (forall d, forallb meta_free (tags_of d) = true) ->
    (forall d, forallb no_custom (tags_of d) = true) ->
    forallb exp_expanded content = true ->
    doc_render tags_of content kw = Ok (deps, html) ->
    deps = doc_deps content /\
    exists t s hws ha,
      doc_tree tags_of content kw = Ok t /\
      tag_html O nl t = Ok s /\
      html = doctype ++ s /\
      first_head (kids_of t)
      = Some (TagN n_head hws ha
                   (meta_charset :: user_head content
                                 ++ listing deps ++ flat_map tags_of deps)).
Proof. exact doc_returned. Qed.
Print Assumptions C11_returned.

(* the tree-level form needs no tagify contract: nothing inserted carries a dependency *)
Theorem C11_returned_tree :
  forall tags_of content kw t,
    (forall d, forallb meta_free (tags_of d) = true) ->
    doc_tree tags_of content kw = Ok t ->
    resolve (collect (kids_of t)) = doc_deps content.
Proof. exact doc_tree_deps. Qed.
Print Assumptions C11_returned_tree.

(* Attributes: those of the Attrs model (C15) -- the user's attributes updated with the
   keyword arguments (an existing name is replaced) or constructed from them; the fixed
   tags carry what the Attrs model makes of charset=utf-8 / type=... *)
Theorem C11_attrs :
  forall tags_of content kw name ws a kids,
    doc_tree tags_of content kw = Ok (TagN name ws a kids) ->
    doc_attrs content kw a /\
    attrs_new [] [(k_charset, VStr v_utf8)] = Ok [(k_charset, AStr v_utf8)] /\
    attrs_new [] [(k_type, VStr v_deps_type)] = Ok [(k_type, AStr v_deps_type)].
Proof.
  intros tags_of content kw name ws a kids H.
  destruct (doc_root tags_of content kw _ H) as (ws' & a' & kids' & E & Ha & _).
  injection E as -> -> -> ->. split; [exact Ha|].
  destruct fixed_tag_attrs as (H1 & H2 & _). split; assumption.
Qed.
Print Assumptions C11_attrs.

(* the only way the tree construction fails: the attribute arguments are rejected *)
Theorem C11_errors :
  forall tags_of content kw e,
    doc_tree tags_of content kw = Err e -> doc_attr_error content kw e.
Proof. exact doc_tree_error. Qed.
Print Assumptions C11_errors.

(* head_content( *args ) is an ordinary dependency: name headcontent_ ++ H(rendering of the
   arguments), version 0.0, markup = the arguments *)
Theorem C11_head_content :
  forall H args id d m,
    head_content_dep H args id = Ok (d, m) ->
    exists s, list_html O nl true true args = Ok s /\
              dname d = headcontent_prefix ++ H s /\ dver d = [0; 0] /\ did d = id /\
              as_html_tags m = args.
Proof. exact head_content_spec. Qed.
Print Assumptions C11_head_content.

(* ------------------------------------------------------------------------------------ *)
(* Non-vacuity.  The expected trees and strings below are the implementation's own output
   (lib_prefix=None) for
     a   = HTMLDependency(a, 1.0,  source href u, script a.js)        id 1
     a2  = HTMLDependency(a, 1.10, source href u, script a2.js, stylesheet s.css)   id 2
     b   = HTMLDependency(b, 2, head=<x>)                              id 3
     hc  = head_content(title(T))   (name = headcontent_ ++ sha1 hex)  id 4 *)
Definition ex_a := mkdep [97] [1;0] 1.
Definition ex_a2 := mkdep [97] [1;10] 2.
Definition ex_b := mkdep [98] [2] 3.
Definition ex_hc := mkdep [104;101;97;100;99;111;110;116;101;110;116;95;49;49;54;97;102;56;55;54;56;51;57;48;98;56;101;50;101;49;99;52;99;52;102;97;97;97;53;97;48;101;98;50;99;101;100;50;49;51;51;99] [0;0] 4.
Definition ex_a_tags : list (node dep) :=
  [TagN [115;99;114;105;112;116] true [([115;114;99], AStr [117;47;97;46;106;115])] []].
Definition ex_a2_tags : list (node dep) :=
  [TagN [108;105;110;107] true [([104;114;101;102], AStr [117;47;115;46;99;115;115]); ([114;101;108], AStr [115;116;121;108;101;115;104;101;101;116])] [];
     TagN [115;99;114;105;112;116] true [([115;114;99], AStr [117;47;97;50;46;106;115])] []].
Definition ex_b_tags : list (node dep) :=
  [Html [60;120;62]].
Definition ex_hc_tags : list (node dep) :=
  [TagN [116;105;116;108;101] true [] [Text [84]]].
Definition ex_tags (d : dep) : list (node dep) :=
  if did d =? 1 then ex_a_tags else if did d =? 2 then ex_a2_tags
  else if did d =? 3 then ex_b_tags else if did d =? 4 then ex_hc_tags else [].

Example C11_example_hypotheses :
  (forall d, forallb meta_free (ex_tags d) = true) /\
  (forall d, forallb no_custom (ex_tags d) = true).
Proof.
  split; intros d; unfold ex_tags;
    (destruct (did d =? 1); [reflexivity|]; destruct (did d =? 2); [reflexivity|];
     destruct (did d =? 3); [reflexivity|]; destruct (did d =? 4); reflexivity).
Qed.

(* the user's own html (inline flag, own lang attribute), body first, a head that already has
   children and a dependency inside it, and a second head that is left alone; lang is replaced *)
Definition ex_html_with_head : list (node dep) :=
  [TagN [104;116;109;108] false [([108;97;110;103], AStr [102;114])] [TagN [98;111;100;121] true [] [Meta ex_b; Text [120]]; TagN [104;101;97;100] true [] [TagN [116;105;116;108;101] true [] [Text [116]]; Meta ex_a]; TagN [104;101;97;100] true [] []]].
Example C11_example_html_with_head :
  doc_tree ex_tags ex_html_with_head [([108;97;110;103], VStr [101;110]); ([99;108;97;115;115;95], VStr [107])]
  = Ok (TagN [104;116;109;108] false [([108;97;110;103], AStr [101;110]); ([99;108;97;115;115], AStr [107])] [TagN [98;111;100;121] true [] [Meta ex_b; Text [120]]; TagN [104;101;97;100] true [] [TagN [109;101;116;97] true [([99;104;97;114;115;101;116], AStr [117;116;102;45;56])] []; TagN [116;105;116;108;101] true [] [Text [116]]; Meta ex_a; TagN [115;99;114;105;112;116] true [([116;121;112;101], AStr [97;112;112;108;105;99;97;116;105;111;110;47;104;116;109;108;45;100;101;112;101;110;100;101;110;99;105;101;115])] [Text [98;91;50;93;59;97;91;49;46;48;93]]; Html [60;120;62]; TagN [115;99;114;105;112;116] true [([115;114;99], AStr [117;47;97;46;106;115])] []]; TagN [104;101;97;100] true [] []])
  /\ doc_render ex_tags ex_html_with_head [([108;97;110;103], VStr [101;110]); ([99;108;97;115;115;95], VStr [107])]
  = Ok ([ex_b; ex_a],
        [60;33;68;79;67;84;89;80;69;32;104;116;109;108;62;10;60;104;116;109;108;32;108;97;110;103;61;34;101;110;34;32;99;108;97;115;115;61;34;107;34;62;32;32;60;98;111;100;121;62;120;60;47;98;111;100;121;62;10;32;32;60;104;101;97;100;62;10;32;32;32;32;60;109;101;116;97;32;99;104;97;114;115;101;116;61;34;117;116;102;45;56;34;47;62;10;32;32;32;32;60;116;105;116;108;101;62;116;60;47;116;105;116;108;101;62;10;32;32;32;32;60;115;99;114;105;112;116;32;116;121;112;101;61;34;97;112;112;108;105;99;97;116;105;111;110;47;104;116;109;108;45;100;101;112;101;110;100;101;110;99;105;101;115;34;62;98;91;50;93;59;97;91;49;46;48;93;60;47;115;99;114;105;112;116;62;10;32;32;32;32;60;120;62;10;32;32;32;32;60;115;99;114;105;112;116;32;115;114;99;61;34;117;47;97;46;106;115;34;62;60;47;115;99;114;105;112;116;62;10;32;32;60;47;104;101;97;100;62;10;32;32;60;104;101;97;100;62;60;47;104;101;97;100;62;60;47;104;116;109;108;62])
  /\ forallb exp_expanded ex_html_with_head = true /\ doc_deps ex_html_with_head = [ex_b; ex_a].
Proof. vm_compute. repeat split; reflexivity. Qed.

(* a lone body: version collision a 1.0 / a 1.10 and a head_content item *)
Definition ex_lone_body : list (node dep) :=
  [TagN [98;111;100;121] true [([105;100], AStr [98])] [TagN [100;105;118] true [] [Meta ex_a; Text [121]; Meta ex_a2]; Meta ex_hc]].
Example C11_example_lone_body :
  doc_tree ex_tags ex_lone_body [([108;97;110;103], VStr [101;110])]
  = Ok (TagN [104;116;109;108] true [([108;97;110;103], AStr [101;110])] [TagN [104;101;97;100] true [] [TagN [109;101;116;97] true [([99;104;97;114;115;101;116], AStr [117;116;102;45;56])] []; TagN [115;99;114;105;112;116] true [([116;121;112;101], AStr [97;112;112;108;105;99;97;116;105;111;110;47;104;116;109;108;45;100;101;112;101;110;100;101;110;99;105;101;115])] [Text [97;91;49;46;49;48;93;59;104;101;97;100;99;111;110;116;101;110;116;95;49;49;54;97;102;56;55;54;56;51;57;48;98;56;101;50;101;49;99;52;99;52;102;97;97;97;53;97;48;101;98;50;99;101;100;50;49;51;51;99;91;48;46;48;93]]; TagN [108;105;110;107] true [([104;114;101;102], AStr [117;47;115;46;99;115;115]); ([114;101;108], AStr [115;116;121;108;101;115;104;101;101;116])] []; TagN [115;99;114;105;112;116] true [([115;114;99], AStr [117;47;97;50;46;106;115])] []; TagN [116;105;116;108;101] true [] [Text [84]]]; TagN [98;111;100;121] true [([105;100], AStr [98])] [TagN [100;105;118] true [] [Meta ex_a; Text [121]; Meta ex_a2]; Meta ex_hc]])
  /\ doc_render ex_tags ex_lone_body [([108;97;110;103], VStr [101;110])]
  = Ok ([ex_a2; ex_hc],
        [60;33;68;79;67;84;89;80;69;32;104;116;109;108;62;10;60;104;116;109;108;32;108;97;110;103;61;34;101;110;34;62;10;32;32;60;104;101;97;100;62;10;32;32;32;32;60;109;101;116;97;32;99;104;97;114;115;101;116;61;34;117;116;102;45;56;34;47;62;10;32;32;32;32;60;115;99;114;105;112;116;32;116;121;112;101;61;34;97;112;112;108;105;99;97;116;105;111;110;47;104;116;109;108;45;100;101;112;101;110;100;101;110;99;105;101;115;34;62;97;91;49;46;49;48;93;59;104;101;97;100;99;111;110;116;101;110;116;95;49;49;54;97;102;56;55;54;56;51;57;48;98;56;101;50;101;49;99;52;99;52;102;97;97;97;53;97;48;101;98;50;99;101;100;50;49;51;51;99;91;48;46;48;93;60;47;115;99;114;105;112;116;62;10;32;32;32;32;60;108;105;110;107;32;104;114;101;102;61;34;117;47;115;46;99;115;115;34;32;114;101;108;61;34;115;116;121;108;101;115;104;101;101;116;34;47;62;10;32;32;32;32;60;115;99;114;105;112;116;32;115;114;99;61;34;117;47;97;50;46;106;115;34;62;60;47;115;99;114;105;112;116;62;10;32;32;32;32;60;116;105;116;108;101;62;84;60;47;116;105;116;108;101;62;10;32;32;60;47;104;101;97;100;62;10;32;32;60;98;111;100;121;32;105;100;61;34;98;34;62;10;32;32;32;32;60;100;105;118;62;121;60;47;100;105;118;62;10;32;32;60;47;98;111;100;121;62;10;60;47;104;116;109;108;62])
  /\ forallb exp_expanded ex_lone_body = true /\ doc_deps ex_lone_body = [ex_a2; ex_hc].
Proof. vm_compute. repeat split; reflexivity. Qed.

(* a fragment: wrapped in a new body *)
Definition ex_fragment : list (node dep) :=
  [Text [112];
     TagN [115;112;97;110] false [] [Text [113]; Meta ex_a2];
     Meta ex_b;
     Meta ex_a].
Example C11_example_fragment :
  doc_tree ex_tags ex_fragment []
  = Ok (TagN [104;116;109;108] true [] [TagN [104;101;97;100] true [] [TagN [109;101;116;97] true [([99;104;97;114;115;101;116], AStr [117;116;102;45;56])] []; TagN [115;99;114;105;112;116] true [([116;121;112;101], AStr [97;112;112;108;105;99;97;116;105;111;110;47;104;116;109;108;45;100;101;112;101;110;100;101;110;99;105;101;115])] [Text [97;91;49;46;49;48;93;59;98;91;50;93]]; TagN [108;105;110;107] true [([104;114;101;102], AStr [117;47;115;46;99;115;115]); ([114;101;108], AStr [115;116;121;108;101;115;104;101;101;116])] []; TagN [115;99;114;105;112;116] true [([115;114;99], AStr [117;47;97;50;46;106;115])] []; Html [60;120;62]]; TagN [98;111;100;121] true [] [Text [112]; TagN [115;112;97;110] false [] [Text [113]; Meta ex_a2]; Meta ex_b; Meta ex_a]])
  /\ doc_render ex_tags ex_fragment []
  = Ok ([ex_a2; ex_b],
        [60;33;68;79;67;84;89;80;69;32;104;116;109;108;62;10;60;104;116;109;108;62;10;32;32;60;104;101;97;100;62;10;32;32;32;32;60;109;101;116;97;32;99;104;97;114;115;101;116;61;34;117;116;102;45;56;34;47;62;10;32;32;32;32;60;115;99;114;105;112;116;32;116;121;112;101;61;34;97;112;112;108;105;99;97;116;105;111;110;47;104;116;109;108;45;100;101;112;101;110;100;101;110;99;105;101;115;34;62;97;91;49;46;49;48;93;59;98;91;50;93;60;47;115;99;114;105;112;116;62;10;32;32;32;32;60;108;105;110;107;32;104;114;101;102;61;34;117;47;115;46;99;115;115;34;32;114;101;108;61;34;115;116;121;108;101;115;104;101;101;116;34;47;62;10;32;32;32;32;60;115;99;114;105;112;116;32;115;114;99;61;34;117;47;97;50;46;106;115;34;62;60;47;115;99;114;105;112;116;62;10;32;32;32;32;60;120;62;10;32;32;60;47;104;101;97;100;62;10;32;32;60;98;111;100;121;62;10;32;32;32;32;112;60;115;112;97;110;62;113;60;47;115;112;97;110;62;10;32;32;60;47;98;111;100;121;62;10;60;47;104;116;109;108;62])
  /\ forallb exp_expanded ex_fragment = true /\ doc_deps ex_fragment = [ex_a2; ex_b].
Proof. vm_compute. repeat split; reflexivity. Qed.

(* the user's html without a head: a new head goes in front *)
Definition ex_html_without_head : list (node dep) :=
  [TagN [104;116;109;108] true [] [TagN [100;105;118] true [] [Text [122]]; Meta ex_b]].
Example C11_example_html_without_head :
  doc_tree ex_tags ex_html_without_head []
  = Ok (TagN [104;116;109;108] true [] [TagN [104;101;97;100] true [] [TagN [109;101;116;97] true [([99;104;97;114;115;101;116], AStr [117;116;102;45;56])] []; TagN [115;99;114;105;112;116] true [([116;121;112;101], AStr [97;112;112;108;105;99;97;116;105;111;110;47;104;116;109;108;45;100;101;112;101;110;100;101;110;99;105;101;115])] [Text [98;91;50;93]]; Html [60;120;62]]; TagN [100;105;118] true [] [Text [122]]; Meta ex_b])
  /\ doc_render ex_tags ex_html_without_head []
  = Ok ([ex_b],
        [60;33;68;79;67;84;89;80;69;32;104;116;109;108;62;10;60;104;116;109;108;62;10;32;32;60;104;101;97;100;62;10;32;32;32;32;60;109;101;116;97;32;99;104;97;114;115;101;116;61;34;117;116;102;45;56;34;47;62;10;32;32;32;32;60;115;99;114;105;112;116;32;116;121;112;101;61;34;97;112;112;108;105;99;97;116;105;111;110;47;104;116;109;108;45;100;101;112;101;110;100;101;110;99;105;101;115;34;62;98;91;50;93;60;47;115;99;114;105;112;116;62;10;32;32;32;32;60;120;62;10;32;32;60;47;104;101;97;100;62;10;32;32;60;100;105;118;62;122;60;47;100;105;118;62;10;60;47;104;116;109;108;62])
  /\ forallb exp_expanded ex_html_without_head = true /\ doc_deps ex_html_without_head = [ex_b].
Proof. vm_compute. repeat split; reflexivity. Qed.

(* a dependency that only an object's expansion brings in is found (tagify comes first) *)
Example C11_example_object :
  let c := [Custom None [Meta ex_b; Text [101]]; Text [102]] in
  forallb exp_expanded c = true /\ doc_deps c = [ex_b] /\
  res_map fst (doc_render ex_tags c []) = Ok [ex_b] /\
  collect c = [].
Proof. vm_compute. repeat split; reflexivity. Qed.

(* FINDING F7 (known finding, not hidden): without the hypothesis that dependency markup holds
   no dependency object, C11_returned is false.  c = HTMLDependency(c, 1.0, head=div(b)),
   HTMLDocument(div(c)): render() returns [b; c] although only c is listed and hoisted; b's
   own script tag appears nowhere.  The string is the implementation's own output. *)
Definition f7_b := mkdep [98] [1;0] 1.
Definition f7_c := mkdep [99] [1;0] 2.
Definition f7_tags (d : dep) : list (node dep) :=
  if did d =? 2 then [TagN [100;105;118] true [] [Meta f7_b]]
  else if did d =? 1 then [TagN [115;99;114;105;112;116] true [([115;114;99], AStr [117;47;98;46;106;115])] []] else [].
Definition f7_content : list (node dep) := [TagN [100;105;118] true [] [Meta f7_c]].
Theorem C11_returned_dep_in_dep_head_refuted :
  exists tags_of content deps html,
    (forall d, forallb no_custom (tags_of d) = true) /\
    forallb exp_expanded content = true /\
    doc_render tags_of content [] = Ok (deps, html) /\
    deps <> doc_deps content /\
    deps = [f7_b; f7_c] /\ doc_deps content = [f7_c] /\
    html = [60;33;68;79;67;84;89;80;69;32;104;116;109;108;62;10;60;104;116;109;108;62;10;32;32;60;104;101;97;100;62;10;32;32;32;32;60;109;101;116;97;32;99;104;97;114;115;101;116;61;34;117;116;102;45;56;34;47;62;10;32;32;32;32;60;115;99;114;105;112;116;32;116;121;112;101;61;34;97;112;112;108;105;99;97;116;105;111;110;47;104;116;109;108;45;100;101;112;101;110;100;101;110;99;105;101;115;34;62;99;91;49;46;48;93;60;47;115;99;114;105;112;116;62;10;32;32;32;32;60;100;105;118;62;60;47;100;105;118;62;10;32;32;60;47;104;101;97;100;62;10;32;32;60;98;111;100;121;62;10;32;32;32;32;60;100;105;118;62;60;47;100;105;118;62;10;32;32;60;47;98;111;100;121;62;10;60;47;104;116;109;108;62].
Proof.
  exists f7_tags, f7_content, [f7_b; f7_c], [60;33;68;79;67;84;89;80;69;32;104;116;109;108;62;10;60;104;116;109;108;62;10;32;32;60;104;101;97;100;62;10;32;32;32;32;60;109;101;116;97;32;99;104;97;114;115;101;116;61;34;117;116;102;45;56;34;47;62;10;32;32;32;32;60;115;99;114;105;112;116;32;116;121;112;101;61;34;97;112;112;108;105;99;97;116;105;111;110;47;104;116;109;108;45;100;101;112;101;110;100;101;110;99;105;101;115;34;62;99;91;49;46;48;93;60;47;115;99;114;105;112;116;62;10;32;32;32;32;60;100;105;118;62;60;47;100;105;118;62;10;32;32;60;47;104;101;97;100;62;10;32;32;60;98;111;100;121;62;10;32;32;32;32;60;100;105;118;62;60;47;100;105;118;62;10;32;32;60;47;98;111;100;121;62;10;60;47;104;116;109;108;62].
  split; [intros d; unfold f7_tags; destruct (did d =? 2); [reflexivity|];
          destruct (did d =? 1); reflexivity|].
  vm_compute. repeat split; try reflexivity. discriminate.
Qed.
Print Assumptions C11_returned_dep_in_dep_head_refuted.

(* C12  Dependency URLs and copied files agree.
   Statements only; proofs live in Proofs/PathsProofs.v and Proofs/FSProofs.v.  Every
   theorem is closed by exact (or a short glue proof) and followed by Print Assumptions.

   Reading guide.  Strings are lists of code points; 47 is the slash, 37 the percent sign,
   45 the hyphen.  quote / unquote / pjoin transcribe urllib.parse.quote, urllib.parse.unquote
   and posixpath.join; url_of is what HTMLDependency.as_dict writes into the document;
   target_file_str is the file name HTMLDependency.copy_to writes to when save_html calls it
   with destdir_of dir libdir.  The filesystem theorems are about the abstract filesystem of
   Model/FS.v (a finite map from paths to contents): symbolic links, permissions,
   Path.resolve(), empty directories and the exact semantics of shutil.copytree / rmtree
   are runtime behaviour, covered only by the differential run on real temporary
   directories (the check is partial there).

   The code quotes only the file path: dependency name, version and lib_prefix are written
   into the URL as they are.  The agreement theorems therefore take names, versions and
   libdir components made of URL-safe characters (see the last theorem for what happens
   otherwise). *)
From HT Require Import Model.Str Model.Tree Model.Paths Model.FS Spec.PathsSpec
     Proofs.PathsProofs Proofs.FSProofs Proofs.FSSeqProofs.

(* ---- quoting ------------------------------------------------------------------------ *)

(* Decoding an encoded code point gives it back: UTF-8 for every Unicode scalar value
   (all four encoded lengths). *)
Theorem C12_utf8_roundtrip :
  forall s : str, forallb scalar s = true -> utf8_decode (encode_utf8 s) = s.
Proof. exact utf8_decode_encode. Qed.
Print Assumptions C12_utf8_roundtrip.

(* unquote_to_bytes (quote_from_bytes bs) = bs for every byte string. *)
Theorem C12_unquote_quote_bytes :
  forall bs : bytes, Forall (fun b => b < 256) bs -> unquote_bytes (quote_bytes bs) = bs.
Proof. exact unquote_bytes_quote_bytes. Qed.
Print Assumptions C12_unquote_quote_bytes.

(* Percent-decoding a percent-encoded path gives the path back, for every string of
   Unicode scalar values (every Python str that quote accepts). *)
Theorem C12_unquote_quote :
  forall p : str, forallb scalar p = true -> unquote (quote p) = p.
Proof. exact unquote_quote. Qed.
Print Assumptions C12_unquote_quote.

(* The encoded text consists only of safe characters (letters, digits, _ . - ~ and slash)
   and of percent followed by two upper-case hex digits. *)
Theorem C12_quote_safe :
  forall p : str, forallb (fun c => c <? 1114112) p = true -> quoted_wf (quote p) = true.
Proof. exact quote_safe. Qed.
Print Assumptions C12_quote_safe.

(* The segment structure of a path survives: quote works segment by segment, keeps every
   slash, and never produces a new one. *)
Theorem C12_quote_keeps_slash :
  (forall segs : list str, quote (join [47] segs) = join [47] (map quote segs)) /\
  (forall seg : str, ~ In 47 seg -> ~ In 47 (quote seg)) /\
  (forall a b : str, quote (a ++ b) = quote a ++ quote b).
Proof.
  split; [exact quote_join|]. split; [|exact quote_app].
  intros seg H Hq. apply H. apply quote_no_new_slash. exact Hq.
Qed.
Print Assumptions C12_quote_keeps_slash.

(* ---- URL shape ------------------------------------------------------------------------ *)

(* (1) URL source: href/quoted-path with exactly one slash at the joint, whether or not
       the href ends with a slash (sans_slash h h0: h0 is h without its trailing slash),
       whatever lib_prefix and include_version are;
   (2) local source, no prefix (None or empty): name[-version]/quoted-path;
   (3) local source with prefix: prefix/name[-version]/quoted-path, again one slash. *)
Theorem C12_url_shape :
  (forall d lp iv file h h0,
     d_source d = SrcUrl h -> sans_slash h h0 -> starts_with_slash file = false ->
     url_of d lp iv file = h0 ++ 47 :: quote file) /\
  (forall d lp iv file pkg sub,
     d_source d = SrcLocal pkg sub -> truthy lp = None ->
     name_ver (d_name d) (d_version d) iv <> [] ->
     ends_with_slash (name_ver (d_name d) (d_version d) iv) = false ->
     starts_with_slash file = false ->
     url_of d lp iv file = name_ver (d_name d) (d_version d) iv ++ 47 :: quote file) /\
  (forall d lp iv file pkg sub p p0,
     d_source d = SrcLocal pkg sub -> truthy lp = Some p -> sans_slash p p0 ->
     name_ver (d_name d) (d_version d) iv <> [] ->
     starts_with_slash (name_ver (d_name d) (d_version d) iv) = false ->
     ends_with_slash (name_ver (d_name d) (d_version d) iv) = false ->
     starts_with_slash file = false ->
     url_of d lp iv file
     = p0 ++ 47 :: name_ver (d_name d) (d_version d) iv ++ 47 :: quote file).
Proof.
  split; [exact url_shape_url|]. split; [exact url_shape_local_noprefix|].
  exact url_shape_local_prefix.
Qed.
Print Assumptions C12_url_shape.

(* ---- writer and copier agree ------------------------------------------------------------ *)

(* For a local source, any directory dir of the written file, any libdir (None, empty, or
   plain components separated by slashes), both values of include_version, and any relative
   normalised file path (non-empty components without slash, not dot or dot-dot, any scalar
   values otherwise):  the URL that as_dict emits with lib_prefix = libdir, split on slash
   and percent-decoded segment by segment under dir, is exactly the path that copy_to --
   called by save_html with destdir = dir [/ libdir] -- copies that file to, namely
   dir / libdir / name[-version] / path. *)
Theorem C12_agree :
  forall name version pkg sub scripts styles af dir libdir iv fsegs,
    plain_seg name = true -> forallb seg_char version = true -> libdir_ok libdir = true ->
    fsegs <> [] -> forallb file_seg fsegs = true ->
    let d := mk_pdep name version (SrcLocal pkg sub) scripts styles af in
    let file := join [47] fsegs in
    resolve_url dir (url_of d libdir iv file)
    = path_of_str (target_file_str d (destdir_of dir libdir) iv file)
    /\ path_of_str (target_file_str d (destdir_of dir libdir) iv file)
       = path_of_str dir ++ libsegs libdir ++ [name_ver name version iv] ++ fsegs.
Proof.
  intros. split; [apply agree; assumption | apply target_path; assumption].
Qed.
Print Assumptions C12_agree.

(* ---- the copier on the abstract filesystem ------------------------------------------------ *)

(* After a successful copy_to every listed entry x (a file: r empty; or a directory: every
   r below it) is at its target with exactly the source's content; with all_files every
   file below the source directory is. *)
Theorem C12_copied_identical :
  (forall f src listed tgt o f' x r,
     disjoint src tgt = true -> prefix_free f ->
     copy_to f src false listed tgt = (Ok o, f') -> In x listed ->
     lookup f' (tgt ++ x ++ r) = lookup f (src ++ x ++ r)) /\
  (forall f src listed tgt o f' c r b,
     disjoint src tgt = true -> prefix_free f ->
     copy_to f src true listed tgt = (Ok o, f') ->
     lookup f (src ++ c :: r) = Some b -> lookup f' (tgt ++ c :: r) = Some b).
Proof. split; [exact copied_identical_listed | exact copied_identical_all]. Qed.
Print Assumptions C12_copied_identical.

(* Stale contents are gone: whatever lies below the target directory afterwards is covered by
   a copied entry and has the bytes of its source file -- so nothing that was there
   before and is not copied remains, and nothing keeps stale bytes. *)
Theorem C12_stale_gone :
  forall f src af listed tgt o f' r b,
    disjoint src tgt = true -> prefix_free f ->
    copy_to f src af listed tgt = (Ok o, f') ->
    lookup f' (tgt ++ r) = Some b ->
    covered (src_files f src af listed) r = true /\ lookup f (src ++ r) = Some b.
Proof. exact stale_gone. Qed.
Print Assumptions C12_stale_gone.

(* Everything outside the dependency's target directory is unchanged (other dependencies'
   directories, the document's siblings, the source itself). *)
Theorem C12_outside_untouched :
  forall f src af listed tgt o f' q,
    disjoint src tgt = true -> prefix_free f ->
    copy_to f src af listed tgt = (Ok o, f') ->
    under tgt q = false -> lookup f' q = lookup f q.
Proof. exact outside_untouched. Qed.
Print Assumptions C12_outside_untouched.

(* A missing listed file (all_files not set): the exception is raised and the filesystem --
   in particular the target directory with its stale content -- is exactly as before. *)
Theorem C12_missing_atomic :
  forall f src listed tgt x,
    In x listed -> exists_ f (src ++ x) = false ->
    copy_to f src false listed tgt = (Err RuntimeError, f).
Proof. exact missing_atomic. Qed.
Print Assumptions C12_missing_atomic.

(* URL-sourced and source-less dependencies copy nothing (one dependency, and any list of
   them as save_html processes it). *)
Theorem C12_nothing_for_url_or_none :
  (forall f d dest iv,
     (d_source d = SrcNone \/ exists h, d_source d = SrcUrl h) ->
     copy_to_dep f d dest iv = (Ok tt, f)) /\
  (forall deps f dir libdir iv,
     Forall (fun d => d_source d = SrcNone \/ exists h, d_source d = SrcUrl h) deps ->
     save_html_copy f dir libdir iv deps = (Ok tt, f)).
Proof.
  split; [exact copy_to_dep_nothing|].
  intros. unfold save_html_copy. apply copy_deps_nothing. assumption.
Qed.
Print Assumptions C12_nothing_for_url_or_none.

(* copy_to on strings is the abstract copy_to on the paths the strings denote: source
   directory, listed entries, and target directory destdir / name[-version]. *)
Theorem C12_copy_to_dep_is_copy_to :
  forall f name version pkg sub scripts styles af dest iv,
    plain_seg name = true -> forallb seg_char version = true ->
    fst (source_path_map (mk_pdep name version (SrcLocal pkg sub) scripts styles af) None iv)
      <> [] ->
    copy_to_dep f (mk_pdep name version (SrcLocal pkg sub) scripts styles af) dest iv =
    copy_to f
      (path_of_str (fst (source_path_map
                           (mk_pdep name version (SrcLocal pkg sub) scripts styles af) None iv)))
      af (map path_of_str (scripts ++ styles))
      (path_of_str dest ++ [name_ver name version iv]).
Proof. exact copy_to_dep_local. Qed.
Print Assumptions C12_copy_to_dep_is_copy_to.

(* End to end, the main sentence of the property on the model: after the copy that
   save_html(file, libdir, include_version) performs for a local dependency succeeds, the
   file that a script / stylesheet URL of the written document resolves to (against the
   document's directory, percent-decoded) holds the bytes of its source file. *)
Theorem C12_url_names_copied_file :
  forall f f' o name version pkg sub scripts styles af dir libdir iv fsegs b,
    let d := mk_pdep name version (SrcLocal pkg sub) scripts styles af in
    let source := fst (source_path_map d None iv) in
    plain_seg name = true -> forallb seg_char version = true -> libdir_ok libdir = true ->
    fsegs <> [] -> forallb file_seg fsegs = true ->
    In (join [47] fsegs) (scripts ++ styles) ->
    source <> [] ->
    disjoint (path_of_str source)
             (path_of_str (destdir_of dir libdir) ++ [name_ver name version iv]) = true ->
    prefix_free f ->
    copy_to_dep f d (destdir_of dir libdir) iv = (Ok o, f') ->
    lookup f (path_of_str source ++ fsegs) = Some b ->
    lookup f' (resolve_url dir (url_of d libdir iv (join [47] fsegs))) = Some b.
Proof. exact url_names_copied_file. Qed.
Print Assumptions C12_url_names_copied_file.

(* ---- several dependencies in one document ------------------------------------------------ *)

(* Vocabulary (Proofs/FSSeqProofs.v).  For a dependency d saved with destination directory
   dest = dir [/ libdir]:  srcp d iv is its source directory, nv d iv its directory name
   name[-version], tgtp d dest iv = dest / nv d iv its target directory, listedp d the listed
   script and stylesheet paths.  no_copy d: URL-sourced or source-less.  local_ok d iv: local
   source, plain name and version, non-empty source directory.  anc_free f dest: no regular
   file sits at dest or at one of its ancestors.  src_tgt_disjoint: no source directory
   contains or lies in a target directory.  dep_copied f f' d dest iv: in f' the target
   directory of d holds every listed entry (every file of the source, with all_files) with the
   bytes the source had in f.

   save_html copies the dependencies of the document one after the other.  When their
   directory names are pairwise different -- which resolution (one object per name) is
   there to guarantee -- no later copy disturbs an earlier one: at the end EVERY local
   dependency of the document is completely copied, with the bytes its source had
   before save_html started. *)
Theorem C12_every_dependency_stays_copied :
  forall deps f dir libdir iv o f',
    Forall (fun d => no_copy d \/ local_ok d iv) deps ->
    NoDup (map (fun d => nv d iv) deps) ->
    prefix_free f -> anc_free f (destdir_of dir libdir) ->
    src_tgt_disjoint deps (destdir_of dir libdir) iv ->
    save_html_copy f dir libdir iv deps = (Ok o, f') ->
    forall d, In d deps -> local_ok d iv -> dep_copied f f' d (destdir_of dir libdir) iv.
Proof.
  intros deps f dir libdir iv o f' Hall Hnd Hpf Ha Hdis Hc. unfold save_html_copy in Hc.
  eapply copy_deps_all_copied; eassumption.
Qed.
Print Assumptions C12_every_dependency_stays_copied.

(* ... and so the main sentence of the property holds for the whole document: after the
   copy loop of save_html succeeds, the file that any listed script / stylesheet URL of any
   of its local dependencies resolves to (against the directory of the document,
   percent-decoded) holds the bytes of its source file. *)
Theorem C12_every_url_names_copied_file :
  forall deps f dir libdir iv o f' name version pkg sub scripts styles af fsegs b,
    let d := mk_pdep name version (SrcLocal pkg sub) scripts styles af in
    Forall (fun d => no_copy d \/ local_ok d iv) deps ->
    NoDup (map (fun d => nv d iv) deps) ->
    prefix_free f -> anc_free f (destdir_of dir libdir) ->
    src_tgt_disjoint deps (destdir_of dir libdir) iv ->
    save_html_copy f dir libdir iv deps = (Ok o, f') ->
    In d deps -> local_ok d iv -> libdir_ok libdir = true ->
    fsegs <> [] -> forallb file_seg fsegs = true ->
    In (join [47] fsegs) (scripts ++ styles) ->
    lookup f (srcp d iv ++ fsegs) = Some b ->
    lookup f' (resolve_url dir (url_of d libdir iv (join [47] fsegs))) = Some b.
Proof. exact every_url_names_copied_file. Qed.
Print Assumptions C12_every_url_names_copied_file.

(* The hypothesis on the directory names is needed, and it is the reason why save_html must
   copy the RESOLVED dependencies only: two objects g-2 and g-1 of one name saved without the
   version in the directory name share the directory o/g; copying the superseded one after
   the other wipes the file g.js that the document's URL names (it is there when only the
   first is copied). *)
Theorem C12_same_directory_name_copied_twice_wipes : exists f',
  copy_deps two_fs [two_d1; two_d2] [47; 111] false = (Ok tt, f') /\
  nv two_d1 false = nv two_d2 false /\
  lookup f' (tgtp two_d1 [47; 111] false ++ [[103; 46; 106; 115]]) = None /\
  (exists f1, copy_deps two_fs [two_d1] [47; 111] false = (Ok tt, f1) /\
     lookup f1 (tgtp two_d1 [47; 111] false ++ [[103; 46; 106; 115]]) = Some [1]).
Proof. exact same_name_later_copy_wipes. Qed.
Print Assumptions C12_same_directory_name_copied_twice_wipes.

(* ---- non-vacuity: concrete instances ---------------------------------------------------- *)

(* a path with a space, a non-ASCII letter and a percent sign: a b/e-acute%.js *)
Example C12_example_quote :
  forallb scalar [97; 32; 98; 47; 233; 37; 46; 106; 115] = true /\
  quote [97; 32; 98; 47; 233; 37; 46; 106; 115] = [97; 37; 50; 48; 98; 47; 37; 67; 51; 37; 65; 57; 37; 50; 53; 46; 106; 115] /\
  unquote (quote [97; 32; 98; 47; 233; 37; 46; 106; 115]) = [97; 32; 98; 47; 233; 37; 46; 106; 115] /\
  quoted_wf (quote [97; 32; 98; 47; 233; 37; 46; 106; 115]) = true.
Proof. vm_compute. repeat split; reflexivity. Qed.

(* four-byte UTF-8: U+1F600 *)
Example C12_example_utf8 :
  encode_utf8 [128512] = [240; 159; 152; 128] /\ utf8_decode [240; 159; 152; 128] = [128512].
Proof. vm_compute. split; reflexivity. Qed.

(* URL shapes: URL source with and without trailing slash, local source with prefix a/b *)
Example C12_example_url_shape :
  sans_slash [104; 116; 116; 112; 115; 58; 47; 47; 120; 46; 111; 114; 103; 47; 108; 105; 98; 47] [104; 116; 116; 112; 115; 58; 47; 47; 120; 46; 111; 114; 103; 47; 108; 105; 98] /\
  url_of (mk_pdep [100; 101; 112] [49; 46; 48] (SrcUrl [104; 116; 116; 112; 115; 58; 47; 47; 120; 46; 111; 114; 103; 47; 108; 105; 98; 47]) [] [] false) (Some [108; 105; 98]) true [97; 32; 98; 46; 106; 115]
    = [104; 116; 116; 112; 115; 58; 47; 47; 120; 46; 111; 114; 103; 47; 108; 105; 98; 47; 97; 37; 50; 48; 98; 46; 106; 115] /\
  url_of (mk_pdep [100; 101; 112] [49; 46; 48] (SrcUrl [104; 116; 116; 112; 115; 58; 47; 47; 120; 46; 111; 114; 103; 47; 108; 105; 98]) [] [] false) None false [97; 32; 98; 46; 106; 115]
    = [104; 116; 116; 112; 115; 58; 47; 47; 120; 46; 111; 114; 103; 47; 108; 105; 98; 47; 97; 37; 50; 48; 98; 46; 106; 115] /\
  url_of (mk_pdep [100; 101; 112] [49; 46; 48] (SrcLocal None [47; 115]) [[97; 32; 98; 46; 106; 115]] [[115; 117; 98; 47; 233; 37; 46; 99; 115; 115]] false) (Some [97; 47; 98]) true [115; 117; 98; 47; 233; 37; 46; 99; 115; 115]
    = [97; 47; 98; 47; 100; 101; 112; 45; 49; 46; 48; 47; 115; 117; 98; 47; 37; 67; 51; 37; 65; 57; 37; 50; 53; 46; 99; 115; 115].
Proof.
  split; [right; reflexivity|]. vm_compute. repeat split; reflexivity.
Qed.

(* the hypotheses of C12_agree on a concrete instance, and both sides *)
Example C12_example_agree :
  plain_seg [100; 101; 112] = true /\ forallb seg_char [49; 46; 48] = true /\
  libdir_ok (Some [97; 47; 98]) = true /\ libdir_ok None = true /\ libdir_ok (Some []) = true /\
  forallb file_seg [[115; 117; 98]; [233; 37; 46; 99; 115; 115]] = true /\
  join [47] [[115; 117; 98]; [233; 37; 46; 99; 115; 115]] = [115; 117; 98; 47; 233; 37; 46; 99; 115; 115] /\
  resolve_url [47; 111; 117; 116] (url_of (mk_pdep [100; 101; 112] [49; 46; 48] (SrcLocal None [47; 115]) [[97; 32; 98; 46; 106; 115]] [[115; 117; 98; 47; 233; 37; 46; 99; 115; 115]] false) (Some [97; 47; 98]) true [115; 117; 98; 47; 233; 37; 46; 99; 115; 115])
    = [[111; 117; 116]; [97]; [98]; [100; 101; 112; 45; 49; 46; 48]; [115; 117; 98]; [233; 37; 46; 99; 115; 115]] /\
  path_of_str (target_file_str (mk_pdep [100; 101; 112] [49; 46; 48] (SrcLocal None [47; 115]) [[97; 32; 98; 46; 106; 115]] [[115; 117; 98; 47; 233; 37; 46; 99; 115; 115]] false) (destdir_of [47; 111; 117; 116] (Some [97; 47; 98])) true [115; 117; 98; 47; 233; 37; 46; 99; 115; 115])
    = [[111; 117; 116]; [97]; [98]; [100; 101; 112; 45; 49; 46; 48]; [115; 117; 98]; [233; 37; 46; 99; 115; 115]].
Proof. vm_compute. repeat split; reflexivity. Qed.

(* a filesystem with a source directory /s, a stale file in the target directory
   /out/lib/dep-1.0 and a bystander /out/keep.txt *)
Definition C12_fs0 : fs :=
  [([[115]; [97; 32; 98; 46; 106; 115]], [1; 2; 3]);
   ([[115]; [115; 117; 98]; [233; 37; 46; 99; 115; 115]], [4; 5]);
   ([[115]; [115; 117; 98]; [111; 116; 104; 101; 114; 46; 116; 120; 116]], [6]);
   ([[111; 117; 116]; [108; 105; 98]; [100; 101; 112; 45; 49; 46; 48]; [111; 108; 100; 46; 116; 120; 116]], [9; 9]);
   ([[111; 117; 116]; [107; 101; 101; 112; 46; 116; 120; 116]], [7])].

Example C12_example_copy :
  prefix_free_b C12_fs0 = true /\
  disjoint [[115]] [[111; 117; 116]; [108; 105; 98]; [100; 101; 112; 45; 49; 46; 48]] = true /\
  copy_to_dep C12_fs0 (mk_pdep [100; 101; 112] [49; 46; 48] (SrcLocal None [47; 115]) [[97; 32; 98; 46; 106; 115]] [[115; 117; 98; 47; 233; 37; 46; 99; 115; 115]] false) [47; 111; 117; 116; 47; 108; 105; 98] true =
  (Ok tt,
   [([[111; 117; 116]; [108; 105; 98]; [100; 101; 112; 45; 49; 46; 48]; [115; 117; 98]; [233; 37; 46; 99; 115; 115]], [4; 5]);
   ([[111; 117; 116]; [108; 105; 98]; [100; 101; 112; 45; 49; 46; 48]; [97; 32; 98; 46; 106; 115]], [1; 2; 3]);
   ([[115]; [97; 32; 98; 46; 106; 115]], [1; 2; 3]);
   ([[115]; [115; 117; 98]; [233; 37; 46; 99; 115; 115]], [4; 5]);
   ([[115]; [115; 117; 98]; [111; 116; 104; 101; 114; 46; 116; 120; 116]], [6]);
   ([[111; 117; 116]; [107; 101; 101; 112; 46; 116; 120; 116]], [7])]).
Proof. vm_compute. repeat split; reflexivity. Qed.

Example C12_example_copy_all_files :
  exists f', copy_to_dep C12_fs0 (mk_pdep [100; 101; 112] [49; 46; 48] (SrcLocal None [47; 115]) [[97; 32; 98; 46; 106; 115]] [[115; 117; 98; 47; 233; 37; 46; 99; 115; 115]] true) [47; 111; 117; 116; 47; 108; 105; 98] true = (Ok tt, f') /\
  lookup f' [[111; 117; 116]; [108; 105; 98]; [100; 101; 112; 45; 49; 46; 48]; [115; 117; 98]; [111; 116; 104; 101; 114; 46; 116; 120; 116]] = Some [6] /\
  lookup f' [[111; 117; 116]; [108; 105; 98]; [100; 101; 112; 45; 49; 46; 48]; [111; 108; 100; 46; 116; 120; 116]] = None /\
  lookup f' [[111; 117; 116]; [107; 101; 101; 112; 46; 116; 120; 116]] = Some [7].
Proof. eexists. vm_compute. repeat split; reflexivity. Qed.

Example C12_example_missing :
  exists_ C12_fs0 ([[115]] ++ [[110; 111; 112; 101; 46; 106; 115]]) = false /\
  copy_to_dep C12_fs0 (mk_pdep [100; 101; 112] [49; 46; 48] (SrcLocal None [47; 115]) [[97; 32; 98; 46; 106; 115]; [110; 111; 112; 101; 46; 106; 115]] [[115; 117; 98; 47; 233; 37; 46; 99; 115; 115]] false) [47; 111; 117; 116; 47; 108; 105; 98] true = (Err RuntimeError, C12_fs0).
Proof. vm_compute. split; reflexivity. Qed.

(* two local dependencies (one listing a file, one with all_files) and a URL-sourced one,
   saved into /out/lib without version numbers: the hypotheses of
   C12_every_dependency_stays_copied in their decidable forms, and the outcome *)
Definition C12_fs2 : fs :=
  [([[115]; [97; 32; 98; 46; 106; 115]], [1; 2; 3]);
   ([[116]; [99]; [120; 46; 99; 115; 115]], [4]);
   ([[116]; [121; 46; 106; 115]], [5]);
   ([[111; 117; 116]; [108; 105; 98]; [100; 101; 112]; [111; 108; 100; 46; 116; 120; 116]], [9]);
   ([[111; 117; 116]; [107; 101; 101; 112; 46; 116; 120; 116]], [7])].
Definition C12_d1 : pdep :=
  mk_pdep [100; 101; 112] [49; 46; 48] (SrcLocal None [47; 115]) [[97; 32; 98; 46; 106; 115]] [] false.
Definition C12_d2 : pdep :=
  mk_pdep [119] [50] (SrcLocal None [47; 116]) [] [[99; 47; 120; 46; 99; 115; 115]] true.
Definition C12_d3 : pdep :=
  mk_pdep [117] [51] (SrcUrl [104; 116; 116; 112; 115; 58; 47; 47; 120]) [[122; 46; 106; 115]] [] false.

Example C12_example_three_deps :
  prefix_free_b C12_fs2 = true /\
  anc_free_b C12_fs2 (destdir_of [47; 111; 117; 116] (Some [108; 105; 98])) = true /\
  forallb (fun d1 => forallb (fun d2 =>
     disjoint (srcp d1 false) (tgtp d2 (destdir_of [47; 111; 117; 116] (Some [108; 105; 98])) false))
     [C12_d1; C12_d2]) [C12_d1; C12_d2] = true /\
  map (fun d => nv d false) [C12_d1; C12_d3; C12_d2] = [[100; 101; 112]; [117]; [119]] /\
  exists f', save_html_copy C12_fs2 [47; 111; 117; 116] (Some [108; 105; 98]) false [C12_d1; C12_d3; C12_d2] = (Ok tt, f') /\
    lookup f' [[111; 117; 116]; [108; 105; 98]; [100; 101; 112]; [97; 32; 98; 46; 106; 115]] = Some [1; 2; 3] /\
    lookup f' [[111; 117; 116]; [108; 105; 98]; [100; 101; 112]; [111; 108; 100; 46; 116; 120; 116]] = None /\
    lookup f' [[111; 117; 116]; [108; 105; 98]; [119]; [99]; [120; 46; 99; 115; 115]] = Some [4] /\
    lookup f' [[111; 117; 116]; [108; 105; 98]; [119]; [121; 46; 106; 115]] = Some [5] /\
    lookup f' [[111; 117; 116]; [107; 101; 101; 112; 46; 116; 120; 116]] = Some [7].
Proof.
  split; [vm_compute; reflexivity|]. split; [vm_compute; reflexivity|].
  split; [vm_compute; reflexivity|]. split; [vm_compute; reflexivity|].
  eexists. vm_compute. repeat split; reflexivity.
Qed.

(* What the code does NOT do: it does not quote the dependency name.  For a name that
   contains a percent escape (a%41) the URL resolves to aA-1.0/x.js while the file is copied
   to a%41-1.0/x.js: outside the domain of C12_agree the two sides differ. *)
Theorem C12_unquoted_name_disagrees :
  exists name, ~ (plain_seg name = true) /\
    resolve_url [47; 111; 117; 116] (url_of (mk_pdep name [49; 46; 48] (SrcLocal None [47; 115]) [[120; 46; 106; 115]] [] false)
                               None true [120; 46; 106; 115])
    <> path_of_str (target_file_str (mk_pdep name [49; 46; 48] (SrcLocal None [47; 115]) [[120; 46; 106; 115]] [] false)
                                    (destdir_of [47; 111; 117; 116] None) true [120; 46; 106; 115]).
Proof. exists [97; 37; 52; 49]. split; vm_compute; discriminate. Qed.
Print Assumptions C12_unquoted_name_disagrees.


(* C13  Serialised dependencies round-trip through HTML text.
   Statements only; proofs live in Proofs/SerializeProofs.v.  Strings are lists of code
   points; the literals neutralise_from / neutralise_to / extract_opener / extract_closer
   are regenerated from /repo (Gen/Tables.v) on every run, so editing the code changes the
   obligations below. *)
From HT Require Import Model.Str Model.Serialize Spec.SerializeSpec Gen.Tables
     Proofs.SerializeProofs Proofs.JsonCtxProofs.

(* The translator found the two .replace literals and the extraction regex in the shape the
   model assumes (otherwise the literals below are empty and nothing here means anything). *)
Theorem C13_literals_recognised :
  neutralise_recognised && extract_regex_recognised = true.
Proof. vm_compute. reflexivity. Qed.
Print Assumptions C13_literals_recognised.

(* ------------------------------------------------------------------------------------ *)
(* T1  no end-tag-like  < / s c r i p t  in any letter case inside the serialised payload *)
(* ------------------------------------------------------------------------------------ *)

(* For replace-literals of the repaired form ( < /  becomes  < backslash / ): whatever the
   text, nothing end-tag-like is left, in any letter case.  Quantified over the literals, so
   it does not depend on the state of /repo. *)
Theorem C13_no_close_tag_repaired :
  forall f t : str, neutralise_ok f t = true ->
  forall s : str, has_close_tag (neutralise_with f t s) = false.
Proof. exact no_close_tag_of_ok. Qed.
Print Assumptions C13_no_close_tag_repaired.

(* ... in fact no  < /  at all is left. *)
Theorem C13_no_lt_slash_repaired :
  forall f t : str, neutralise_ok f t = true ->
  forall s : str, contains [60; 47] (neutralise_with f t s) = false.
Proof. exact no_lt_slash_of_ok. Qed.
Print Assumptions C13_no_lt_slash_repaired.

(* The statement the property demands of the code in /repo (neutralise uses the regenerated
   literals), and its negation: *)
Definition C13_T1_holds : Prop := forall s : str, has_close_tag (neutralise s) = false.
Definition C13_T1_refuted : Prop := exists s : str, has_close_tag (neutralise s) = true.

(* ======================================================================================
   T1 at full strength, for the code as it is in /repo:  C13_T1_holds.
   History: before fix dfbc841 the literals neutralised the lower-case close tag only, this
   line read  C13_T1_refuted  and was proved with the upper-case close tag as witness
   (finding F3, fixed).  The proof script still picks whichever of the two lemmas applies, so
   if the literals ever regress the line below stops compiling (it cannot be proved) and the
   check fails at step A; harness/props/C13.py reads this line and reports the obligation
   -theorem C13_no_close_tag (T1 at full strength)- as discharged only while it says
   C13_T1_holds.
   ====================================================================================== *)
Theorem C13_no_close_tag_status : C13_T1_holds.
Proof.
  first [ exact (no_close_tag_of_ok neutralise_from neutralise_to eq_refl)
        | apply (close_tag_witness neutralise_from neutralise_to); vm_compute; reflexivity ].
Qed.
Print Assumptions C13_no_close_tag_status.

(* ------------------------------------------------------------------------------------ *)
(* T2  a string field survives: json.loads reads back, from the neutralised output of      *)
(*     json.dumps, exactly the string that was written                                     *)
(* ------------------------------------------------------------------------------------ *)
(* Over every string of Unicode scalar values (a Python str without lone surrogates; with a
   lone high surrogate followed by a lone low one json itself does not round-trip).  Holds
   for the original and for the repaired literals: the side condition neutralise_shape is
   evaluated on the regenerated literals. *)
Theorem C13_json_string_roundtrip :
  forall s : str, Forall scalar s ->
  json_str_dec (neutralise (json_str_enc s)) = Some s.
Proof. apply json_roundtrip_with. vm_compute. reflexivity. Qed.
Print Assumptions C13_json_string_roundtrip.

(* The same in context (compositional form): json.dumps(s) followed by ANY text r, the whole
   text neutralised.  The scanner at the opening quote (json.decoder.scanstring, modelled by
   read_string and run against it on every check) returns exactly s and a remaining text r1
   that is r with some end-tag openers escaped (ins r r1), to which the same theorem applies
   again: every key and every string value of the serialised dictionary is read back as written,
   wherever it stands in the payload. *)
Theorem C13_json_string_in_context :
  forall s r : str, Forall scalar s ->
  exists r1, ins r r1 /\ read_string (neutralise (json_str_enc s ++ r)) = Some (s, r1).
Proof. apply json_string_in_context_with. vm_compute. reflexivity. Qed.
Print Assumptions C13_json_string_in_context.

(* a key, a separator without a less-than sign (the colon-space of json.dumps), a string value,
   then any text: key and value are both read back as written *)
Theorem C13_json_key_value_in_context :
  forall k sep v r : str, Forall scalar k -> Forall scalar v -> ~ In 60 sep ->
  exists r1, ins r r1 /\
    match read_string (neutralise (json_str_enc k ++ sep ++ json_str_enc v ++ r)) with
    | Some (k1, rest) =>
      k1 = k /\ exists rest1, rest = sep ++ rest1 /\ read_string rest1 = Some (v, r1)
    | None => False
    end.
Proof. apply json_key_value_in_context_with. vm_compute. reflexivity. Qed.
Print Assumptions C13_json_key_value_in_context.

(* the hypotheses are satisfiable and the conclusion is not trivial: a key whose text ends in a
   less-than sign, a value that contains an end tag, more JSON after it *)
Example C13_in_context_example :
  read_string (neutralise (json_str_enc [60] ++ [58; 32] ++ json_str_enc [60; 47; 115] ++ [125]))
  = Some ([60], [58; 32] ++ neutralise (json_str_enc [60; 47; 115]) ++ [125])
  /\ read_string (neutralise (json_str_enc [60; 47; 115]) ++ [125]) = Some ([60; 47; 115], [125]).
Proof. vm_compute. split; reflexivity. Qed.

(* One level up: a flat object whose values are strings -- an item of script / stylesheet /
   meta, the source dictionary -- as json.dumps writes it (enc_flat_obj, run against json.dumps
   on every check), followed by ANY text, the whole text neutralised: the object scanner
   (dec_flat_obj, run against json.JSONDecoder().raw_decode) returns exactly the members that
   were written, in order, for any number of members and any keys and values, and a remaining
   text that is again of the form the in-context theorems apply to. *)
Theorem C13_json_flat_object_in_context :
  forall (l : list (str * str)) (r : str), Forall scalar_pair l ->
  exists r1, ins r r1 /\ dec_flat_obj (neutralise (enc_flat_obj l ++ r)) = Some (l, r1).
Proof. apply flat_obj_in_context_with. vm_compute. reflexivity. Qed.
Print Assumptions C13_json_flat_object_in_context.

(* non-trivial instance: two members, an end tag in a key and in a value, more JSON after it *)
Example C13_flat_object_example :
  dec_flat_obj (neutralise (enc_flat_obj [([60; 47; 97], [120]); ([115], [60; 47; 115; 62])] ++ [44; 32]))
  = Some ([([60; 47; 97], [120]); ([115], [60; 47; 115; 62])], [44; 32])
  /\ Forall scalar_pair [([60; 47; 97], [120]); ([115], [60; 47; 115; 62])].
Proof.
  split; [vm_compute; reflexivity|].
  repeat constructor; cbn; apply Forall_scalarb; vm_compute; reflexivity.
Qed.

(* And one more level: a LIST of such objects -- the script / stylesheet / meta fields as
   HTMLDependency.as_dict hands them to json.dumps -- (enc_obj_list, run against json.dumps of
   lists of dicts; dec_obj_list against raw_decode), for any number of objects of any number of
   members. *)
Theorem C13_json_object_list_in_context :
  forall (l : list (list (str * str))) (r : str), Forall (Forall scalar_pair) l ->
  exists r1, ins r r1 /\ dec_obj_list (neutralise (enc_obj_list l ++ r)) = Some (l, r1).
Proof. apply obj_list_in_context_with. vm_compute. reflexivity. Qed.
Print Assumptions C13_json_object_list_in_context.

Example C13_object_list_example :
  dec_obj_list (neutralise (enc_obj_list [[([115], [60; 47; 115; 62])]; []; [([97], [98]); ([60; 47], [])]] ++ [125]))
  = Some ([[([115], [60; 47; 115; 62])]; []; [([97], [98]); ([60; 47], [])]], [125]).
Proof. vm_compute. reflexivity. Qed.

(* ------------------------------------------------------------------------------------ *)
(* T3  extraction                                                                          *)
(* ------------------------------------------------------------------------------------ *)
(* html = t0 ++ ser p1 ++ t1 ++ ... ++ ser pn ++ tn  with  ser p = OPENER ++ p ++ CLOSER,
   no OPENER inside any surrounding text ti and no CLOSER inside any payload pi (occurrences
   straddling a boundary are impossible and need no hypothesis): the remaining text is
   t0 ++ ... ++ tn and the kept payloads are the first occurrences of p1 ... pn in order. *)
Theorem C13_extract :
  forall (t0 : str) (segs : list (str * str)),
  contains extract_opener t0 = false ->
  Forall (fun pt => contains extract_closer (fst pt) = false /\
                    contains extract_opener (snd pt) = false) segs ->
  extract (assemble extract_opener extract_closer t0 segs) =
  (t0 ++ concat (map snd segs), stable_unique (map fst segs)).
Proof.
  intros t0 segs. apply (extract_assemble extract_opener extract_closer); vm_compute; reflexivity.
Qed.
Print Assumptions C13_extract.

(* A payload with nothing end-tag-like in it (what T1 guarantees) meets T3's hypothesis. *)
Theorem C13_close_tag_free_payload :
  forall p : str, has_close_tag p = false -> contains extract_closer p = false.
Proof. intros p. apply closer_absent. vm_compute. reflexivity. Qed.
Print Assumptions C13_close_tag_free_payload.

(* The seen-set loop of the code is  first occurrences, in order of appearance. *)
Theorem C13_dedup_first_occurrences :
  forall l : list str, dedup l = stable_unique l.
Proof. exact dedup_spec. Qed.
Print Assumptions C13_dedup_first_occurrences.

(* ------------------------------------------------------------------------------------ *)
(* T4  render: only the first occurrence of the placeholder is replaced                    *)
(* ------------------------------------------------------------------------------------ *)
(* If the occurrence of pat after a is the first one (every decomposition of the text
   around pat has a prefix at least as long as a), exactly it is replaced by the markup and
   everything before and after is untouched -- later occurrences inside b included. *)
Theorem C13_replace_first :
  forall pat markup a b : str,
  (forall a' b', a ++ pat ++ b = a' ++ pat ++ b' -> (length a <= length a')%nat) ->
  textdoc_render pat markup (a ++ pat ++ b) = a ++ markup ++ b.
Proof. exact replace_first_at. Qed.
Print Assumptions C13_replace_first.

(* No occurrence: the text is returned unchanged. *)
Theorem C13_replace_first_absent :
  forall pat markup s : str, ~ occurs pat s -> textdoc_render pat markup s = s.
Proof. exact replace_first_absent. Qed.
Print Assumptions C13_replace_first_absent.

(* ------------------------------------------------------------------------------------ *)
(* non-vacuity                                                                             *)
(* ------------------------------------------------------------------------------------ *)
(* T1 repaired: the side condition is met by the repaired literals, and the upper-case,
   spaced and lower-case close tags are all neutralised *)
Example C13_example_repaired :
  neutralise_ok [60; 47] [60; 92; 47] = true /\
  neutralise_with [60; 47] [60; 92; 47]
    ([60;47;83;67;82;73;80;84;62] ++ [60;47;115;99;114;105;112;116;32;62]) =
    [60;92;47;83;67;82;73;80;84;62] ++ [60;92;47;115;99;114;105;112;116;32;62].
Proof. vm_compute. split; reflexivity. Qed.

(* T2: a string with a quote, a backslash, a newline, e-acute, an astral code point and
   the lower-case close tag; it consists of scalar values, the neutralisation does fire
   (the text changes), and the literal still reads back *)
Definition C13_ex_str : str :=
  [34; 92; 10; 233; 128512; 60; 47; 115; 99; 114; 105; 112; 116; 62; 47; 127].
Example C13_example_roundtrip :
  Forall scalar C13_ex_str /\
  str_eqb (neutralise (json_str_enc C13_ex_str)) (json_str_enc C13_ex_str) = false /\
  json_str_dec (neutralise (json_str_enc C13_ex_str)) = Some C13_ex_str.
Proof.
  split; [apply Forall_scalarb; vm_compute; reflexivity|]. vm_compute. split; reflexivity.
Qed.

(* T3: text, payload A, text holding a stray closer, payload B, payload A again, text holding
   a truncated opener *)
Definition C13_ex_segs : list (str * str) :=
  [([123; 49; 125], [120; 60; 47; 115; 99; 114; 105; 112; 116; 62]);
   ([123; 50; 125], []);
   ([123; 49; 125], [60; 115; 99; 114; 105; 112; 116; 32])].
Example C13_example_extract :
  contains extract_opener [97; 60] = false /\
  forallb (fun pt => negb (contains extract_closer (fst pt)) &&
                     negb (contains extract_opener (snd pt))) C13_ex_segs = true /\
  extract (assemble extract_opener extract_closer [97; 60] C13_ex_segs) =
  ([97; 60; 120; 60; 47; 115; 99; 114; 105; 112; 116; 62; 60; 115; 99; 114; 105; 112; 116; 32],
   [[123; 49; 125]; [123; 50; 125]]).
Proof. vm_compute. repeat split; reflexivity. Qed.

(* T4: the placeholder occurs twice; only the first is replaced *)
Example C13_example_replace_first :
  textdoc_render [35; 35] [77] ([97; 35] ++ [35; 35] ++ [98; 35; 35; 99]) =
  [97; 77; 35; 98; 35; 35; 99] /\
  textdoc_render [35; 35] [77] [97; 35; 98] = [97; 35; 98].
Proof. vm_compute. split; reflexivity. Qed.

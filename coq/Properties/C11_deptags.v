(* C11, dependency markup: what HTMLDependency.as_dict / as_html_tags contribute, at the
   level of tags and attributes.  Closes the gap between C11 (markup of a dependency = the
   parameter tags_of) and C12 (URLs only): the statement "emits each dependency's meta, link,
   script and head markup once" is discharged for the markup itself.

   ditem                      an item dict of meta / stylesheet / script: association list in
                              insertion order, values of the C15 argument type (attrarg)
   ddep                       the fields of a dependency object; dep_new models __init__
   dep_as_dict d lp iv        d.as_dict(lib_prefix=lp, include_version=iv)
   dep_html_tags d lp iv      d.as_html_tags(lib_prefix=lp, include_version=iv): res (list node)
   spec_sheet u s             stylesheet item s with URL u under href and stylesheet under rel,
                              every key at its position (rel appended only if s had none)
   spec_script u s            script item s with URL u under src
   tag_for name it t          t is Tag(name, **it): childless, attributes = the Attrs model (C15)
                              on the keywords, whitespace flag true unless it carries _add_ws
   spec_html_tags             the whole markup said with those specification functions
   url_of / as_dict_urls      C12's URL of a file of the dependency (Model/Paths.v)
   dep_tags_of env lp iv      the parameter tags_of of the document model, env giving every
                              dependency object its fields *)
From HT Require Import Model.Str Model.Tree Model.Escape Model.Render Model.Tagify Model.Deps Model.Attrs
     Model.Paths Model.Document Model.DepTags Gen.Tables
     Spec.AttrsSpec Spec.StripMeta Spec.ResolveSpec Spec.DocumentSpec
     Proofs.TagifyProofs Proofs.DocumentProofs Proofs.DepTagsProofs.

(* ---- the constructor ------------------------------------------------------------------ *)
(* HTMLDependency(...): a single dict becomes a one-element list, None the empty list; the
   items are stored as given except that a stylesheet item without rel gets rel = stylesheet
   APPENDED (so every stored stylesheet item has href and rel, every script src, every meta
   name and content); the only error is KeyError, raised exactly when a required key is
   missing. *)
Theorem C11_dep_init :
  forall name ver src af script sheet meta head,
    (forall d, dep_new name ver src af script sheet meta head = Ok d ->
       dd_name d = name /\ dd_version d = ver /\ dd_source d = src /\ dd_all_files d = af /\
       dd_scripts d = norm_items script /\
       dd_sheets d = map item_add_rel (norm_items sheet) /\
       dd_meta d = norm_items meta /\
       dd_head d = head_of head /\
       Forall (fun s => ihas k_src s = true) (dd_scripts d) /\
       Forall (fun s => ihas k_href s = true /\ ihas k_rel s = true) (dd_sheets d) /\
       Forall (fun s => ihas k_name s = true /\ ihas k_content s = true) (dd_meta d)) /\
    (forall e, dep_new name ver src af script sheet meta head = Err e -> e = KeyError) /\
    ((exists d, dep_new name ver src af script sheet meta head = Ok d) <->
     Forall (fun s => ihas k_src s = true) (norm_items script) /\
     Forall (fun s => ihas k_href s = true) (norm_items sheet) /\
     Forall (fun s => ihas k_name s = true /\ ihas k_content s = true) (norm_items meta)).
Proof. exact dep_new_spec. Qed.
Print Assumptions C11_dep_init.

(* the rel default: the item itself when it has rel, else the item with rel = stylesheet at
   the end; distinct keys stay distinct *)
Theorem C11_dep_init_rel :
  forall s,
    item_add_rel s = (if ihas k_rel s then s else s ++ [(k_rel, VStr v_stylesheet)]) /\
    (dict_ok s -> dict_ok (item_add_rel s)).
Proof. intros s. split; [apply item_add_rel_spec|apply item_add_rel_NoDup]. Qed.
Print Assumptions C11_dep_init_rel.

(* ---- as_dict ---------------------------------------------------------------------------- *)
(* When as_dict returns (item dicts with distinct keys, as every Python dict has): stylesheet
   item for stylesheet item, script item for script item, in order; the href (src) value was a
   str h of encodable code points and the output item is spec_sheet (spec_script) of C12's
   URL of h; meta, name, version unchanged; head = the rendering of the payload. *)
Theorem C11_dep_as_dict_items :
  forall d lp iv r,
    Forall dict_ok (dd_sheets d) -> Forall dict_ok (dd_scripts d) ->
    dep_as_dict d lp iv = Ok r ->
    Forall2 (fun s s' => exists h, iget k_href s = Some (VStr h) /\ forallb scalar h = true /\
                                   s' = spec_sheet (url_of (to_pdep d) lp iv h) s)
            (dd_sheets d) (ad_sheets r) /\
    Forall2 (fun s s' => exists h, iget k_src s = Some (VStr h) /\ forallb scalar h = true /\
                                   s' = spec_script (url_of (to_pdep d) lp iv h) s)
            (dd_scripts d) (ad_scripts r) /\
    ad_meta r = dd_meta d /\ ad_name r = dd_name d /\ ad_version r = dd_version d /\
    head_html (dd_head d) = Ok (ad_head r).
Proof. exact as_dict_items. Qed.
Print Assumptions C11_dep_as_dict_items.

(* what spec_sheet / spec_script are, key by key: the same keys at the same positions (rel
   appended only when the item had none -- never after __init__), the URL under href (src),
   rel FORCED to stylesheet whatever the user gave, every other key untouched *)
Theorem C11_dep_as_dict_keys :
  forall u s,
    map fst (spec_sheet u s) = map fst s ++ (if ihas k_rel s then [] else [k_rel]) /\
    map fst (spec_script u s) = map fst s /\
    (ihas k_href s = true -> iget k_href (spec_sheet u s) = Some (VStr u)) /\
    iget k_rel (spec_sheet u s) = Some (VStr v_stylesheet) /\
    (forall k, k <> k_href -> k <> k_rel -> iget k (spec_sheet u s) = iget k s) /\
    (ihas k_src s = true -> iget k_src (spec_script u s) = Some (VStr u)) /\
    (forall k, k <> k_src -> iget k (spec_script u s) = iget k s) /\
    (dict_ok s -> dict_ok (spec_sheet u s) /\ dict_ok (spec_script u s)).
Proof. exact spec_item_facts. Qed.
Print Assumptions C11_dep_as_dict_keys.

(* the URLs of as_dict are exactly C12's (as_dict_urls of the same dependency) *)
Theorem C11_dep_urls_are_C12 :
  forall d lp iv r,
    Forall dict_ok (dd_sheets d) -> Forall dict_ok (dd_scripts d) ->
    dep_as_dict d lp iv = Ok r ->
    as_dict_urls (to_pdep d) lp iv
    = Ok (str_vals k_href (ad_sheets r), str_vals k_src (ad_scripts r)).
Proof. exact as_dict_urls_agree. Qed.
Print Assumptions C11_dep_urls_are_C12.

(* ---- as_html_tags: shape ------------------------------------------------------------------ *)
(* exactly one tag per meta item, per stylesheet item, per script item, in item order, named
   meta / link / script, each Tag(name, **item of as_dict) -- hence childless --, followed by
   the head payload (the order is the regenerated argument order of the TagList call) *)
Theorem C11_dep_tags_shape :
  forall d lp iv tags,
    dep_html_tags d lp iv = Ok tags ->
    exists r metas links scripts,
      dep_as_dict d lp iv = Ok r /\
      tags = metas ++ links ++ scripts ++ head_items d /\
      Forall2 (tag_for n_meta) (dd_meta d) metas /\
      Forall2 (tag_for n_link) (ad_sheets r) links /\
      Forall2 (tag_for n_script) (ad_scripts r) scripts /\
      length metas = length (dd_meta d) /\
      length links = length (dd_sheets d) /\
      length scripts = length (dd_scripts d).
Proof. exact dep_html_tags_shape. Qed.
Print Assumptions C11_dep_tags_shape.

(* all of them whitespace-enabled (block) tags without children, unless an item carries the
   key _add_ws (which Tag's own parameter of that name takes: item_ws) *)
Theorem C11_dep_tags_block :
  forall d lp iv tags,
    Forall dict_ok (dd_sheets d) -> Forall dict_ok (dd_scripts d) ->
    Forall (fun it => item_ws it = true) (dd_meta d ++ dd_sheets d ++ dd_scripts d) ->
    dep_html_tags d lp iv = Ok tags ->
    exists gen, tags = gen ++ head_items d /\ Forall (fun t => block_leaf t = true) gen /\
                length gen = (length (dd_meta d) + length (dd_sheets d) + length (dd_scripts d))%nat.
Proof. exact dep_html_tags_block. Qed.
Print Assumptions C11_dep_tags_block.

(* ---- attributes ------------------------------------------------------------------------------ *)
(* general case: Tag(name, **item) is the grouping specification of C15 on the item's keys
   other than _add_ws (normalised names, None/False dropped, True as empty, numbers as text,
   same normalised name merged); a key _name, a non-bool _add_ws or an unsupported value make
   it a TypeError, and nothing else does *)
Theorem C11_dep_tag_attrs_general :
  forall name it,
    tag_of_item name it = spec_tag name it /\
    (forall t, tag_of_item name it = Ok t ->
       exists a, attrs_of_call [] (item_kwargs it) = Ok a /\ t = TagN name (item_ws it) a []) /\
    (forall e, tag_of_item name it = Err e -> e = TypeError).
Proof. exact tag_of_item_general. Qed.
Print Assumptions C11_dep_tag_attrs_general.

(* the typed-dict case (keys without underscore, distinct; values plain strings; href / src
   encodable): as_html_tags succeeds and every tag's attribute list is its item's key/value
   list in order -- for link with the URL in place of href and rel = stylesheet in place of
   (or, absent, after) rel; for script with the URL in place of src *)
Theorem C11_dep_tag_attrs :
  forall name ver src af metas sheets scripts head lp iv,
    Forall typed metas -> Forall typed sheets -> Forall typed scripts ->
    Forall (has_file k_href) sheets -> Forall (has_file k_src) scripts ->
    (exists h, head_html head = Ok h) ->
    let d := mk_ddep name ver src af (map str_item metas) (map str_item sheets)
                     (map str_item scripts) head in
    let base := source_href d lp iv in
    dep_html_tags d lp iv
    = Ok (map (fun l => TagN n_meta true (plain_attrs l) []) metas
          ++ map (fun l => TagN n_link true (plain_attrs (typed_sheet base l)) []) sheets
          ++ map (fun l => TagN n_script true (plain_attrs (typed_script base l)) []) scripts
          ++ head_items d).
Proof. exact dep_html_tags_typed. Qed.
Print Assumptions C11_dep_tag_attrs.

(* every link has rel = stylesheet -- exactly that value unless the item has a second key that
   normalises to rel (the only one is rel_ : see the example below, where the attribute code
   merges both values) *)
Theorem C11_dep_link_rel :
  forall d lp iv tags,
    Forall dict_ok (dd_sheets d) -> Forall dict_ok (dd_scripts d) ->
    Forall (fun s => ~ In (k_rel ++ [95]) (map fst s)) (dd_sheets d) ->
    dep_html_tags d lp iv = Ok tags ->
    exists metas links rest,
      tags = metas ++ links ++ rest /\ length metas = length (dd_meta d) /\
      Forall2 (fun s t => exists a, t = TagN n_link (item_ws s) a [] /\
                                    lookup k_rel a = Some (AStr v_stylesheet))
              (dd_sheets d) links.
Proof. exact dep_html_tags_link_rel. Qed.
Print Assumptions C11_dep_link_rel.

(* ---- the whole markup is the specification ------------------------------------------------------ *)
(* model = specification, errors included: metas ++ links ++ scripts ++ head payload, links
   from spec_sheet of C12's URL, scripts from spec_script, tags by C15's grouping; the first
   error in the order stylesheets, scripts, head rendering, metas, links, scripts *)
Theorem C11_dep_refines_spec :
  forall d lp iv,
    Forall dict_ok (dd_sheets d) -> Forall dict_ok (dd_scripts d) ->
    dep_html_tags d lp iv = spec_html_tags d lp iv.
Proof. exact dep_html_tags_refines. Qed.
Print Assumptions C11_dep_refines_spec.

(* ---- the bridge to the document theorems --------------------------------------------------------- *)
(* if the head payload holds no metadata node (no tagifiable object), neither does the markup:
   the generated tags have no children at all.  This discharges the hypotheses
   forall d, forallb meta_free (tags_of d) = true / forallb no_custom (tags_of d) = true
   of C11_once, C11_rest, C11_returned, C11_returned_tree for tags_of = dep_tags_of env lp iv. *)
Theorem C11_dep_tags_meta_free :
  (forall d lp iv tags,
     forallb meta_free (head_items d) = true ->
     dep_html_tags d lp iv = Ok tags -> forallb meta_free tags = true) /\
  (forall d lp iv tags,
     forallb no_custom (head_items d) = true ->
     dep_html_tags d lp iv = Ok tags -> forallb no_custom tags = true) /\
  (forall env lp iv,
     (forall x, forallb meta_free (head_items (env x)) = true) ->
     forall x, forallb meta_free (dep_tags_of env lp iv x) = true) /\
  (forall env lp iv,
     (forall x, forallb no_custom (head_items (env x)) = true) ->
     forall x, forallb no_custom (dep_tags_of env lp iv x) = true).
Proof.
  split; [exact dep_html_tags_meta_free|]. split; [exact dep_html_tags_no_custom|].
  split; [exact dep_tags_of_meta_free|exact dep_tags_of_no_custom].
Qed.
Print Assumptions C11_dep_tags_meta_free.

(* C11_once with the real markup: for dependencies whose head payloads hold no dependency
   object, the document has ONE head block in which every resolved dependency has its
   metas, links, scripts and payload once, in resolved order, and nothing of a dependency is
   rendered anywhere else *)
Theorem C11_dep_once :
  forall env lp iv content kw t,
    (forall x, forallb meta_free (head_items (env x)) = true) ->
    doc_tree (dep_tags_of env lp iv) content kw = Ok t ->
    exists ws a pre hws ha uhk post,
      doc_parts content ws pre hws ha uhk post /\
      t = TagN n_html ws a
               (pre ++ TagN n_head hws ha
                            (meta_charset :: uhk ++ listing (doc_deps content)
                               ++ flat_map (dep_tags_of env lp iv) (doc_deps content))
                    :: post) /\
      NoDup (map dname (doc_deps content)) /\
      strip_meta t
      = TagN n_html ws a
             (strip_list pre ++ TagN n_head hws ha
                          (meta_charset :: strip_list uhk ++ listing (doc_deps content)
                             ++ flat_map (dep_tags_of env lp iv) (doc_deps content))
                  :: strip_list post) /\
      meta_free (strip_meta t) = true /\
      (forall i eol, render_tag i eol t = render_tag i eol (strip_meta t)).
Proof.
  intros env lp iv content kw t Hh. apply doc_once. apply dep_tags_of_meta_free. exact Hh.
Qed.
Print Assumptions C11_dep_once.

(* C11_returned with the real markup *)
Theorem C11_dep_returned :
  forall env lp iv content kw deps html,
    (forall x, forallb meta_free (head_items (env x)) = true) ->
    (forall x, forallb no_custom (head_items (env x)) = true) ->
    forallb exp_expanded content = true ->
    doc_render (dep_tags_of env lp iv) content kw = Ok (deps, html) ->
    deps = doc_deps content /\
    exists t s hws ha,
      doc_tree (dep_tags_of env lp iv) content kw = Ok t /\
      tag_html O nl t = Ok s /\
      html = doctype ++ s /\
      first_head (kids_of t)
      = Some (TagN n_head hws ha
                   (meta_charset :: user_head content
                                 ++ listing deps ++ flat_map (dep_tags_of env lp iv) deps)).
Proof.
  intros env lp iv content kw deps html Hm Hc. apply doc_returned.
  - apply dep_tags_of_meta_free. exact Hm.
  - apply dep_tags_of_no_custom. exact Hc.
Qed.
Print Assumptions C11_dep_returned.

(* ---- rendering ------------------------------------------------------------------------------------- *)
(* over the regenerated void table: meta and link are void, script is not; so a generated
   meta / link renders self-closed, a script as open tag immediately followed by its end tag,
   each after the indentation; the attribute text of a typed item is key=quoted escaped value
   in item order *)
Theorem C11_dep_render :
  (mem_str n_meta void_names = true /\ mem_str n_link void_names = true /\
   mem_str n_script void_names = false) /\
  (forall i eol ws a,
     render_tag (M:=dep) i eol (TagN n_meta ws a []) = Ok [PWs (indent_str i); PSelf n_meta a ws] /\
     render_tag (M:=dep) i eol (TagN n_link ws a []) = Ok [PWs (indent_str i); PSelf n_link a ws] /\
     render_tag (M:=dep) i eol (TagN n_script ws a [])
     = Ok [PWs (indent_str i); POpen n_script a ws; PClose n_script ws] /\
     tag_html (M:=dep) i eol (TagN n_meta ws a [])
     = Ok (indent_str i ++ [60] ++ n_meta ++ attrs_str a ++ [47; 62]) /\
     tag_html (M:=dep) i eol (TagN n_link ws a [])
     = Ok (indent_str i ++ [60] ++ n_link ++ attrs_str a ++ [47; 62]) /\
     tag_html (M:=dep) i eol (TagN n_script ws a [])
     = Ok (indent_str i ++ ([60] ++ n_script ++ attrs_str a ++ [62]) ++ [60; 47] ++ n_script ++ [62])) /\
  (forall l,
     attrs_str (plain_attrs l)
     = flat_map (fun kv => [32] ++ fst kv ++ [61; 34] ++ html_escape true (snd kv) ++ [34]) l).
Proof. exact render_generated. Qed.
Print Assumptions C11_dep_render.

(* the whole TagList: the generated tags (none with _add_ws = False) render one per line,
   then -- after one more end-of-line unless there is no generated tag or the payload consists
   of metadata nodes only -- the payload exactly as it renders on its own *)
Theorem C11_dep_render_list :
  forall d lp iv tags i eol esc,
    Forall dict_ok (dd_sheets d) -> Forall dict_ok (dd_scripts d) ->
    Forall (fun it => item_ws it = true) (dd_meta d ++ dd_sheets d ++ dd_scripts d) ->
    dep_html_tags d lp iv = Ok tags ->
    exists gen,
      tags = gen ++ head_items d /\ Forall (fun t => block_leaf t = true) gen /\
      render_list i eol true esc tags =
      match render_list i eol true esc (head_items d) with
      | Err e => Err e
      | Ok pp =>
        Ok (lines_pieces eol true (map (tag_pieces i) gen)
            ++ (if nil_b gen || forallb is_meta (head_items d) then [] else [PWs eol]) ++ pp)
      end.
Proof. exact dep_render_list. Qed.
Print Assumptions C11_dep_render_list.

(* ------------------------------------------------------------------------------------------------ *)
(* Non-vacuity.  The expected values are the implementation's own output for
     HTMLDependency(dep, 1.2, source = subdir /nonexistent/deptags/src,
        script = one dict: src js/a b.js, async empty, defer True, data_x 1,
        stylesheet = two dicts: (href a.css) and (media print, rel alternate, href b c.css),
        meta = one dict: name n, content c, http-equiv refresh,
        head = [title(t), HTML(<x>)])
   with lib_prefix = lib, include_version = True. *)
Definition ex_script : ditem := [([115;114;99], VStr [106;115;47;97;32;98;46;106;115]); ([97;115;121;110;99], VStr []); ([100;101;102;101;114], VBool true); ([100;97;116;97;95;120], VStr [49])].
Definition ex_sheet1 : ditem := [([104;114;101;102], VStr [97;46;99;115;115])].
Definition ex_sheet2 : ditem := [([109;101;100;105;97], VStr [112;114;105;110;116]); ([114;101;108], VStr [97;108;116;101;114;110;97;116;101]); ([104;114;101;102], VStr [98;32;99;46;99;115;115])].
Definition ex_meta : ditem := [([110;97;109;101], VStr [110]); ([99;111;110;116;101;110;116], VStr [99]); ([104;116;116;112;45;101;113;117;105;118], VStr [114;101;102;114;101;115;104])].
Definition ex_head : list (node dep) := [TagN [116;105;116;108;101] true [] [Text [116]]; Html [60;120;62]].
Definition ex_src : Paths.source := SrcLocal None [47;110;111;110;101;120;105;115;116;101;110;116;47;100;101;112;116;97;103;115;47;115;114;99].

Definition ex_dep : ddep :=
  mk_ddep [100;101;112] [49;46;50] ex_src false [ex_meta]
          [ex_sheet1 ++ [(k_rel, VStr v_stylesheet)]; ex_sheet2] [ex_script] (Some ex_head).

Definition ex_tags : list (node dep) :=
  [TagN n_meta true [([110;97;109;101], AStr [110]); ([99;111;110;116;101;110;116], AStr [99]); ([104;116;116;112;45;101;113;117;105;118], AStr [114;101;102;114;101;115;104])] [];
   TagN n_link true [([104;114;101;102], AStr [108;105;98;47;100;101;112;45;49;46;50;47;97;46;99;115;115]); ([114;101;108], AStr [115;116;121;108;101;115;104;101;101;116])] [];
   TagN n_link true [([109;101;100;105;97], AStr [112;114;105;110;116]); ([114;101;108], AStr [115;116;121;108;101;115;104;101;101;116]); ([104;114;101;102], AStr [108;105;98;47;100;101;112;45;49;46;50;47;98;37;50;48;99;46;99;115;115])] [];
   TagN n_script true [([115;114;99], AStr [108;105;98;47;100;101;112;45;49;46;50;47;106;115;47;97;37;50;48;98;46;106;115]); ([97;115;121;110;99], AStr []); ([100;101;102;101;114], AStr []); ([100;97;116;97;45;120], AStr [49])] []] ++ ex_head.

(* the constructor stores that object (rel appended to the first stylesheet, the user's
   rel = alternate kept in the second) *)
Example C11_dep_example_init :
  dep_new [100;101;112] [49;46;50] ex_src false (IAOne ex_script) (IAList [ex_sheet1; ex_sheet2])
          (IAOne ex_meta) (HNodes ex_head) = Ok ex_dep.
Proof. vm_compute. reflexivity. Qed.

(* as_dict: URLs in place, the user's rel = alternate overwritten, key order kept *)
Example C11_dep_example_as_dict :
  dep_as_dict ex_dep (Some [108;105;98]) true
  = Ok (mk_ddict [100;101;112] [49;46;50]
          [[([115;114;99], VStr [108;105;98;47;100;101;112;45;49;46;50;47;106;115;47;97;37;50;48;98;46;106;115]); ([97;115;121;110;99], VStr []); ([100;101;102;101;114], VBool true); ([100;97;116;97;95;120], VStr [49])]]
          [[([104;114;101;102], VStr [108;105;98;47;100;101;112;45;49;46;50;47;97;46;99;115;115]); ([114;101;108], VStr [115;116;121;108;101;115;104;101;101;116])];
           [([109;101;100;105;97], VStr [112;114;105;110;116]); ([114;101;108], VStr [115;116;121;108;101;115;104;101;101;116]); ([104;114;101;102], VStr [108;105;98;47;100;101;112;45;49;46;50;47;98;37;50;48;99;46;99;115;115])]]
          [ex_meta]
          (Some [60;116;105;116;108;101;62;116;60;47;116;105;116;108;101;62;10;60;120;62])).
Proof. vm_compute. reflexivity. Qed.

(* as_html_tags and its rendering; the hypotheses of the theorems above hold for it *)
Example C11_dep_example_tags :
  dep_html_tags ex_dep (Some [108;105;98]) true = Ok ex_tags /\
  spec_html_tags ex_dep (Some [108;105;98]) true = Ok ex_tags /\
  list_html O nl true true ex_tags = Ok [60;109;101;116;97;32;110;97;109;101;61;34;110;34;32;99;111;110;116;101;110;116;61;34;99;34;32;104;116;116;112;45;101;113;117;105;118;61;34;114;101;102;114;101;115;104;34;47;62;10;60;108;105;110;107;32;104;114;101;102;61;34;108;105;98;47;100;101;112;45;49;46;50;47;97;46;99;115;115;34;32;114;101;108;61;34;115;116;121;108;101;115;104;101;101;116;34;47;62;10;60;108;105;110;107;32;109;101;100;105;97;61;34;112;114;105;110;116;34;32;114;101;108;61;34;115;116;121;108;101;115;104;101;101;116;34;32;104;114;101;102;61;34;108;105;98;47;100;101;112;45;49;46;50;47;98;37;50;48;99;46;99;115;115;34;47;62;10;60;115;99;114;105;112;116;32;115;114;99;61;34;108;105;98;47;100;101;112;45;49;46;50;47;106;115;47;97;37;50;48;98;46;106;115;34;32;97;115;121;110;99;61;34;34;32;100;101;102;101;114;61;34;34;32;100;97;116;97;45;120;61;34;49;34;62;60;47;115;99;114;105;112;116;62;10;60;116;105;116;108;101;62;116;60;47;116;105;116;108;101;62;10;60;120;62] /\
  forallb meta_free (head_items ex_dep) = true /\ forallb no_custom (head_items ex_dep) = true /\
  forallb (fun it => item_ws it) (dd_meta ex_dep ++ dd_sheets ex_dep ++ dd_scripts ex_dep) = true /\
  forallb (fun s => negb (mem_str (k_rel ++ [95]) (map fst s))) (dd_sheets ex_dep) = true.
Proof. vm_compute. repeat split; reflexivity. Qed.

Example C11_dep_example_dicts_ok :
  Forall dict_ok (dd_sheets ex_dep) /\ Forall dict_ok (dd_scripts ex_dep).
Proof.
  unfold dict_ok. split; repeat constructor; vm_compute; intuition discriminate.
Qed.

(* the typed closed form on the same items (defer given as the empty string instead of True,
   data-x written with a hyphen: the typed-dict case has no underscore and only strings) *)
Definition ex_t_script : list (str * str) := [([115;114;99], [106;115;47;97;32;98;46;106;115]); ([97;115;121;110;99], []); ([100;101;102;101;114], []); ([100;97;116;97;45;120], [49])].
Definition ex_t_sheet1 : list (str * str) := [([104;114;101;102], [97;46;99;115;115])].
Definition ex_t_sheet2 : list (str * str) := [([109;101;100;105;97], [112;114;105;110;116]); ([114;101;108], [97;108;116;101;114;110;97;116;101]); ([104;114;101;102], [98;32;99;46;99;115;115])].
Definition ex_t_meta : list (str * str) := [([110;97;109;101], [110]); ([99;111;110;116;101;110;116], [99]); ([104;116;116;112;45;101;113;117;105;118], [114;101;102;114;101;115;104])].
Example C11_dep_example_typed :
  Forall typed [ex_t_meta] /\ Forall typed [ex_t_sheet1; ex_t_sheet2] /\ Forall typed [ex_t_script] /\
  Forall (has_file k_href) [ex_t_sheet1; ex_t_sheet2] /\ Forall (has_file k_src) [ex_t_script] /\
  head_html (Some ex_head) = Ok (Some [60;116;105;116;108;101;62;116;60;47;116;105;116;108;101;62;10;60;120;62]) /\
  dep_html_tags (mk_ddep [100;101;112] [49;46;50] ex_src false (map str_item [ex_t_meta])
                         (map str_item [ex_t_sheet1; ex_t_sheet2]) (map str_item [ex_t_script])
                         (Some ex_head)) (Some [108;105;98]) true = Ok ex_tags.
Proof.
  split; [|split; [|split; [|split; [|split; [|split]]]]].
  - repeat constructor; vm_compute; intuition discriminate.
  - repeat constructor; vm_compute; intuition discriminate.
  - repeat constructor; vm_compute; intuition discriminate.
  - constructor; [exists [97;46;99;115;115]|constructor; [exists [98;32;99;46;99;115;115]|constructor]];
      (split; [vm_compute; tauto|reflexivity]).
  - constructor; [exists [106;115;47;97;32;98;46;106;115]|constructor]; (split; [vm_compute; tauto|reflexivity]).
  - vm_compute. reflexivity.
  - vm_compute. reflexivity.
Qed.

(* the document level: HTMLDocument(div(y, dep)).render(lib_prefix = lib) with the REAL markup
   (tags_of = dep_tags_of): the hypotheses of C11_dep_once / C11_dep_returned hold and the
   output is the implementation's own *)
Definition ex_obj : dep := mkdep [100;101;112] [1; 2] 1.
Definition ex_env (x : dep) : ddep := ex_dep.
Example C11_dep_example_document :
  (forall x, forallb meta_free (head_items (ex_env x)) = true) /\
  (forall x, forallb no_custom (head_items (ex_env x)) = true) /\
  doc_render (dep_tags_of ex_env (Some [108;105;98]) true)
             [TagN [100;105;118] true [] [Text [121]; Meta ex_obj]] []
  = Ok ([ex_obj], [60;33;68;79;67;84;89;80;69;32;104;116;109;108;62;10;60;104;116;109;108;62;10;32;32;60;104;101;97;100;62;10;32;32;32;32;60;109;101;116;97;32;99;104;97;114;115;101;116;61;34;117;116;102;45;56;34;47;62;10;32;32;32;32;60;115;99;114;105;112;116;32;116;121;112;101;61;34;97;112;112;108;105;99;97;116;105;111;110;47;104;116;109;108;45;100;101;112;101;110;100;101;110;99;105;101;115;34;62;100;101;112;91;49;46;50;93;60;47;115;99;114;105;112;116;62;10;32;32;32;32;60;109;101;116;97;32;110;97;109;101;61;34;110;34;32;99;111;110;116;101;110;116;61;34;99;34;32;104;116;116;112;45;101;113;117;105;118;61;34;114;101;102;114;101;115;104;34;47;62;10;32;32;32;32;60;108;105;110;107;32;104;114;101;102;61;34;108;105;98;47;100;101;112;45;49;46;50;47;97;46;99;115;115;34;32;114;101;108;61;34;115;116;121;108;101;115;104;101;101;116;34;47;62;10;32;32;32;32;60;108;105;110;107;32;109;101;100;105;97;61;34;112;114;105;110;116;34;32;114;101;108;61;34;115;116;121;108;101;115;104;101;101;116;34;32;104;114;101;102;61;34;108;105;98;47;100;101;112;45;49;46;50;47;98;37;50;48;99;46;99;115;115;34;47;62;10;32;32;32;32;60;115;99;114;105;112;116;32;115;114;99;61;34;108;105;98;47;100;101;112;45;49;46;50;47;106;115;47;97;37;50;48;98;46;106;115;34;32;97;115;121;110;99;61;34;34;32;100;101;102;101;114;61;34;34;32;100;97;116;97;45;120;61;34;49;34;62;60;47;115;99;114;105;112;116;62;10;32;32;32;32;60;116;105;116;108;101;62;116;60;47;116;105;116;108;101;62;10;32;32;32;32;60;120;62;10;32;32;60;47;104;101;97;100;62;10;32;32;60;98;111;100;121;62;10;32;32;32;32;60;100;105;118;62;121;60;47;100;105;118;62;10;32;32;60;47;98;111;100;121;62;10;60;47;104;116;109;108;62]).
Proof. split; [reflexivity|]. split; [reflexivity|]. vm_compute. reflexivity. Qed.

(* rel_ next to rel: both normalise to rel and the attribute code merges them -- the reason
   for the side condition of C11_dep_link_rel.  HTMLDependency(a, 1, source href u,
   stylesheet (href y.css, rel_ preload)) gives <link href="u/y.css" rel="preload stylesheet"/> *)
Example C11_dep_example_rel_merged :
  let d := mk_ddep [97] [49] (SrcUrl [117]) false []
                   [[(k_href, VStr [121;46;99;115;115]); (k_rel ++ [95], VStr [112;114;101;108;111;97;100]);
                     (k_rel, VStr v_stylesheet)]] [] None in
  dep_new [97] [49] (SrcUrl [117]) false IANone
          (IAOne [(k_href, VStr [121;46;99;115;115]); (k_rel ++ [95], VStr [112;114;101;108;111;97;100])]) IANone HNone = Ok d /\
  dep_html_tags d (Some [108;105;98]) true
  = Ok [TagN n_link true [(k_href, AStr [117;47;121;46;99;115;115]); (k_rel, AStr [112;114;101;108;111;97;100;32;115;116;121;108;101;115;104;101;101;116])] []].
Proof. vm_compute. split; reflexivity. Qed.

(* the key _add_ws of an item is taken by Tag's own parameter: the tag loses its
   whitespace flag and gets no such attribute *)
Example C11_dep_example_add_ws :
  tag_of_item n_script [(k_src, VStr [97;46;106;115]); (kw_add_ws, VBool false)]
  = Ok (TagN n_script false [(k_src, AStr [97;46;106;115])] []) /\
  tag_of_item n_script [(k_src, VStr [97;46;106;115]); (kw_name, VStr [120])] = Err TypeError /\
  tag_of_item n_script [(k_src, VStr [97;46;106;115]); (kw_add_ws, VStr [120])] = Err TypeError.
Proof. vm_compute. repeat split; reflexivity. Qed.

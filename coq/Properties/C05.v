(* C05  No whitespace is ever injected into inline content. *)
From HT Require Import Model.Str Model.Tree Model.Render Gen.Tables Spec.Layout
     Proofs.RenderInline Proofs.RenderContig Proofs.RenderEdges.

(* A tag in which no tag has whitespace enabled renders as the exact concatenation of its
   open tags, content and close tags (preceded by the requested indentation), for every
   indent and eol: no layout whitespace inside. *)
Theorem C05_inline_flat :
  forall (M : Type) name ws a (kids : list (node M)) (i : nat) (eol : str),
    inline_only (TagN name ws a kids) = true ->
    tag_html i eol (TagN name ws a kids) = Ok (indent_str i ++ flat true (TagN name ws a kids)).
Proof. intros M. exact inline_flat_html. Qed.
Print Assumptions C05_inline_flat.

(* A list of inline-only items is emitted with nothing between them. *)
Theorem C05_inline_list :
  forall (M : Type) (l : list (node M)) (i : nat) (eol : str) (esc : bool),
    forallb inline_only l = true ->
    list_html i eol false esc l = Ok (flat_map (flat esc) l).
Proof. intros M. exact inline_list_flat. Qed.
Print Assumptions C05_inline_list.

(* Wherever an inline-only subtree sits in ANY tree (block-inside-inline nestings included),
   at any depth, its exact flat string appears contiguously in the output. *)
Theorem C05_contiguous :
  forall (M : Type) (e : bool) (n t : node M),
    occurs e n t -> inline_only n = true ->
    forall i eol ps, render_tag i eol t = Ok ps -> sub_of (flat e n) (pieces_str ps).
Proof. intros M. exact subtree_contiguous. Qed.
Print Assumptions C05_contiguous.

(* Adjacent siblings none of which contains a whitespace-enabled tag (metadata nodes between
   them allowed) are emitted with nothing between them: the concatenation of their flat forms
   is contiguous in the parent's output, whatever precedes and follows the run. *)
Theorem C05_adjacent_in_tag :
  forall (M : Type) name ws a (l1 mid l2 : list (node M)) i eol ps,
    render_tag i eol (TagN name ws a (l1 ++ mid ++ l2)) = Ok ps ->
    forallb inline_only mid = true ->
    sub_of (flat_map (flat (negb (mem_str name no_escape_names))) mid) (pieces_str ps).
Proof. intros M. exact tag_run_contiguous. Qed.
Print Assumptions C05_adjacent_in_tag.

Theorem C05_adjacent_in_list :
  forall (M : Type) (l1 mid l2 : list (node M)) i eol aw esc ps,
    render_list i eol aw esc (l1 ++ mid ++ l2) = Ok ps ->
    forallb inline_only mid = true ->
    sub_of (flat_map (flat esc) mid) (pieces_str ps).
Proof. intros M. exact list_run_contiguous. Qed.
Print Assumptions C05_adjacent_in_list.

(* non-vacuity: an inline run between two block siblings inside an inline parent *)
Example C05_example :
  let run := [TagN [98] false [] [Text [120]]; Meta tt; Text [38]; Html [60;105;62]] in
  forallb (inline_only (M:=unit)) run = true
  /\ flat_map (flat true) run = [60;98;62;120;60;47;98;62;38;97;109;112;59;60;105;62]
  /\ exists ps, render_tag 1 [10]
       (TagN [115] false [] ([TagN [100] true [] []] ++ run ++ [TagN [112] true [] []])) = Ok ps.
Proof. vm_compute. repeat split; try reflexivity. eexists. reflexivity. Qed.

(* Layout whitespace only ever appears immediately inside or immediately outside the opening
   or closing tag of a whitespace-enabled tag: in the rendering of ANY tree (block-inside-inline
   nestings included), with any eol, every non-empty whitespace piece -- skipping over
   neighbouring whitespace pieces, empty or not -- is immediately preceded or immediately
   followed by a tag piece (open, self-closing or close) of a whitespace-enabled element. *)
Theorem C05_ws_at_block_edges :
  forall (M : Type) (t : node M) (eol : str) (ps : list piece),
    render_tag 0 eol t = Ok ps ->
    forall a s b, ps = a ++ PWs s :: b -> s <> [] -> at_block_edge a b.
Proof. intros M. exact ws_at_block_edges. Qed.
Print Assumptions C05_ws_at_block_edges.

(* Any indent: the one possible exception is the first piece of the output, the indentation
   requested by the caller, and only when the tag itself is not whitespace-enabled. *)
Theorem C05_ws_at_block_edges_indent :
  forall (M : Type) (t : node M) (i : nat) (eol : str) (ps : list piece),
    render_tag i eol t = Ok ps ->
    forall a s b, ps = a ++ PWs s :: b -> s <> [] ->
      (a <> [] \/ ws_of t = true \/ i = O) -> at_block_edge a b.
Proof. intros M. exact tag_ws_at_block_edges. Qed.
Print Assumptions C05_ws_at_block_edges_indent.

(* TagList rendering: no exception with add_ws = False or at indent 0; otherwise the one
   possible exception is the first piece of the output (the first item's indentation). *)
Theorem C05_ws_at_block_edges_list :
  forall (M : Type) (l : list (node M)) (i : nat) (eol : str) (aw esc : bool)
         (ps : list piece),
    render_list i eol aw esc l = Ok ps ->
    forall a s b, ps = a ++ PWs s :: b -> s <> [] ->
      (a <> [] \/ aw = false \/ i = O) -> at_block_edge a b.
Proof. intros M. exact list_ws_at_block_edges. Qed.
Print Assumptions C05_ws_at_block_edges_list.

(* the boolean scanner used in the example below decides exactly the stated property *)
Theorem C05_ws_edges_okb_spec :
  forall ps, ws_edges_okb ps = true <->
             (forall a s b, ps = a ++ PWs s :: b -> s <> [] -> at_block_edge a b).
Proof. exact ws_edges_okb_spec. Qed.
Print Assumptions C05_ws_edges_okb_spec.

(* non-vacuity: nine non-empty whitespace pieces, four of them around a block tag nested in
   an inline tag *)
Example C05_edges_example :
  exists ps, render_tag 0 [10] edges_example = Ok ps
             /\ nonempty_ws ps = 9%nat /\ ws_edges_okb ps = true.
Proof. eexists. vm_compute. repeat split. Qed.

(* C17  Tag context manager restores the display hook and collects children in order.
   Statements only; proofs live in Proofs/WithProgProofs.v.

   Model/WithProg.v: programs  Display v | With t body | Raise  over the tags T[0], T[1], ...
   and run : list stmt -> state -> state * outcome, a transcription of Tag.__enter__,
   Tag.__exit__, wrap_displayhook_handler, Tag.append and the with-statement protocol.
   state = sys.displayhook (as data: None | the pre-installed hook | tag t's wrapper), every
   tag's prev_displayhook and children, and the values received by the pre-installed hook.
   Spec/WithSpec.v: sem, the same programs read with lexical scoping and no global hook.

   Standing hypothesis  hook_ s <> HNone : sys.displayhook holds a hook, not None (with None
   stored there __enter__ cannot tell entered from not entered, see C17_hook_hypothesis_needed).
   It is preserved by every program (C17_restored), so it holds at every block boundary. *)
From Coq Require Import PeanoNat.
From HT Require Import Model.Str Model.Tree Model.WithProg Spec.WithSpec Proofs.WithProgProofs.

(* After ANY statement list -- any nesting depth and shape, any displayed values, an
   exception raised anywhere (user code, an invalid value, re-entering a tag) or none --
   sys.displayhook is what it was before.  Statement lists include every block body and
   every single with-statement, so this is restoration at every block exit. *)
Theorem C17_restored :
  forall (p : list stmt) (s : state),
    hook_ s <> HNone -> hook_ (fst (run p s)) = hook_ s.
Proof. exact hook_restored. Qed.
Print Assumptions C17_restored.

Theorem C17_restored_block :
  forall (t : nat) (body : list stmt) (s : state),
    hook_ s <> HNone -> hook_ (fst (run_stmt (With t body) s)) = hook_ s.
Proof. intros t body. exact (hook_restored_stmt (With t body)). Qed.
Print Assumptions C17_restored_block.

Theorem C17_base_restored :
  forall (p : list stmt) (s : state),
    hook_ s = HBase -> hook_ (fst (run p s)) = HBase.
Proof. intros p s H. rewrite hook_restored; [exact H|congruence]. Qed.
Print Assumptions C17_base_restored.

(* The save/restore implementation computes the lexically scoped meaning: started in
   agreeing states with the current hook being the receiver r, implementation and
   specification end in agreeing states (every tag's children, the base log, which tags
   have been entered) with the same outcome.  In sem, a value displayed directly inside
   `With t` goes to t under `shown`, in program order; a rejected value raises TypeError
   at that point and nothing is appended; a finished block gives its tag exactly once to
   the receiver of the enclosing level, on every way out. *)
Theorem C17_children :
  forall (p : list stmt) (r : recv) (s : state),
    hook_ s = hook_of r ->
    agree (fst (run p s)) (fst (sem r p (abs s))) /\
    snd (run p s) = snd (sem r p (abs s)).
Proof.
  intros p r s H. destruct (run_refines p r s (abs s) (agree_abs s) H) as (A & B & _).
  split; assumption.
Qed.
Print Assumptions C17_children.

(* The direct reading for a run of displays inside tag t's block: the accepted values'
   children are appended to t in order, up to the first rejected value, which raises
   TypeError; no other tag, the hook, the log and the saved hooks are untouched. *)
Theorem C17_children_in_order :
  forall (vs : list dval) (t : nat) (s : state),
    hook_ s = HTag t ->
    let r := run (map Display vs) s in
    children (fst r) t = children s t ++ fst (shown_all vs) /\
    (forall u, u <> t -> children (fst r) u = children s u) /\
    snd r = (if snd (shown_all vs) then Normal else Raised TypeError) /\
    hook_ (fst r) = HTag t /\ log (fst r) = log s /\ prev (fst r) = prev s.
Proof. exact displays_collected. Qed.
Print Assumptions C17_children_in_order.

(* ... and `shown` is the rule of the statement: None and Ellipsis ignored, _repr_html_
   objects (HTML included) kept as HTML of their markup, numbers as text, lists spliced
   all-or-nothing, anything else (an Ellipsis inside a list too) rejected. *)
Theorem C17_child_rules :
  shown DNone = Some [] /\ shown DEllipsis = Some [] /\
  (forall m, shown (DRepr m) = Some [CHtml m]) /\ (forall m, shown (DHtml m) = Some [CHtml m]) /\
  (forall m, shown (DText m) = Some [CText m]) /\ (forall m, shown (DNum m) = Some [CText m]) /\
  (forall t, shown (DTagRef t) = Some [CTag t]) /\
  shown DBad = None /\ shown (DList [DEllipsis]) = None /\ shown (DList [DNone]) = Some [] /\
  (forall m, shown (DList [DRepr m]) = Some [CRepr m]) /\
  (forall a b, shown (DList (a :: b)) =
               match child_rule a, child_rule (DList b) with
               | Some x, Some y => Some (x ++ y)
               | _, _ => None
               end).
Proof. repeat split; reflexivity. Qed.
Print Assumptions C17_child_rules.

(* A tag whose block is entered is handed over exactly once: on exit (after everything the
   body did), to the hook that was current at entry (which is again the current hook), on
   normal and exceptional exit alike (the body's outcome propagates); and, unless the
   program itself displays the tag, it occurs nowhere else: the number of occurrences of
   the tag grows by one in the receiver and by zero in every other child list and the log. *)
Theorem C17_once :
  forall (t : nat) (body : list stmt) (s : state),
    prev s t = HNone -> hook_ s <> HNone ->
    let s' := fst (run_stmt (With t body) s) in
    let sb := fst (run body (entered t s)) in
    s' = deliver_tag (hook_ s) t sb /\
    hook_ s' = hook_ s /\
    snd (run_stmt (With t body) s) = snd (run body (entered t s)) /\
    (displays_any t body = false ->
     (forall u, count_tag t (children s' u) =
                count_tag t (children s u) + (match hook_ s with
                                              | HTag w => if Nat.eqb u w then 1 else 0
                                              | _ => 0 end))%nat /\
     (count_ref t (log s') =
      count_ref t (log s) + (match hook_ s with HBase => 1 | _ => 0 end))%nat).
Proof. exact delivered_once. Qed.
Print Assumptions C17_once.

(* Seen from the enclosing block: whatever happens inside `With t`, the enclosing tag
   (entered earlier) gets exactly [t] appended and the base hook gets nothing; at top level
   the base hook gets exactly t and no tag entered earlier changes. *)
Theorem C17_once_enclosing :
  forall (t : nat) (body : list stmt) (s : state),
    prev s t = HNone ->
    let s' := fst (run_stmt (With t body) s) in
    match hook_ s with
    | HTag u => prev s u <> HNone -> children s' u = children s u ++ [CTag t] /\ log s' = log s
    | HBase => log s' = log s ++ [DTagRef t] /\
               (forall u, prev s u <> HNone -> children s' u = children s u)
    | HNone => True
    end.
Proof. exact delivered_to_enclosing. Qed.
Print Assumptions C17_once_enclosing.

(* Entering a tag that has been entered: RuntimeError, the state (hook, every saved hook,
   every child list, the log) is literally unchanged, __exit__ is not run for it. *)
Theorem C17_reenter :
  forall (t : nat) (body : list stmt) (s : state),
    prev s t <> HNone -> run_stmt (With t body) s = (s, Raised RuntimeError).
Proof. exact reenter_rejected. Qed.
Print Assumptions C17_reenter.

(* A tag whose block is still active, at any depth (pre is arbitrary and may itself contain
   finished blocks; deeper re-entry is pre = ... by C17_restored_block applied to the blocks
   in between): re-entry is rejected with nothing changed at that point, and the active
   block still exits, restoring the hook and delivering the tag. *)
Theorem C17_reenter_active :
  forall (t : nat) (pre inner post : list stmt) (s : state),
    prev s t = HNone -> hook_ s <> HNone ->
    snd (run pre (entered t s)) = Normal ->
    let sp := fst (run pre (entered t s)) in
    run_stmt (With t inner) sp = (sp, Raised RuntimeError) /\
    run_stmt (With t (pre ++ With t inner :: post)) s =
      (deliver_tag (hook_ s) t sp, Raised RuntimeError) /\
    hook_ (deliver_tag (hook_ s) t sp) = hook_ s.
Proof. exact reenter_active. Qed.
Print Assumptions C17_reenter_active.

Theorem C17_active_has_prev :
  forall (t : nat) (s : state) (p : list stmt),
    hook_ s <> HNone -> prev (fst (run p (entered t s))) t <> HNone.
Proof. exact active_has_prev. Qed.
Print Assumptions C17_active_has_prev.

(* What the code does beyond the statement: __exit__ never resets prev_displayhook, so a
   Tag object whose block has finished cannot be used in a second with-statement either. *)
Theorem C17_reenter_after_exit :
  forall (t : nat) (body body2 : list stmt) (s : state),
    prev s t = HNone -> hook_ s <> HNone ->
    let s' := fst (run_stmt (With t body) s) in
    run_stmt (With t body2) s' = (s', Raised RuntimeError).
Proof. exact reenter_after_exit. Qed.
Print Assumptions C17_reenter_after_exit.

(* The standing hypothesis cannot be dropped: started with sys.displayhook = None the same
   tag can be entered inside itself and None is not restored. *)
Theorem C17_hook_hypothesis_needed :
  exists (p : list stmt) (s : state), hook_ s = HNone /\ hook_ (fst (run p s)) <> hook_ s.
Proof.
  exists [With 0 [With 0 []]], s_none. destruct restored_needs_hook as [A B].
  split; [exact B|]. rewrite A, B. discriminate.
Qed.
Print Assumptions C17_hook_hypothesis_needed.

(* ---- sessions: copies of tags (copy.copy(t), t.tagify()) used in with-blocks ------------ *)
(* run_top: top-level statements interleaved with TCopy src dst (a new tag index with the
   copied children and saved hook).  Restoration and the refinement to the hook-free
   semantics extend to sessions ... *)
Theorem C17_session_restored :
  forall (l : list top) (s : state),
    hook_ s <> HNone -> hook_ (fst (run_top l s)) = hook_ s.
Proof. exact session_restored. Qed.
Print Assumptions C17_session_restored.

Theorem C17_session_children :
  forall (l : list top) (r : recv) (s : state),
    hook_ s = hook_of r ->
    agree (fst (run_top l s)) (fst (sem_top r l (abs s))) /\
    snd (run_top l s) = snd (sem_top r l (abs s)).
Proof.
  intros l r s H. destruct (session_refines l r s (abs s) (agree_abs s) H) as (A & B & _).
  split; assumption.
Qed.
Print Assumptions C17_session_children.

(* ... and a copy of a tag that was never entered is an independent tag: the values displayed
   in the copy's block are appended to the copy (in order, under the rules), the original does
   not grow, and the object handed to the enclosing hook on exit is the copy. *)
Theorem C17_copy_independent :
  forall (src dst : nat) (vs : list dval) (s : state),
    src <> dst -> prev s src = HNone -> hook_ s = HBase ->
    let s' := fst (run_stmt (With dst (map Display vs)) (copy_tag src dst s)) in
    children s' dst = children s src ++ fst (shown_all vs) /\
    children s' src = children s src /\
    log s' = log s ++ [DTagRef dst] /\
    hook_ s' = HBase.
Proof. exact copy_independent. Qed.
Print Assumptions C17_copy_independent.

(* ---- non-vacuity ------------------------------------------------------------------------ *)
(* three levels, an exception raised in the innermost block after one display, statements
   after it at every level:
     with T0:  show "a";  with T1:  show repr<b>;  with T2: show 7; raise; show "x"
                                     show "y"
               show "z"                                                                   *)
Definition ex_prog : list stmt :=
  [With 0 [Display (DText [97]);
           With 1 [Display (DRepr [98]);
                   With 2 [Display (DNum [55]); Raise; Display (DText [120])];
                   Display (DText [121])];
           Display (DText [122])]].
Definition ex_init : state := init_state HBase (fun _ => []).

Example C17_example_exception_in_the_middle :
  let r := run ex_prog ex_init in
  hook_ (fst r) = HBase /\ snd r = RaisedUser /\
  children (fst r) 2 = [CText [55]] /\
  children (fst r) 1 = [CHtml [98]; CTag 2] /\
  children (fst r) 0 = [CText [97]; CTag 1] /\
  log (fst r) = [DTagRef 0] /\
  prev (fst r) 0 = HBase /\ prev (fst r) 1 = HTag 0 /\ prev (fst r) 2 = HTag 1 /\
  snd (sem RBase ex_prog (abs ex_init)) = RaisedUser /\
  kids (fst (sem RBase ex_prog (abs ex_init))) 1 = [CHtml [98]; CTag 2].
Proof. vm_compute. repeat split; reflexivity. Qed.

(* hypotheses of C17_restored / C17_children / C17_once are met by that instance *)
Example C17_example_hyps :
  hook_ ex_init <> HNone /\ hook_ ex_init = hook_of RBase /\ prev ex_init 0 = HNone /\
  displays_any 0 [Display (DText [97]); With 1 [Raise]] = false.
Proof. vm_compute. repeat split; try reflexivity. discriminate. Qed.

(* C17_children_in_order: an invalid value in third position *)
Example C17_example_in_order :
  let s := entered 0 ex_init in
  hook_ s = HTag 0 /\
  shown_all [DText [97]; DList [DNone; DNum [49]; DList [DHtml [60]]]; DBad; DText [98]] =
    ([CText [97]; CText [49]; CHtml [60]], false) /\
  run (map Display [DText [97]; DEllipsis; DBad; DText [98]]) s =
  run (map Display [DText [97]; DEllipsis; DBad]) s /\
  snd (run (map Display [DText [97]; DEllipsis; DBad; DText [98]]) s) = Raised TypeError.
Proof. vm_compute. repeat split; reflexivity. Qed.

(* C17_reenter_active: T0 re-entered two levels down, after a finished sibling block *)
Example C17_example_reenter :
  let s := ex_init in
  let pre := [Display (DText [97]); With 1 []] in
  prev s 0 = HNone /\ hook_ s <> HNone /\ snd (run pre (entered 0 s)) = Normal /\
  let r := run [With 0 [Display (DText [97]); With 1 []; With 2 [With 0 [Display DBad]]; Display (DText [98])]] s in
  snd r = Raised RuntimeError /\ hook_ (fst r) = HBase /\
  children (fst r) 0 = [CText [97]; CTag 1; CTag 2] /\ children (fst r) 2 = [] /\
  log (fst r) = [DTagRef 0].
Proof. vm_compute. repeat split; try reflexivity. discriminate. Qed.

(* C17_reenter_after_exit *)
Example C17_example_second_use :
  let r := run [With 0 []; With 0 []] ex_init in
  snd r = Raised RuntimeError /\ log (fst r) = [DTagRef 0] /\ hook_ (fst r) = HBase.
Proof. vm_compute. repeat split; reflexivity. Qed.

(* sessions: a copy taken before first use is entered and collects on its own; a copy taken
   after the original's block finished inherits the saved hook and cannot be entered *)
Example C17_example_copies :
  let r := run_top [TCopy 0 1; TStmt (With 1 [Display (DText [97])]);
                    TStmt (With 0 [Display (DText [98])]); TCopy 0 2;
                    TStmt (With 2 [Display (DText [99])])] (init_state HBase (fun _ => [CText [107]])) in
  snd r = Raised RuntimeError /\ hook_ (fst r) = HBase /\
  children (fst r) 1 = [CText [107]; CText [97]] /\
  children (fst r) 0 = [CText [107]; CText [98]] /\
  children (fst r) 2 = [CText [107]; CText [98]] /\
  log (fst r) = [DTagRef 1; DTagRef 0] /\
  (0 <> 1)%nat /\ prev (init_state HBase (fun _ => [CText [107]])) 0 = HNone.
Proof. vm_compute. repeat split; try reflexivity. discriminate. Qed.

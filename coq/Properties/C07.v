(* C07  Metadata nodes leave no trace in the markup. *)
From HT Require Import Model.Str Model.Tree Model.Render Spec.StripMeta Proofs.RenderMeta.

(* Rendering a tree equals rendering it with every metadata node removed at every level
   (any depth, any positions, any number in a row), for every indent and eol: this covers
   the one-line form of empty and single-text tags, the self-closed form of void tags,
   separators and indentation, and the error outcome alike, since the two results are equal
   as values of res (list piece). *)
Theorem C07_strip :
  forall (M : Type) (n : node M) (i : nat) (eol : str),
    render_tag i eol (strip_meta n) = render_tag i eol n.
Proof. intros M. exact render_strip_meta. Qed.
Print Assumptions C07_strip.

Theorem C07_strip_list :
  forall (M : Type) (l : list (node M)) (i : nat) (eol : str) (add_ws esc : bool),
    render_list i eol add_ws esc (strip_list l) = render_list i eol add_ws esc l.
Proof. intros M. exact render_list_strip_meta. Qed.
Print Assumptions C07_strip_list.

(* Hence two trees that differ only in metadata nodes, wherever those sit, render alike. *)
Theorem C07_same_after_strip :
  forall (M : Type) (n1 n2 : node M) (i : nat) (eol : str),
    strip_meta n1 = strip_meta n2 -> render_tag i eol n1 = render_tag i eol n2.
Proof. intros M. exact same_after_strip. Qed.
Print Assumptions C07_same_after_strip.

(* Inserting one metadata node at any child position of a tag / any position of a list. *)
Theorem C07_insert_child :
  forall (M : Type) name ws a (l1 : list (node M)) (m : M) l2 i eol,
    render_tag i eol (TagN name ws a (l1 ++ Meta m :: l2))
    = render_tag i eol (TagN name ws a (l1 ++ l2)).
Proof. intros M. exact insert_child. Qed.
Print Assumptions C07_insert_child.

Theorem C07_insert_item :
  forall (M : Type) (l1 : list (node M)) (m : M) l2 i eol add_ws esc,
    render_list i eol add_ws esc (l1 ++ Meta m :: l2) = render_list i eol add_ws esc (l1 ++ l2).
Proof. intros M. exact insert_item. Qed.
Print Assumptions C07_insert_item.

(* After stripping, no metadata node is left anywhere (so the stripped tree reports no
   dependency at all) -- while, by C07_strip, the markup is unchanged. *)
Theorem C07_stripped_is_meta_free :
  forall (M : Type) (l : list (node M)), forallb meta_free (strip_list l) = true.
Proof. intros M. exact strip_list_meta_free. Qed.
Print Assumptions C07_stripped_is_meta_free.

(* non-vacuity: a void tag whose only child is a metadata node stays self-closed, and a
   metadata node between text and a block tag changes nothing *)
Example C07_example :
  tag_html (M:=unit) 0 [10] (TagN [98;114] false [] [Meta tt]) = Ok [60;98;114;47;62]
  /\ tag_html (M:=unit) 1 [10] (TagN [100] true [] [Text [97]; Meta tt; TagN [112] true [] []])
     = tag_html (M:=unit) 1 [10] (TagN [100] true [] [Text [97]; TagN [112] true [] []]).
Proof. vm_compute. split; reflexivity. Qed.

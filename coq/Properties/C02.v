(* C02  Plain-text children are inert data.
   Statements only; proofs live in Proofs/.  Every theorem is closed by `exact` and
   followed by Print Assumptions. *)
From HT Require Import Model.Str Model.Escape Model.Tree Model.Render Gen.Tables
     Spec.CharMap Proofs.EscapeProofs Proofs.RenderContent.

(* The model of html_escape(text) -- regex fast path, then sequential str.replace over the
   regenerated HTML_ESCAPE_TABLE in source order -- is the per-character map of the
   statement: & < > become &amp; &lt; &gt;, every other code point is unchanged. *)
Theorem C02_escape_is_charmap :
  forall s : str, html_escape false s = flat_map esc_text_char s.
Proof. exact (escape_is_charmap false). Qed.
Print Assumptions C02_escape_is_charmap.

(* The escaped text contains neither < nor > (so it cannot open or close a tag, start a
   comment or a declaration) ... *)
Theorem C02_escape_inert_no_angle :
  forall s : str, ~ In 60 (html_escape false s) /\ ~ In 62 (html_escape false s).
Proof.
  intros s. rewrite escape_is_charmap.
  split; apply (none_of_In _ _ (text_no_lt_gt s)); cbn; tauto.
Qed.
Print Assumptions C02_escape_inert_no_angle.

(* ... and every & in it starts one of the three references produced by the map (so it
   cannot forge a character reference). *)
Theorem C02_escape_inert_amp :
  forall s : str, amp_ok text_refs (html_escape false s) = true.
Proof. intros s. rewrite escape_is_charmap. exact (text_amp_ok s). Qed.
Print Assumptions C02_escape_inert_amp.

(* Decoding the references gives back exactly the original characters. *)
Theorem C02_unescape_escape :
  forall s : str, unescape (html_escape false s) = s.
Proof. intros s. rewrite escape_is_charmap. exact (unescape_escape false s). Qed.
Print Assumptions C02_unescape_escape.

(* html_escape distributes over concatenation (used by C04). *)
Theorem C02_escape_app :
  forall a b : str, html_escape false (a ++ b) = html_escape false a ++ html_escape false b.
Proof. exact (escape_app false). Qed.
Print Assumptions C02_escape_app.

(* Every path of the renderer: the strings that a successful rendering writes through
   html_escape (the PTxt pieces, in output order) are exactly the plain-text leaves of the
   tree that are not direct children of a script/style tag, in document order -- whether a
   leaf is an only child (fast path), a first or a later sibling, after a block tag
   (indented) or not, at any depth.  So every such leaf goes through the map above. *)
Theorem C02_every_path :
  forall (M : Type) (n : node M) (i : nat) (eol : str) (ps : list piece),
    render_tag i eol n = Ok ps -> texts_of ps = escaped_text_leaves n.
Proof. intros M. exact text_pieces. Qed.
Print Assumptions C02_every_path.

(* The only elements whose direct text children are NOT escaped are script and style (raw
   text elements); every other element name is `ordinary` for this property.  Decided
   against the regenerated _NO_ESCAPE_TAG_NAMES. *)
Theorem C02_raw_text_elements :
  no_escape_names = [[115;99;114;105;112;116]; [115;116;121;108;101]].
Proof. reflexivity. Qed.
Print Assumptions C02_raw_text_elements.

(* non-vacuity / sanity: the map on a string with all three metacharacters *)
Example C02_example :
  html_escape false [60; 97; 38; 98; 62; 38] =
  [38;108;116;59; 97; 38;97;109;112;59; 98; 38;103;116;59; 38;97;109;112;59].
Proof. vm_compute. reflexivity. Qed.

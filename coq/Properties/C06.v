(* C06  Block layout follows the documented line and indentation rules. *)
From HT Require Import Model.Str Model.Tree Model.Render Spec.Layout Proofs.RenderLayout.

(* A validly nested tag (inline tags contain no block tag at any depth, every object is
   expanded) renders, for every indent and every eol string, exactly as the layout of the
   line structure `lines` of the specification: maximal runs of adjacent non-block children
   share one line, every block child has its own lines, children of a block tag are one
   level deeper, eol occurs only between lines. *)
Theorem C06_layout :
  forall (M : Type) (n : node M),
    is_tag n = true -> valid_nesting n = true ->
    forall (i : nat) (eol : str), tag_html i eol n = Ok (spec_tag_layout i eol n).
Proof. intros M. exact layout_tag. Qed.
Print Assumptions C06_layout.

(* the same for a top-level list rendered with add_ws = True *)
Theorem C06_layout_list :
  forall (M : Type) (l : list (node M)),
    forallb valid_nesting l = true ->
    forall (i : nat) (eol : str), list_html i eol true true l = Ok (spec_list_layout i eol l).
Proof. intros M. exact layout_list. Qed.
Print Assumptions C06_layout_list.

(* indentation: rendering k levels deeper prefixes every line with k indentation units and
   changes nothing else; the lines themselves do not depend on eol *)
Theorem C06_indent_shift :
  forall (M : Type) (n : node M),
    is_tag n = true -> valid_nesting n = true ->
    forall (i k : nat) (eol : str),
      tag_html i eol n = Ok (join eol (map (fmt i) (lines n)))
      /\ tag_html (i + k) eol n
         = Ok (join eol (map (fun s => indent_str k ++ s) (map (fmt i) (lines n)))).
Proof. intros M. exact tag_indent_shift. Qed.
Print Assumptions C06_indent_shift.

Theorem C06_indent_shift_list :
  forall (M : Type) (l : list (node M)),
    forallb valid_nesting l = true ->
    forall (i k : nat) (eol : str),
      list_html i eol true true l = Ok (join eol (map (fmt i) (body lines true None l)))
      /\ list_html (i + k) eol true true l
         = Ok (join eol (map (fun s => indent_str k ++ s)
                             (map (fmt i) (body lines true None l)))).
Proof. intros M. exact list_indent_shift. Qed.
Print Assumptions C06_indent_shift_list.

(* eol is only the separator: one list of lines serves every eol string *)
Theorem C06_eol :
  forall (M : Type) (n : node M),
    is_tag n = true -> valid_nesting n = true ->
    forall (i : nat), exists ls : list str, forall eol, tag_html i eol n = Ok (join eol ls).
Proof. intros M. exact layout_eol. Qed.
Print Assumptions C06_eol.

Example C06_example :
  tag_html (M:=unit) 1 [10]
    (TagN [100] true [] [Text [97]; TagN [98] false [] [Text [120]]; TagN [112] true [] []; Text [99]])
  = Ok (spec_tag_layout (M:=unit) 1 [10]
    (TagN [100] true [] [Text [97]; TagN [98] false [] [Text [120]]; TagN [112] true [] []; Text [99]])).
Proof. vm_compute. reflexivity. Qed.

(* non-vacuity: a block tag d whose children are a block p, then a run of two inline
   children (text a and an inline tag b), then a block q.  The tree is validly nested, the
   run shares one line between the lines of the two blocks, and the markup is
     <d>  /    <p></p>  /    a<b>x</b>  /    <q></q>  /  </d>      (each / an eol, indent 1) *)
Example C06_example_run :
  let t := TagN (M:=unit) [100] true []
             [TagN [112] true [] []; Text [97]; TagN [98] false [] [Text [120]];
              TagN [113] true [] []] in
  valid_nesting t = true
  /\ lines t = [(O, [60;100;62]); (1%nat, [60;112;62;60;47;112;62]);
                (1%nat, [97;60;98;62;120;60;47;98;62]); (1%nat, [60;113;62;60;47;113;62]);
                (O, [60;47;100;62])]
  /\ tag_html 1 [10] t
     = Ok ([32;32;60;100;62] ++ [10]
           ++ [32;32;32;32;60;112;62;60;47;112;62] ++ [10]
           ++ [32;32;32;32;97;60;98;62;120;60;47;98;62] ++ [10]
           ++ [32;32;32;32;60;113;62;60;47;113;62] ++ [10]
           ++ [32;32;60;47;100;62]).
Proof. vm_compute. repeat split; reflexivity. Qed.

(* C10  Dependencies are validated, then resolve one per name to the highest version.
   Statements only; proofs live in Proofs/DepsProofs.v.  Every theorem is closed by
   `exact` (or a few lines of glue) and followed by Print Assumptions.

   Model: Model/Deps.v (get_dependencies, collect, resolve = the dict loop of
   _resolve_dependencies, mk_dep = the argument checks of HTMLDependency.__init__,
   ver_cmp = packaging Version ordering on dotted release numbers).
   Spec: Spec/ResolveSpec.v (preorder, first_occ, is_rep, max_first, spec_resolve,
   well_formed, spec_error).
   Modelled, not verified: packaging.version.Version beyond dotted release numbers
   (epoch, pre/post/dev release, local version) and its string parser. *)
From HT Require Import Model.Str Model.Tree Model.Deps Spec.ResolveSpec Proofs.DepsProofs.

(* ---- collection ------------------------------------------------------------------- *)

(* The loop of get_dependencies visits the tree in document order at every nesting
   level: these equations determine collect on every forest.  A dependency node yields
   itself, an element yields what its children yield (any depth), everything else
   (text, HTML, objects that are not Tags) yields nothing, siblings concatenate in
   order; equivalently collect is the pre-order list of the dependency payloads. *)
From HT Require Gen.Tables.
Theorem C10_collect_preorder :
  (forall l1 l2, collect (l1 ++ l2) = collect l1 ++ collect l2) /\
  (forall name ws a kids, collect [TagN name ws a kids] = collect kids) /\
  (forall d, collect [Meta d] = [d]) /\
  (forall s, collect [Text s] = [] /\ collect [Html s] = [] /\ collect [Repr s] = []) /\
  (forall sh exp, collect [Custom sh exp] = []) /\
  (forall l, collect l = preorder l).
Proof.
  split; [exact collect_app|]. split; [exact collect_tag|].
  split; [reflexivity|]. split; [intros s; repeat split|].
  split; [reflexivity|exact collect_preorder].
Qed.
Print Assumptions C10_collect_preorder.

(* With dedup disabled nothing is dropped or reordered. *)
Theorem C10_nodedup_identity :
  forall l, get_dependencies false l = preorder l.
Proof. intros l. exact (get_dependencies_spec false l). Qed.
Print Assumptions C10_nodedup_identity.

(* What is reported depends only on the document-order sequence of dependency objects,
   not on where in the tree they sit (for the list form and for Tag.get_dependencies). *)
Theorem C10_position_independent :
  forall dedup l1 l2, preorder l1 = preorder l2 ->
    get_dependencies dedup l1 = get_dependencies dedup l2 /\
    forall n1 w1 a1 n2 w2 a2,
      tag_get_dependencies dedup (TagN n1 w1 a1 l1) = tag_get_dependencies dedup (TagN n2 w2 a2 l2).
Proof.
  intros dedup l1 l2 H. pose proof (position_independent dedup l1 l2 H) as E.
  split; [exact E|]. intros. cbn. rewrite E. reflexivity.
Qed.
Print Assumptions C10_position_independent.

(* The model (dict loop, recursion with dedup=False) computes the specification:
   pre-order collection followed by one earliest-maximal representative per name. *)
Theorem C10_get_dependencies_is_spec :
  forall dedup l, get_dependencies dedup l = spec_get_dependencies dedup l.
Proof. exact get_dependencies_spec. Qed.
Print Assumptions C10_get_dependencies_is_spec.

(* ---- resolution, for an abstract version order ------------------------------------- *)

(* For every order gtb that is the strict part of a total preorder, the dict loop yields
   names in first-occurrence order, each represented by the earliest element of maximal
   version, is idempotent and equals the executable specification. *)
Theorem C10_resolve_abstract :
  forall gtb, strict_weak_order gtb ->
  forall l,
    map dname (resolve_by gtb l) = first_occ (map dname l) /\
    (forall d, In d (resolve_by gtb l) -> is_rep gtb l d) /\
    resolve_by gtb (resolve_by gtb l) = resolve_by gtb l /\
    resolve_by gtb l = spec_resolve_by gtb l.
Proof.
  intros gtb [I [T C]] l. split; [apply resolve_names; assumption|].
  split; [apply resolve_is_rep; assumption|].
  split; [apply resolve_idempotent; assumption|apply resolve_is_spec; assumption].
Qed.
Print Assumptions C10_resolve_abstract.

(* the version order meets the hypothesis of C10_resolve_abstract (non-vacuity, and the
   instantiation used below) *)
Theorem C10_ver_order_laws : strict_weak_order ver_gtb.
Proof. exact ver_gtb_swo. Qed.
Print Assumptions C10_ver_order_laws.

(* ---- resolution, for the version order --------------------------------------------- *)

(* each name appears once *)
Theorem C10_unique_names : forall l, NoDup (map dname (resolve l)).
Proof. exact ver_resolve_unique. Qed.
Print Assumptions C10_unique_names.

(* names are ordered by first occurrence *)
Theorem C10_names_first_occurrence_order :
  forall l, map dname (resolve l) = first_occ (map dname l).
Proof. exact ver_resolve_names. Qed.
Print Assumptions C10_names_first_occurrence_order.

(* The representative of a name is an element of the input; no element of that name has
   a strictly greater version; and it sits at a position such that every element of
   that name before it is strictly smaller (the earliest on ties). *)
Theorem C10_max_earliest :
  forall l d, In d (resolve l) ->
    In d l /\
    (forall e, In e l -> dname e = dname d -> ver_cmp (dver e) (dver d) <> Gt) /\
    (exists l1 l2, l = l1 ++ d :: l2 /\
       (forall e, In e l1 -> dname e = dname d -> ver_cmp (dver e) (dver d) = Lt) /\
       (forall e, In e l2 -> dname e = dname d -> ver_cmp (dver e) (dver d) <> Gt)).
Proof. exact ver_max_earliest. Qed.
Print Assumptions C10_max_earliest.

(* nothing is lost: every name of the input is represented *)
Theorem C10_complete :
  forall l d, In d l -> exists r, In r (resolve l) /\ dname r = dname d.
Proof. exact ver_resolve_complete. Qed.
Print Assumptions C10_complete.

Theorem C10_idempotent : forall l, resolve (resolve l) = resolve l.
Proof. exact ver_resolve_idempotent. Qed.
Print Assumptions C10_idempotent.

(* a list without repeated names comes back unchanged (same objects, same order) *)
Theorem C10_resolve_nodup_unchanged :
  forall l, NoDup (map dname l) -> resolve l = l.
Proof. exact (resolve_nodup_id ver_gtb). Qed.
Print Assumptions C10_resolve_nodup_unchanged.

Theorem C10_resolve_is_spec : forall l, resolve l = spec_resolve l.
Proof. exact ver_resolve_is_spec. Qed.
Print Assumptions C10_resolve_is_spec.

(* ---- the version order -------------------------------------------------------------- *)

(* Version ordering is numeric per component and blind to trailing zeros, not the
   lexical order of the printed strings; it is a total preorder whose equivalence is
   equality up to trailing zeros. *)
Theorem C10_numeric :
  ver_cmp [1;9] [1;10] = Lt /\
  ver_cmp [1;10] [1;10;0] = Eq /\
  ver_cmp [2] [1;10;0] = Gt /\
  ver_cmp [0;0;1] [0] = Gt /\
  (* 1.9 vs 1.10 as strings compare the other way round *)
  lex_cmp [49;46;57] [49;46;49;48] = Gt /\
  (* 01.2 parses to the release (1, 2) *)
  parse_ver [48;49;46;50] = Some [1;2] /\
  (forall a, ver_cmp a a = Eq) /\
  (forall a b, ver_cmp b a = CompOpp (ver_cmp a b)) /\
  (forall a b c, ver_cmp a b <> Gt -> ver_cmp b c <> Gt -> ver_cmp a c <> Gt) /\
  (forall a b c, ver_cmp a b = Lt -> ver_cmp b c = Lt -> ver_cmp a c = Lt) /\
  (forall a b, ver_cmp a b = Eq <-> strip0 a = strip0 b) /\
  (forall a n, ver_cmp (a ++ repeat 0%N n) a = Eq) /\
  (forall a b, ver_gtb a b = true <-> ver_cmp a b = Gt).
Proof.
  repeat (split; [vm_compute; reflexivity|]).
  split; [exact ver_cmp_refl|]. split; [exact ver_cmp_antisym|].
  split; [exact ver_cmp_le_trans|]. split; [exact ver_cmp_lt_trans|].
  split; [exact ver_cmp_eq_iff|]. split; [exact ver_cmp_pad|].
  intros a b. unfold ver_gtb. destruct (ver_cmp a b); split; intros H; try reflexivity; discriminate.
Qed.
Print Assumptions C10_numeric.

(* ---- constructor validation --------------------------------------------------------- *)

(* The constructor succeeds exactly on well-formed arguments: source None or a dict
   with href or subdir; script / stylesheet / meta None, a dict, or an iterable of
   dicts, every dict having src / href / name and content. *)
Theorem C10_validation_iff :
  forall a, (exists o, mk_dep a = Ok o) <-> well_formed a.
Proof. exact mk_dep_ok. Qed.
Print Assumptions C10_validation_iff.

(* ... and otherwise raises the exception of the first offending argument (source,
   script, stylesheet, meta), first offending item: TypeError for a non-dict or a bad
   source, KeyError for a missing key. *)
Theorem C10_validation_error_kind :
  forall a, match mk_dep a with Ok _ => None | Err e => Some e end = spec_error a.
Proof. exact mk_dep_err. Qed.
Print Assumptions C10_validation_error_kind.

(* a single item and the one-element list of it give identical results *)
Theorem C10_single_eq_list :
  forall a k,
    mk_dep (set_script a (ADict k)) = mk_dep (set_script a (AIter [IDict k])) /\
    mk_dep (set_stylesheet a (ADict k)) = mk_dep (set_stylesheet a (AIter [IDict k])) /\
    mk_dep (set_meta a (ADict k)) = mk_dep (set_meta a (AIter [IDict k])).
Proof. exact single_eq_list. Qed.
Print Assumptions C10_single_eq_list.

(* ---- non-vacuity / sanity ------------------------------------------------------------ *)
Definition ex_a19  := mkdep [97] [1;9] 0.
Definition ex_a110 := mkdep [97] [1;10] 1.
Definition ex_a1100 := mkdep [97] [1;10;0] 2.
Definition ex_b1 := mkdep [98] [1] 3.
Definition ex_b10 := mkdep [98] [1;0] 4.
Definition ex_div (kids : list (node dep)) : node dep := TagN [100;105;118] true [] kids.

(* b first (first occurrence), a represented by 1.10 (not 1.9, and not the later equal
   1.10.0); b by the earlier of 1 and 1.0 *)
(* The key lists the constructor really checks, regenerated from the source of
   HTMLDependency.__init__ on every run, are the ones the model of the validation uses:
   script needs src; stylesheet needs href; meta needs name and content (in that order);
   a source needs href or subdir. *)
Theorem C10_required_keys_of_the_code :
  HT.Gen.Tables.dep_required_keys
  = [([115;99;114;105;112;116], [k_src]);
     ([115;116;121;108;101;115;104;101;101;116], [k_href]);
     ([109;101;116;97], [k_name; k_content])]
  /\ HT.Gen.Tables.dep_source_keys = [k_href; k_subdir].
Proof. split; reflexivity. Qed.
Print Assumptions C10_required_keys_of_the_code.

Example C10_example_resolve :
  get_dependencies true
    [ex_div [Meta ex_b1; ex_div [Text [120]; Meta ex_a19]]; Meta ex_a110;
     ex_div [ex_div [Meta ex_a1100; Meta ex_b10]]; Custom None [Meta ex_a1100]]
  = [ex_b1; ex_a110].
Proof. vm_compute. reflexivity. Qed.

(* hypothesis of C10_position_independent: two different forests, same document order *)
Example C10_example_position :
  preorder [ex_div [Meta ex_a19; ex_div [Meta ex_b1]]; Meta ex_a110]
  = preorder [Meta ex_a19; Meta ex_b1; ex_div [ex_div [Meta ex_a110]]].
Proof. vm_compute. reflexivity. Qed.

(* hypothesis of C10_max_earliest / C10_complete: a non-empty resolution *)
Example C10_example_in :
  In ex_a110 (resolve [ex_a19; ex_b1; ex_a110; ex_a1100]).
Proof. vm_compute. left. reflexivity. Qed.

(* hypothesis of C10_resolve_nodup_unchanged *)
Example C10_example_nodup :
  resolve [ex_b10; ex_a19] = [ex_b10; ex_a19].
Proof. vm_compute. reflexivity. Qed.

(* validation: a good argument set, and one rejected with KeyError (meta without content) *)
Example C10_example_validation :
  (exists o, mk_dep (mkargs [97] [1] (SrcDict [k_subdir]) (ADict [k_src]) (AIter [IDict [k_href]])
                            (ADict [k_name; k_content])) = Ok o) /\
  mk_dep (mkargs [97] [1] SrcNone ANone ANone (AIter [IDict [k_name; k_content]; IDict [k_name]]))
    = Err KeyError /\
  mk_dep (mkargs [97] [1] (SrcDict []) (AIter [INonDict]) ANone ANone) = Err TypeError /\
  (* a str is iterated per character: the empty string passes, any other is a TypeError *)
  (exists o, mk_dep (mkargs [97] [1] SrcNone (AIter []) ANone ANone) = Ok o) /\
  mk_dep (mkargs [97] [1] SrcNone (AIter [INonDict; INonDict]) ANone ANone) = Err TypeError.
Proof. vm_compute. repeat split; try reflexivity; eexists; reflexivity. Qed.

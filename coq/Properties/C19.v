(* C19  Every tag function creates its own element with the documented default.
   Finite statements over the tables regenerated from tags.py / svg.py / __init__.py /
   scripts/generate_tags.py on every run, decided by computation in the kernel and lifted
   to universally quantified form. *)
From HT Require Import Model.Str Model.Tree Gen.Tables Model.TagTable Model.Attrs Model.TagCtor.

Lemma forallb_In {A} (f : A -> bool) l : forallb f l = true -> forall x, In x l -> f x = true.
Proof. intros H x Hx. rewrite forallb_forall in H. exact (H x Hx). Qed.

(* every def of htmltools/tags.py has exactly the pass-through shape (signature: star-args,
   keyword-only _add_ws with a bool default, star-star-kwargs; body: return Tag of the name
   literal, the star-args, _add_ws=_add_ws and the kwargs), with its own name as element
   name and the documented default *)
Theorem C19_html : forall r, In r html_tag_rows -> row_ok r = true.
Proof. apply forallb_In. vm_compute. reflexivity. Qed.
Print Assumptions C19_html.

Theorem C19_svg : forall r, In r svg_tag_rows -> row_ok r = true.
Proof. apply forallb_In. vm_compute. reflexivity. Qed.
Print Assumptions C19_svg.

(* 113 HTML and 66 SVG functions, no name defined twice, nothing else in the modules *)
Theorem C19_counts :
  length html_tag_rows = 113%nat /\ length svg_tag_rows = 66%nat
  /\ nodup_str (map row_fname html_tag_rows) = true
  /\ nodup_str (map row_fname svg_tag_rows) = true
  /\ tables_recognised = true.
Proof. vm_compute. repeat split; reflexivity. Qed.
Print Assumptions C19_counts.

(* the 17 top-level shortcuts are the functions of htmltools.tags *)
Theorem C19_toplevel : length init_from_tags = 17%nat /\ toplevel_ok = true.
Proof. vm_compute. split; reflexivity. Qed.
Print Assumptions C19_toplevel.

(* Pass-through: for every row of either table (conforming shape, C19_html / C19_svg), the
   wrapper called without _add_ws is the Tag constructor applied to the function's own name
   with the documented default, whatever the children, attribute dicts and keyword
   attributes are (so the C14 / C15 theorems about the constructor apply to all 179
   functions); an explicit _add_ws is honoured; a non-bool _add_ws is rejected with
   TypeError before anything else. *)
Theorem C19_passthrough :
  forall (C : Type) (r : row), In r (html_tag_rows ++ svg_tag_rows) ->
  forall (args : list (posarg C)) (kw : pydict),
    wrapper r args None kw
    = tag_ctor (row_fname r) args (WBool (documented_default (row_fname r))) kw
    /\ (forall b, wrapper r args (Some (WBool b)) kw = tag_ctor (row_fname r) args (WBool b) kw)
    /\ wrapper r args (Some WOther) kw = Err TypeError.
Proof.
  intros C r Hin args kw.
  assert (row_ok r = true) as Hok.
  { apply in_app_or in Hin as [H|H]; [exact (C19_html r H) | exact (C19_svg r H)]. }
  unfold row_ok in Hok. apply andb_true_iff in Hok as [Hok Hd]. apply andb_true_iff in Hok as [Hn _].
  assert (row_fname r = row_elem r) as E.
  { clear -Hn. revert Hn. generalize (row_fname r) (row_elem r).
    intros a0. induction a0 as [|x l IH]; intros [|y l']; cbn; try discriminate; [reflexivity|].
    intros H. apply andb_true_iff in H as [H1 H2]. apply N.eqb_eq in H1. subst.
    f_equal. apply IH, H2. }
  apply Bool.eqb_prop in Hd.
  unfold wrapper. rewrite <- E, Hd, E. repeat split; reflexivity.
Qed.
Print Assumptions C19_passthrough.

(* the documented default is block for div and inline for span, label, select, textPath's
   siblings a and svg: the classification is not constant *)
Example C19_examples :
  documented_default [100;105;118] = true /\ documented_default [115;112;97;110] = false
  /\ documented_default [108;97;98;101;108] = false /\ documented_default [115;118;103] = false.
Proof. vm_compute. repeat split; reflexivity. Qed.

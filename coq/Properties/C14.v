(* C14  Child lists hold only normalised nodes after any sequence of operations.
   Statements only; proofs live in Proofs/TagListOpsProofs.v.

   Version for the REPAIRED tree (TagList.__iadd__ delegating to extend, int in the
   isinstance tuple of is_tag_child): the two repair flags of Model/TagListOps.v are true,
   and every statement below is the full-strength one.  The `eq_refl` arguments are the
   proofs that the flags are true; they do not typecheck on the unrepaired model. *)
From Coq Require Import ZArith.
From HT Require Import Model.Str Model.Tree Model.TagListOps Spec.FlattenSpec
     Proofs.TagListOpsProofs.

(* flatten + _tagchilds_to_tagnodes = the depth-first, left-to-right flattening of the
   property text: lists, tuples, TagLists spliced, None dropped, numbers to their str()
   text, strings whole, anything unsupported TypeError -- for an argument tuple ...      *)
Theorem C14_flatten :
  forall args : list pyval,
    tagchilds_of_items args = res_map embed (flat_spec args).
Proof. exact flatten_correct. Qed.
Print Assumptions C14_flatten.

(* ... and for one argument in the iterable position of extend / += (a str is one item; an
   HTML value iterates per character; None, numbers and other objects are not iterable). *)
Theorem C14_flatten_iterable :
  forall x : pyval,
    tagchilds_to_tagnodes x = res_map embed (flat_iterable x).
Proof. exact tagchilds_iterable_correct. Qed.
Print Assumptions C14_flatten_iterable.

(* Every operation (construct, append, extend, insert, +, reflected +, +=, slice,
   repetition, in-place repetition, copy), on a receiver holding the normalised children
   ns, leaves the receiver object and the resulting list exactly as the declarative
   description op_spec says:
   construct = flat_spec args; append = ns ++ flat_spec (item :: args);
   extend / + / += = ns ++ flat_spec (items of the argument); reflected + = the same in
   front; insert = firstn k ns ++ flat_spec [item] ++ skipn k ns with k the clamped index;
   slice = firstn (hi - lo) (skipn lo ns); repetition = ns n times; the operators that
   return a new list leave the receiver as it was. *)
Theorem C14_ops :
  forall (o : op) (ns : list node),
    exec_op o (embed ns) =
    (embed (if in_place o then step_spec ns o else ns), res_map embed (op_spec o ns)).
Proof.
  intros o ns. apply exec_op_correct. exact (op_ok_one eq_refl o).
Qed.
Print Assumptions C14_ops.

(* Any history from the empty list: the children are the declarative fold of the supplied
   arguments. *)
Theorem C14_history :
  forall ops : list op, run_ops ops [] = embed (run_spec ops []).
Proof. intros ops. apply (run_ops_correct ops []). exact (op_ok_all eq_refl ops). Qed.
Print Assumptions C14_history.

(* After any history every stored element is a str, an HTML or a node object -- never a
   number, None, a list, a tuple, a TagList or an unsupported object. *)
Theorem C14_invariant :
  forall ops : list op, forallb is_stored_node (run_ops ops []) = true.
Proof. intros ops. apply invariant_gen. exact (op_ok_all eq_refl ops). Qed.
Print Assumptions C14_invariant.

(* An operation that raises leaves the receiver unchanged (all operations, on any state),
   the history continues from the old list, the operators returning a new list never touch
   the receiver, and the exception of an unsupported argument is TypeError (the only other
   one in scope is ValueError for a zero slice step). *)
Theorem C14_atomic :
  (forall (o : op) (st : state) (e : err),
      snd (exec_op o st) = Err e -> fst (exec_op o st) = st /\ step st o = st)
  /\ (forall (o : op) (st : state), in_place o = false -> fst (exec_op o st) = st)
  /\ (forall (o : op) (ns : list node) (e : err),
         op_spec o ns = Err e ->
         e = TypeError \/ (e = ValueError /\ exists a b, o = OSlice a b (Some 0%Z))).
Proof.
  split; [|split].
  - intros o st e H. split; [eapply atomic | eapply atomic_step]; exact H.
  - exact pure_ops.
  - exact spec_errors.
Qed.
Print Assumptions C14_atomic.

(* is_tag_child accepts every value the operations accept, in element position and in the
   iterable position. *)
Theorem C14_is_child_complete :
  (forall x : pyval, flat_spec [x] <> Err TypeError -> is_tag_child x = true)
  /\ (forall x : pyval, (exists its, as_iterable x = Ok its) -> is_tag_child x = true).
Proof.
  split.
  - intros x. apply is_child_complete_gen. right. reflexivity.
  - exact is_child_iterable.
Qed.
Print Assumptions C14_is_child_complete.

(* is_tag_node holds of every element the normalisation produces, and of every stored
   element after any history. *)
Theorem C14_is_node :
  (forall (args : list pyval) (ns : list node),
      flat_spec args = Ok ns ->
      forallb is_tag_node (embed ns) = true /\ forallb is_stored_node (embed ns) = true)
  /\ (forall ops : list op, forallb is_tag_node (run_ops ops []) = true).
Proof.
  split.
  - intros args ns H. split; [eapply is_node_spec | eapply stored_spec]; exact H.
  - intros ops. apply is_node_gen. exact (op_ok_all eq_refl ops).
Qed.
Print Assumptions C14_is_node.

(* non-vacuity: concrete instances meeting the hypotheses *)

(* TagList(a, [1, (None, HTML(b))], True) ; .insert(-1, [2.5]) ; append(object()) raises ;
   + (tag7,) ; += [3, None] ; [1:] ; * 2 *)
Example C14_example_history :
  let ops := [OConstruct [PStr [97]; PList [PInt [49]; PTuple [PNone; PHtml [98]]]; PBool true];
              OInsert (-1) (PList [PFloat [50; 46; 53]]);
              OAppend (PBad 3) [];
              OAdd (PTuple [PNodeTag 7]);
              OIadd (PList [PInt [51]; PNone]);
              OIadd (PList [PList [PBad 0]]);
              OSlice (Some 1%Z) None None;
              OMul 2] in
  run_ops ops [] =
  [PStr [49]; PHtml [98]; PStr [50; 46; 53]; PStr [84; 114; 117; 101]; PNodeTag 7; PStr [51];
   PStr [49]; PHtml [98]; PStr [50; 46; 53]; PStr [84; 114; 117; 101]; PNodeTag 7; PStr [51]].
Proof. vm_compute. reflexivity. Qed.

Example C14_example_atomic :
  snd (exec_op (OIadd (PList [PStr [97]; PList [PBad 1]])) [PStr [98]]) = Err TypeError.
Proof. vm_compute. reflexivity. Qed.

Example C14_example_child :
  flat_spec [PInt [51]] <> Err TypeError /\ flat_spec [PList [PBool true]] <> Err TypeError.
Proof. vm_compute. split; discriminate. Qed.

(* C14  Child lists hold only normalised nodes after any sequence of operations.
   Statements only; proofs live in Proofs/TagListOpsProofs.v.

   THIS FILE DESCRIBES THE UNREPAIRED TREE: the model (Model/TagListOps.v) follows the
   code, in which += is the inherited collections.UserList.__iadd__ (finding F4) and the
   isinstance tuple of is_tag_child has no int (finding F5).  The statements the property
   demands are therefore split into the part that holds (suffix _partial, with the missing
   part named in the comment) and a machine-checked counterexample (suffix _refuted).
   The full-strength statements for the repaired code are in Properties/C14.postfix (same
   lemmas, instantiated with the two repair flags of the model set to true). *)
From Coq Require Import ZArith.
From HT Require Import Model.Str Model.Tree Model.TagListOps Spec.FlattenSpec
     Proofs.TagListOpsProofs.

(* ---------------------------------------------------------------------------------- *)
(* flatten + _tagchilds_to_tagnodes = the depth-first, left-to-right flattening of the
   property text: lists, tuples, TagLists spliced, None dropped, numbers to their str()
   text, strings whole, anything unsupported TypeError -- for an argument tuple ...      *)
Theorem C14_flatten :
  forall args : list pyval,
    tagchilds_of_items args = res_map embed (flat_spec args).
Proof. exact flatten_correct. Qed.
Print Assumptions C14_flatten.

(* ... and for one argument in the iterable position of extend (a str is one item; an HTML
   value iterates per character; None, numbers and other objects are not iterable). *)
Theorem C14_flatten_iterable :
  forall x : pyval,
    tagchilds_to_tagnodes x = res_map embed (flat_iterable x).
Proof. exact tagchilds_iterable_correct. Qed.
Print Assumptions C14_flatten_iterable.

(* ---------------------------------------------------------------------------------- *)
(* Every operation, on a receiver holding the normalised children ns, leaves the receiver
   object and the resulting list exactly as the declarative description op_spec says:
   construct = flat_spec args; append = ns ++ flat_spec (item :: args);
   extend / + = ns ++ flat_spec (items of the argument); reflected + = the same in front;
   insert = firstn k ns ++ flat_spec [item] ++ skipn k ns with k the clamped index;
   slice = firstn (hi - lo) (skipn lo ns); repetition = ns n times; the operators that
   return a new list leave the receiver as it was.
   PARTIAL: all operations except += (op_ok excludes exactly OIadd on the unrepaired
   tree); for += the statement is false, see C14_ops_iadd_refuted. *)
Theorem C14_ops_partial :
  forall (o : op) (ns : list node),
    is_iadd o = false ->
    exec_op o (embed ns) =
    (embed (if in_place o then step_spec ns o else ns), res_map embed (op_spec o ns)).
Proof.
  intros o ns H. apply exec_op_correct. unfold op_ok. now rewrite H.
Qed.
Print Assumptions C14_ops_partial.

(* F4: tl = TagList(a); tl += [1, None, [2], object()] stores the raw values and raises
   nothing, where the property demands TypeError and an unchanged list. *)
Theorem C14_ops_iadd_refuted :
  exists (ns : list node) (other : pyval),
    snd (exec_op (OIadd other) (embed ns)) <> res_map embed (op_spec (OIadd other) ns)
    /\ fst (exec_op (OIadd other) (embed ns)) <> embed ns
    /\ op_spec (OIadd other) ns = Err TypeError.
Proof.
  exists [NText [97]], (PList [PInt [49]; PNone; PList [PInt [50]]; PBad 0]).
  vm_compute. repeat split; discriminate.
Qed.
Print Assumptions C14_ops_iadd_refuted.

(* F4, second face: tl += xy (a str) stores one child per character although strings are
   to be kept whole (extend and + special-case str, the inherited += does not). *)
Theorem C14_ops_iadd_splits_str_refuted :
  exists (ns : list node) (s : str),
    snd (exec_op (OIadd (PStr s)) (embed ns)) = Ok (embed (ns ++ [NText [120]; NText [121]]))
    /\ op_spec (OIadd (PStr s)) ns = Ok (ns ++ [NText [120; 121]]).
Proof. exists [NText [97]], [120; 121]. vm_compute. split; reflexivity. Qed.
Print Assumptions C14_ops_iadd_splits_str_refuted.

(* Any history from the empty list: the children are the declarative fold of the supplied
   arguments.  PARTIAL: histories without +=. *)
Theorem C14_history_partial :
  forall ops : list op,
    forallb (fun o => negb (is_iadd o)) ops = true ->
    run_ops ops [] = embed (run_spec ops []).
Proof. intros ops H. apply (run_ops_correct ops []). now apply op_ok_noiadd. Qed.
Print Assumptions C14_history_partial.

(* ---------------------------------------------------------------------------------- *)
(* After any history every stored element is a str, an HTML or a node object -- never a
   number, None, a list, a tuple, a TagList or an unsupported object.
   PARTIAL: histories without +=. *)
Theorem C14_invariant_partial :
  forall ops : list op,
    forallb (fun o => negb (is_iadd o)) ops = true ->
    forallb is_stored_node (run_ops ops []) = true.
Proof. intros ops H. apply invariant_gen. now apply op_ok_noiadd. Qed.
Print Assumptions C14_invariant_partial.

Theorem C14_invariant_refuted :
  exists ops : list op, forallb is_stored_node (run_ops ops []) = false.
Proof.
  exists [OConstruct [PStr [97]]; OIadd (PList [PInt [49]; PNone; PList [PInt [50]]; PBad 0])].
  vm_compute. reflexivity.
Qed.
Print Assumptions C14_invariant_refuted.

(* ---------------------------------------------------------------------------------- *)
(* An operation that raises leaves the receiver unchanged (all operations, += included,
   on any state), the history continues from the old list, the operators returning a new
   list never touch the receiver, and the exception of an unsupported argument is
   TypeError (the only other one in scope is ValueError for a zero slice step). *)
Theorem C14_atomic :
  (forall (o : op) (st : state) (e : err),
      snd (exec_op o st) = Err e -> fst (exec_op o st) = st /\ step st o = st)
  /\ (forall (o : op) (st : state), in_place o = false -> fst (exec_op o st) = st)
  /\ (forall (o : op) (ns : list node) (e : err),
         op_spec o ns = Err e ->
         e = TypeError \/ (e = ValueError /\ exists a b, o = OSlice a b (Some 0%Z))).
Proof.
  split; [|split].
  - intros o st e H. split; [eapply atomic | eapply atomic_step]; exact H.
  - exact pure_ops.
  - exact spec_errors.
Qed.
Print Assumptions C14_atomic.

(* ---------------------------------------------------------------------------------- *)
(* is_tag_child accepts every value the operations accept.
   PARTIAL: every value except int and bool; for those see the refutation (F5).
   Also: whatever is accepted in the iterable position is accepted by is_tag_child. *)
Theorem C14_is_child_complete_partial :
  (forall x : pyval,
      is_int_like x = false -> flat_spec [x] <> Err TypeError -> is_tag_child x = true)
  /\ (forall x : pyval, (exists its, as_iterable x = Ok its) -> is_tag_child x = true).
Proof.
  split.
  - intros x H. apply is_child_complete_gen. now left.
  - exact is_child_iterable.
Qed.
Print Assumptions C14_is_child_complete_partial.

(* F5: TagList(3) is accepted (child 3 as text) but is_tag_child(3) is False; the same for
   True / False. *)
Theorem C14_is_child_complete_refuted :
  exists x : pyval, flat_spec [x] = Ok [NText [51]] /\ is_tag_child x = false.
Proof. exists (PInt [51]). vm_compute. split; reflexivity. Qed.
Print Assumptions C14_is_child_complete_refuted.

(* ---------------------------------------------------------------------------------- *)
(* is_tag_node holds of every element the normalisation produces, and of every stored
   element after any history (PARTIAL for the history form: histories without +=). *)
Theorem C14_is_node :
  forall (args : list pyval) (ns : list node),
    flat_spec args = Ok ns ->
    forallb is_tag_node (embed ns) = true /\ forallb is_stored_node (embed ns) = true.
Proof. intros args ns H. split; [eapply is_node_spec | eapply stored_spec]; exact H. Qed.
Print Assumptions C14_is_node.

Theorem C14_is_node_history_partial :
  forall ops : list op,
    forallb (fun o => negb (is_iadd o)) ops = true ->
    forallb is_tag_node (run_ops ops []) = true.
Proof. intros ops H. apply is_node_gen. now apply op_ok_noiadd. Qed.
Print Assumptions C14_is_node_history_partial.

(* ---------------------------------------------------------------------------------- *)
(* non-vacuity: concrete instances meeting the hypotheses *)

(* TagList(a, [1, (None, HTML(b))], True) ; .insert(-1, [2.5]) ; + (tag7,) ; [1:] ; * 2 *)
Example C14_example_history :
  let ops := [OConstruct [PStr [97]; PList [PInt [49]; PTuple [PNone; PHtml [98]]]; PBool true];
              OInsert (-1) (PList [PFloat [50; 46; 53]]);
              OAppend (PBad 3) [];
              OAdd (PTuple [PNodeTag 7]);
              OSlice (Some 1%Z) None None;
              OMul 2] in
  forallb (fun o => negb (is_iadd o)) ops = true /\
  run_ops ops [] =
  [PStr [49]; PHtml [98]; PStr [50; 46; 53]; PStr [84; 114; 117; 101]; PNodeTag 7;
   PStr [49]; PHtml [98]; PStr [50; 46; 53]; PStr [84; 114; 117; 101]; PNodeTag 7].
Proof. vm_compute. split; reflexivity. Qed.

Example C14_example_atomic :
  snd (exec_op (OExtend (PList [PStr [97]; PList [PBad 1]])) [PStr [98]]) = Err TypeError.
Proof. vm_compute. reflexivity. Qed.

Example C14_example_child :
  is_int_like (PList [PInt [51]]) = false /\ flat_spec [PList [PInt [51]]] <> Err TypeError.
Proof. vm_compute. split; [reflexivity | discriminate]. Qed.

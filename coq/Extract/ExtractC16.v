From Coq Require Extraction.
From Coq Require Import ExtrOcamlBasic.
From HT Require Import Model.DriverC16.
Extraction Language OCaml.
Extraction "../ocaml/model_c16.ml" run_c16.

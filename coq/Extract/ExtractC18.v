From Coq Require Extraction.
From Coq Require Import ExtrOcamlBasic.
From HT Require Import Model.DriverC18.
Extraction Language OCaml.
Extraction "../ocaml/model_c18.ml" run_c18.

From Coq Require Extraction.
From Coq Require Import ExtrOcamlBasic.
From HT Require Import Model.DriverC11.
Extraction Language OCaml.
Extraction "../ocaml/model_c11.ml" run_c11.

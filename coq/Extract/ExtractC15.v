From Coq Require Extraction.
From Coq Require Import ExtrOcamlBasic.
From HT Require Import Model.DriverC15.
Extraction Language OCaml.
Extraction "../ocaml/model_c15.ml" run_c15.

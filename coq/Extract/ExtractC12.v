From Coq Require Extraction.
From Coq Require Import ExtrOcamlBasic.
From HT Require Import Model.DriverC12.
Extraction Language OCaml.
Extraction "../ocaml/model_c12.ml" run_c12.

From Coq Require Extraction.
From Coq Require Import ExtrOcamlBasic.
From HT Require Import Model.Driver.
Extraction Language OCaml.
Extraction "../ocaml/model_core.ml" run.

From Coq Require Extraction.
From Coq Require Import ExtrOcamlBasic.
From HT Require Import Model.DriverC13.
Extraction Language OCaml.
Extraction "../ocaml/model_c13.ml" run_c13.

From Coq Require Extraction.
From Coq Require Import ExtrOcamlBasic.
From HT Require Import Model.DriverDepTags.
Extraction Language OCaml.
Extraction "../ocaml/model_deptags.ml" run_deptags.

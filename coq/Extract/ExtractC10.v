From Coq Require Extraction.
From Coq Require Import ExtrOcamlBasic.
From HT Require Import Model.DriverC10.
Extraction Language OCaml.
Extraction "../ocaml/model_c10.ml" run_c10.

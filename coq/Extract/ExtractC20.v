From Coq Require Extraction.
From Coq Require Import ExtrOcamlBasic.
From HT Require Import Model.DriverC20.
Extraction Language OCaml.
Extraction "../ocaml/model_c20.ml" run_c20.

From Coq Require Extraction.
From Coq Require Import ExtrOcamlBasic.
From HT Require Import Model.DriverC08.
Extraction Language OCaml.
Extraction "../ocaml/model_c08.ml" run_c08.

From Coq Require Extraction.
From Coq Require Import ExtrOcamlBasic.
From HT Require Import Model.DriverC17.
Extraction Language OCaml.
Extraction "../ocaml/model_c17.ml" run_c17.

From Coq Require Extraction.
From Coq Require Import ExtrOcamlBasic.
From HT Require Import Model.DriverC03.
Extraction Language OCaml.
Extraction "../ocaml/model_c03.ml" run_c03.

From Coq Require Extraction.
From Coq Require Import ExtrOcamlBasic.
From HT Require Import Model.DriverC14.
Extraction Language OCaml.
Extraction "../ocaml/model_c14.ml" run_c14.

(* C10: the declarative side.  What the property text talks about, written without
   reference to how the code computes it (no dict, no accumulator loop):
     - document order of the dependency payloads of a tree,
     - first-occurrence order of names,
     - the earliest element of maximal version among those of one name,
     - which constructor arguments are well formed. *)
From HT Require Import Model.Str Model.Tree Model.Deps.

(* ---- document (pre-)order of the dependency objects of a forest --------------------- *)
(* Only element nodes are descended into; a dependency counts once per placement. *)
Fixpoint metas_of (n : node dep) : list dep :=
  match n with
  | Meta d => [d]
  | TagN _ _ _ kids => flat_map metas_of kids
  | _ => []
  end.
Definition preorder (l : list (node dep)) : list dep := flat_map metas_of l.

(* ---- names in order of first occurrence --------------------------------------------- *)
Fixpoint first_occ (l : list str) : list str :=
  match l with
  | [] => []
  | x :: l' => x :: filter (fun y => negb (str_eqb x y)) (first_occ l')
  end.

(* the elements called n, in their original order *)
Definition named (n : str) (l : list dep) : list dep :=
  filter (fun d => str_eqb (dname d) n) l.

Section Order.
  (* gtb a b : version a is strictly greater than version b *)
  Variable gtb : list N -> list N -> bool.

  (* gtb is the strict part of a total preorder (a strict weak order) *)
  Definition strict_weak_order : Prop :=
    (forall a, gtb a a = false) /\
    (forall a b c, gtb a b = true -> gtb b c = true -> gtb a c = true) /\
    (forall a b c, gtb a c = true -> gtb a b = true \/ gtb b c = true).

  (* d represents its name in l: it sits at some position of l, everything of the same
     name before that position is strictly smaller, nothing of the same name after it is
     strictly greater.  (So d is an element of maximal version, and the earliest such.) *)
  Definition is_rep (l : list dep) (d : dep) : Prop :=
    exists l1 l2, l = l1 ++ d :: l2 /\
      (forall e, In e l1 -> dname e = dname d -> gtb (dver d) (dver e) = true) /\
      (forall e, In e l2 -> dname e = dname d -> gtb (dver e) (dver d) = false).

  (* the earliest element of maximal version: d wins unless something later is strictly
     greater *)
  Fixpoint max_first (l : list dep) : option dep :=
    match l with
    | [] => None
    | d :: l' => match max_first l' with
                 | None => Some d
                 | Some m => if gtb (dver m) (dver d) then Some m else Some d
                 end
    end.

  (* executable specification of the resolution: one representative per name, names in
     first-occurrence order *)
  Definition spec_resolve_by (l : list dep) : list dep :=
    flat_map (fun n => match max_first (named n l) with Some d => [d] | None => [] end)
             (first_occ (map dname l)).
End Order.

Definition spec_resolve (l : list dep) : list dep := spec_resolve_by ver_gtb l.

Definition spec_get_dependencies (dedup : bool) (l : list (node dep)) : list dep :=
  if dedup then spec_resolve (preorder l) else preorder l.

(* ---- well-formed constructor arguments ----------------------------------------------- *)
(* an item is a dict that has every required key *)
Definition item_ok (req : list str) (it : item) : Prop :=
  match it with
  | IDict keys => forall a, In a req -> In a keys
  | INonDict => False
  end.

(* None, a single good dict, or an iterable of good dicts *)
Definition arg_ok (req : list str) (a : arg) : Prop :=
  match a with
  | ANone => True
  | ADict k => item_ok req (IDict k)
  | AIter l => Forall (item_ok req) l
  | ANonIter => False
  end.

(* None, or a dict with href or subdir *)
Definition source_ok (s : src_arg) : Prop :=
  match s with
  | SrcNone => True
  | SrcNonDict => False
  | SrcDict keys => In k_href keys \/ In k_subdir keys
  end.

Definition well_formed (a : dep_args) : Prop :=
  source_ok (a_source a) /\
  arg_ok [k_src] (a_script a) /\
  arg_ok [k_href] (a_stylesheet a) /\
  arg_ok [k_name; k_content] (a_meta a).

(* which exception a malformed argument set is rejected with: the first offending
   argument in the order source, script, stylesheet, meta; inside an iterable the first
   offending item; a non-dict is a TypeError, a missing key a KeyError (a bad source is
   always a TypeError) *)
Definition item_err (req : list str) (it : item) : option err :=
  match it with
  | INonDict => Some TypeError
  | IDict keys => if forallb (fun a => mem_str a keys) req then None else Some KeyError
  end.
Fixpoint first_some {T} (l : list (option T)) : option T :=
  match l with
  | [] => None
  | Some x :: _ => Some x
  | None :: l' => first_some l'
  end.
Definition arg_err (req : list str) (a : arg) : option err :=
  match a with
  | ANone => None
  | ADict k => item_err req (IDict k)
  | AIter l => first_some (map (item_err req) l)
  | ANonIter => Some TypeError
  end.
Definition source_err (s : src_arg) : option err :=
  match s with
  | SrcNone => None
  | SrcNonDict => Some TypeError
  | SrcDict keys => if mem_str k_href keys || mem_str k_subdir keys then None else Some TypeError
  end.
Definition spec_error (a : dep_args) : option err :=
  first_some [source_err (a_source a); arg_err [k_src] (a_script a);
              arg_err [k_href] (a_stylesheet a); arg_err [k_name; k_content] (a_meta a)].

(* C12: the vocabulary of the property statement, independent of how the model computes.
   - quoted_wf: a string made only of safe characters and %XX triples with upper-case hex;
   - the domain of the agreement theorem: what a dependency name / version / libdir
     component and a relative, normalised file path are. *)
From HT Require Import Model.Str Model.Paths.

(* one upper-case hexadecimal digit *)
Definition uhex (c : N) : bool := in_rng 48 57 c || in_rng 65 70 c.

(* the output alphabet of quote: safe characters (letters, digits, _ . - ~ and slash) and
   percent followed by exactly two upper-case hex digits *)
Fixpoint quoted_wf (s : str) : bool :=
  match s with
  | [] => true
  | c :: r =>
    if c =? 37 then
      match r with
      | h1 :: h2 :: r2 => uhex h1 && uhex h2 && quoted_wf r2
      | _ => false
      end
    else safe c && quoted_wf r
  end.

(* characters of dependency names, versions and libdir components: the always-safe set plus
   + and ! (which str(Version) can print).  None of them is percent or slash, so such text
   needs no quoting -- and gets none: the code quotes only the file path. *)
Definition seg_char (c : N) : bool := always_safe c || (c =? 43) || (c =? 33).

(* one directory-name component: not empty, not dot, not dot-dot *)
Definition real_seg (s : str) : bool := keep_seg s && negb (str_eqb s [46; 46]).
Definition plain_seg (s : str) : bool := forallb seg_char s && real_seg s.

(* one component of a relative, normalised file path: any scalar values except slash *)
Definition file_seg (s : str) : bool :=
  forallb scalar s && negb (existsb (N.eqb 47) s) && real_seg s.

(* libdir / lib_prefix: None, empty, or plain components separated by single slashes *)
Definition libdir_ok (libdir : option str) : bool :=
  match truthy libdir with
  | None => true
  | Some l => negb (starts_with_slash l) && negb (ends_with_slash l)
              && forallb plain_seg (split_on 47 l)
  end.
Definition libsegs (libdir : option str) : path :=
  match truthy libdir with None => [] | Some l => split_on 47 l end.

(* a' is a without its trailing slash, if it has one (and a is not empty) *)
Definition sans_slash (a a' : str) : Prop :=
  (a = a' /\ a' <> [] /\ ends_with_slash a' = false) \/ a = a' ++ [47].

(* Specification side of C20: a small JavaScript expression AST with a printer, the map from
   component trees to it, the JavaScript string-literal reader, and the declarative readings
   of the walk (expansion of tagifiable objects, pre-order list of metadata nodes).
   Nothing here calls the model's walk / render functions; only the data types, the string
   constants and the CSS declaration parser of Model/Jsx.v are shared. *)
From HT Require Import Model.Str Model.Tree Model.Jsx.

(* ---- the AST -------------------------------------------------------------------------- *)
(* JsSkip stands in a child position occupied by a metadata node: it denotes no expression
   and prints nothing (not even a separator), but it keeps the child list non-empty, which
   the layout reads. *)
Inductive js :=
| JsSkip
| JsNull
| JsBool (b : bool)
| JsNum (s : str)                 (* a numeric literal, written as given *)
| JsStr (s : str)                 (* a string literal DENOTING s *)
| JsRaw (s : str)                 (* an expression written as given: jsx(...) *)
| JsArr (l : list js)
| JsObj (kv : list (str * js))
| JsCreate (name_expr : str) (props : list (str * js)) (kids : list js).

(* ---- string literals ------------------------------------------------------------------ *)
Definition js_escape_char (c : N) : str := if c =? 34 then [92; 34] else [c].
Definition js_quote (s : str) : str := [34] ++ flat_map js_escape_char s ++ [34].

(* what the character after a backslash denotes (single-character escapes of the language;
   x and u escapes, digits other than 0 and line continuations are not supported: None) *)
Definition js_escape_denotes (d : N) : option N :=
  if d =? 110 then Some 10            (* n *)
  else if d =? 114 then Some 13       (* r *)
  else if d =? 116 then Some 9        (* t *)
  else if d =? 98 then Some 8         (* b *)
  else if d =? 102 then Some 12       (* f *)
  else if d =? 118 then Some 11       (* v *)
  else if d =? 48 then Some 0         (* 0 *)
  else if (d =? 120) || (d =? 117) then None                        (* x u *)
  else if (49 <=? d) && (d <=? 57) then None                        (* 1..9 *)
  else if (d =? 10) || (d =? 13) || (d =? 8232) || (d =? 8233) then None
  else Some d.                        (* dquote, quote, backslash and every other character *)

(* the body of a double-quoted literal, after the opening quote; the closing quote must be
   the last character; a raw CR or LF inside a literal is a syntax error *)
Fixpoint js_unquote_body (s : str) : option str :=
  match s with
  | [] => None
  | c :: s' =>
    if c =? 34 then match s' with [] => Some [] | _ :: _ => None end
    else if c =? 92 then
      match s' with
      | [] => None
      | d :: s'' =>
        match js_escape_denotes d, js_unquote_body s'' with
        | Some x, Some r => Some (x :: r)
        | _, _ => None
        end
      end
    else if (c =? 10) || (c =? 13) then None
    else match js_unquote_body s' with Some r => Some (c :: r) | None => None end
  end.
Definition js_unquote (s : str) : option str :=
  match s with
  | c :: s' => if c =? 34 then js_unquote_body s' else None
  | [] => None
  end.

(* ---- the printer ----------------------------------------------------------------------- *)
(* Layout: a literal is written after 2*indent spaces.  React.createElement(NAME) when there
   are neither props nor children; otherwise NAME and the props object go on the next line
   (indent + 1 levels), each child that prints something on its own line after a comma, and
   the closing parenthesis on its own line at the element's indentation (same line when
   there are no children).  Values inside props, arrays and objects are printed at
   indentation 0 with LF as line break. *)
Definition print_entry (k v : str) : str := [34] ++ k ++ s_qcolon_sp ++ v.

Fixpoint print_js (indent : nat) (eol : str) (j : js) {struct j} : str :=
  let ind := indent_str indent in
  match j with
  | JsSkip => []
  | JsNull => ind ++ s_null
  | JsBool b => ind ++ (if b then s_true else s_false)
  | JsNum s | JsRaw s => ind ++ s
  | JsStr s => ind ++ js_quote s
  | JsArr l => ind ++ [91] ++ join s_comma_sp (map (fun x => print_js 0 [10] x) l) ++ [93]
  | JsObj kv =>
    ind ++ [123] ++ join s_comma_sp (map (fun p : str * js => let (k, v) := p in
                                            print_entry k (print_js 0 [10] v)) kv) ++ [125]
  | JsCreate nm props kids =>
    let head := ind ++ s_create in
    match props, kids with
    | [], [] => head ++ nm ++ [41]
    | _, _ =>
      let body := head ++ eol ++ ind ++ [32; 32] ++ nm ++ s_comma_sp ++ [123]
                  ++ join s_comma_sp (map (fun p : str * js => let (k, v) := p in
                                             print_entry k (print_js 0 [10] v)) props)
                  ++ [125] in
      match kids with
      | [] => body ++ [41]
      | _ :: _ =>
        body ++ flat_map (fun k => match print_js (S indent) eol k with
                                   | [] => []
                                   | c :: s => [44] ++ eol ++ c :: s
                                   end) kids
             ++ eol ++ ind ++ [41]
      end
    end
  end.

(* ---- component tree -> AST -------------------------------------------------------------- *)
Section OMap.
  Context {A B : Type}.
  Variable f : A -> option B.
  Fixpoint omap (l : list A) : option (list B) :=
    match l with
    | [] => Some []
    | x :: l' => match f x, omap l' with Some y, Some ys => Some (y :: ys) | _, _ => None end
    end.
End OMap.

(* the style prop: None is the empty object, CSS text is the object of its declarations
   (Jsx.css_parse: split on semicolons, keep the pieces with a colon, each must split into
   exactly two at colons; nothing is trimmed), a dict is itself, anything else has no reading *)
Definition style_to_js (vj : jval -> option js) (v : jval) : option js :=
  match v with
  | JNone => Some (JsObj [])
  | JStr s | JJsx s | JNode (JText s) =>
    match css_parse s with
    | Ok d => Some (JsObj (map (fun kv => (fst kv, JsStr (snd kv))) d))
    | Err _ => None
    end
  | JDict _ => vj v
  | _ => None
  end.

Definition prop_to_js (vj : jval -> option js) (kv : str * jval) : option (str * js) :=
  let (k, v) := kv in
  match (if str_eqb k s_style then style_to_js vj v else vj v) with
  | Some j => Some (k, j)
  | None => None
  end.

(* None = the tree has no JavaScript reading (an object that is neither tag, component,
   string nor metadata in a child position, or an unreadable style value) *)
Fixpoint to_js (n : jnode) {struct n} : option js :=
  match n with
  | JMeta _ _ => Some JsSkip
  | JText s => Some (JsStr s)
  | JTag nm at_ kids =>
    match omap (prop_to_js val_to_js) at_, omap (fun c => to_js c) kids with
    | Some ps, Some ks => Some (JsCreate ([39] ++ nm ++ [39]) ps ks)
    | _, _ => None
    end
  | JComp nm at_ kids =>
    match omap (prop_to_js val_to_js) at_, omap (fun c => to_js c) kids with
    | Some ps, Some ks => Some (JsCreate nm ps ks)
    | _, _ => None
    end
  | JTagifiable _ _ | JOpaque _ => None
  end
with val_to_js (v : jval) {struct v} : option js :=
  match v with
  | JNone => Some JsNull
  | JBool b => Some (JsBool b)
  | JNum s => Some (JsNum s)
  | JStr s => Some (JsStr s)
  | JJsx s => Some (JsRaw s)
  | JOther s => Some (JsStr s)
  | JList l => match omap (fun x => val_to_js x) l with Some js => Some (JsArr js) | None => None end
  | JDict kv =>
    match omap (fun p : str * jval => let (k, x) := p in
                  match val_to_js x with Some j => Some (k, j) | None => None end) kv with
    | Some o => Some (JsObj o)
    | None => None
    end
  | JNode n =>
    match n with
    | JTag _ _ _ | JComp _ _ _ => to_js n
    | JText s => Some (JsStr s)
    | JMeta _ so | JTagifiable so _ | JOpaque so => Some (JsStr so)
    end
  end.

(* ---- declarative reading of the walk ---------------------------------------------------- *)
(* every tagifiable object at a walked position replaced by (the expansion of) what its
   tagify() returns.  Walked positions: children of tags and components, and props of
   components whose value is directly a node.  Attributes of HTML tags, and values nested in
   list / dict props, are not walked. *)
Definition expand_prop (ex : jnode -> jnode) (kv : str * jval) : str * jval :=
  let (k, v) := kv in
  match v with JNode n => (k, JNode (ex n)) | _ => (k, v) end.

Fixpoint expand (n : jnode) : jnode :=
  match n with
  | JTagifiable _ e => expand e
  | JTag nm at_ kids => JTag nm at_ (map (fun c => expand c) kids)
  | JComp nm ps kids => JComp nm (map (expand_prop (fun c => expand c)) ps) (map (fun c => expand c) kids)
  | _ => n
  end.

(* the metadata nodes of a tree in pre-order over the walked positions *)
Definition metas_prop (mr : jnode -> list N) (kv : str * jval) : list N :=
  match snd kv with JNode n => mr n | _ => [] end.

Fixpoint metas_ref (n : jnode) : list N :=
  match n with
  | JMeta i _ => [i]
  | JTagifiable _ e => metas_ref e
  | JTag _ _ kids => flat_map (fun c => metas_ref c) kids
  | JComp _ ps kids =>
    flat_map (metas_prop (fun c => metas_ref c)) ps ++ flat_map (fun c => metas_ref c) kids
  | _ => []
  end.

(* the Tagifiable protocol: tagify() returns a Tag, a str, a MetadataNode (or HTML /
   TagList, here JOpaque) -- not again a bare tagifiable object.  direct_ok holds when no
   tagifiable object at a walked position expands directly to another tagifiable object. *)
Definition not_tagifiable (n : jnode) : bool :=
  match n with JTagifiable _ _ => false | _ => true end.

Fixpoint direct_ok (n : jnode) : bool :=
  match n with
  | JTagifiable _ e => not_tagifiable e && direct_ok e
  | JTag _ _ kids => forallb (fun c => direct_ok c) kids
  | JComp _ ps kids =>
    forallb (fun kv : str * jval => match snd kv with JNode n' => direct_ok n' | _ => true end) ps
    && forallb (fun c => direct_ok c) kids
  | _ => true
  end.

(* no tagifiable object is left at a walked position *)
Fixpoint fully_tagified (n : jnode) : bool :=
  match n with
  | JTagifiable _ _ => false
  | JTag _ _ kids => forallb (fun c => fully_tagified c) kids
  | JComp _ ps kids =>
    forallb (fun kv : str * jval => match snd kv with JNode n' => fully_tagified n' | _ => true end) ps
    && forallb (fun c => fully_tagified c) kids
  | _ => true
  end.

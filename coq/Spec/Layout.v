(* Specification side of C05 / C06: the layout-free concatenation `flat`, the predicates
   "no whitespace-enabled tag inside" and "validly nested", and the line structure `lines`
   the documentation promises.  Written from the property text and the Tag docstring, not
   from the renderer: no first_child / prev_was_add_ws state here. *)
From HT Require Import Model.Str Model.Tree Model.Escape Model.Render Gen.Tables.

Section Layout.
  Context {M : Type}.
  Implicit Types (n : node M) (l : list (node M)).

  Definition open_str (name : str) (a : attrs) : str := [60] ++ name ++ attrs_str a ++ [62].
  Definition self_str (name : str) (a : attrs) : str := [60] ++ name ++ attrs_str a ++ [47; 62].
  Definition close_str (name : str) : str := [60; 47] ++ name ++ [62].

  (* exact concatenation of open tags, content and close tags; esc = plain text is escaped
     (false directly inside script/style) *)
  Fixpoint flat (esc : bool) (n : node M) : str :=
    match n with
    | Text s => if esc then html_escape false s else s
    | Html s => s
    | Repr s => s
    | Meta _ => []
    | Custom (Some s) _ => s
    | Custom None _ => []
    | TagN name _ a kids =>
      match filter (fun c => negb (is_meta c)) kids with
      | [] => if mem_str name void_names then self_str name a
              else open_str name a ++ close_str name
      | _ :: _ =>
        open_str name a
        ++ flat_map (flat (negb (mem_str name no_escape_names))) kids
        ++ close_str name
      end
    end.

  (* no tag with whitespace enabled and no un-expanded object anywhere in n *)
  Fixpoint inline_only (n : node M) : bool :=
    match n with
    | TagN _ ws _ kids => negb ws && forallb inline_only kids
    | Custom None _ => false
    | _ => true
    end.

  (* inline tags contain no block tags (at any depth); no un-expanded objects *)
  Fixpoint valid_nesting (n : node M) : bool :=
    match n with
    | TagN _ ws _ kids =>
      if ws then forallb valid_nesting kids else forallb inline_only kids
    | Custom None _ => false
    | _ => true
    end.

  Definition is_block (n : node M) : bool :=
    match n with TagN _ true _ _ => true | _ => false end.

  (* a layout line: indentation level relative to the tag, and its content *)
  Definition line := (nat * str)%type.
  Definition shift (k : nat) (ln : line) : line := (k + fst ln, snd ln)%nat.
  Definition flush (cur : option str) : list line :=
    match cur with None => [] | Some s => [(O, s)] end.

  Section Body.
    Variable lns : node M -> list line.
    (* children grouped into maximal runs of adjacent non-block children (one line each,
       the concatenation of their flat forms) and block children (their own lines);
       metadata skipped.  cur = text of the run being collected. *)
    Fixpoint body (esc : bool) (cur : option str) (l : list (node M)) : list line :=
      match l with
      | [] => flush cur
      | c :: l' =>
        if is_meta c then body esc cur l'
        else if is_block c then flush cur ++ lns c ++ body esc None l'
        else body esc (Some (match cur with None => [] | Some s => s end ++ flat esc c)) l'
      end.
  End Body.

  Fixpoint lines (n : node M) : list line :=
    match n with
    | TagN name ws a kids =>
      let children := filter (fun c => negb (is_meta c)) kids in
      let noesc := mem_str name no_escape_names in
      match children with
      | [] => [(O, flat true n)]
      | _ :: _ =>
        match single_text noesc children with
        | Some _ => [(O, flat true n)]
        | None =>
          if ws then
            [(O, open_str name a)]
              ++ map (shift 1) (body lines (negb noesc) None kids)
              ++ [(O, close_str name)]
          else [(O, flat true n)]
        end
      end
    | other => [(O, flat true other)]
    end.

  Definition fmt (i : nat) (ln : line) : str := indent_str (i + fst ln) ++ snd ln.
  Definition layout (i : nat) (eol : str) (lns : list line) : str := join eol (map (fmt i) lns).

  (* what C06 promises for a tag and for a top-level list (add_ws = True) *)
  Definition spec_tag_layout (i : nat) (eol : str) (n : node M) : str := layout i eol (lines n).
  Definition spec_list_layout (i : nat) (eol : str) (l : list (node M)) : str :=
    layout i eol (body lines true None l).
End Layout.

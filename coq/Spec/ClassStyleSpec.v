(* Specification side of C16: the token-list algebra and the declaration format the
   property text talks about.  Independent of how Model/ClassStyle.v computes (no dict, no
   update protocol, no three-pass key rewriting); only the notion of whitespace (is_ws, the
   literal code point list validated against str.isspace) is shared. *)
From HT Require Import Model.Str Model.Tree Model.ClassStyle.

(* A class token: non-empty and free of whitespace. *)
Definition ws_free (s : str) : Prop := Forall (fun c => is_ws c = false) s.
Definition token (s : str) : Prop := s <> [] /\ ws_free s.
Definition token_b (s : str) : bool := nonempty s && forallb (fun c => negb (is_ws c)) s.

(* The class attribute seen as a token list (abstraction function: the whitespace-separated
   tokens of the stored value, none when the attribute is absent) ... *)
Definition class_tokens (st : attrs) : list str :=
  match attr_get k_class st with Some v => split_ws (aval_str v) | None => [] end.
(* ... the stored value is a plain str (or absent), not HTML markup *)
Definition plain_class (st : attrs) : Prop := forall h, attr_get k_class st <> Some (AHtml h).

(* and the three operations on token lists. *)
Definition spec_add (toks : list str) (c : str) (prepend : bool) : list str :=
  if prepend then c :: toks else toks ++ [c].
Definition spec_remove (toks : list str) (c : str) : list str :=
  filter (fun t => negb (str_eqb t c)) toks.
Definition spec_has (toks : list str) (c : str) : bool := existsb (str_eqb c) toks.

Inductive tok_op := TAdd (c : str) (prepend : bool) | TRemove (c : str) | TOther.
Definition spec_step (toks : list str) (o : tok_op) : list str :=
  match o with
  | TAdd c p => spec_add toks c p
  | TRemove c => spec_remove toks c
  | TOther => toks
  end.
Definition spec_run (toks : list str) (ops : list tok_op) : list str := fold_left spec_step ops toks.

(* What a history step means on tokens, and the steps the property speaks about: classes
   are added as plain whitespace-free tokens (remove_class strips its argument itself). *)
Definition abs_op (o : op) : tok_op :=
  match o with
  | OAddClass c p => TAdd (aval_str c) p
  | ORemoveClass c => TRemove (strip c)
  | OAddStyle _ _ => TOther
  end.
Definition op_ok (o : op) : Prop :=
  match o with
  | OAddClass c _ => exists s, c = AStr s /\ token s
  | _ => True
  end.

(* Declaration strings: appended or prepended with one space between. *)
Definition spec_add_decl (old : option str) (d : str) (prepend : bool) : str :=
  match old with
  | None => d
  | Some o => if prepend then d ++ [32] ++ o else o ++ [32] ++ d
  end.

(* css(): property names.  An ASCII capital X becomes hyphen + x, an underscore becomes a
   hyphen, every other character is kept. *)
Definition spec_key_char (c : N) : str :=
  if (65 <=? c) && (c <=? 90) then [45; c + 32]
  else if c =? 95 then [45]
  else [c].
Definition spec_key (k : str) : str := flat_map spec_key_char k.

(* the non-None arguments, in order *)
Definition present {V} (kw : list (str * option V)) : list (str * V) :=
  flat_map (fun kv => match snd kv with Some v => [(fst kv, v)] | None => [] end) kw.

(* value text: a list of strings is joined with single spaces; a list with a non-string
   item has no text (TypeError) *)
Definition spec_value (v : cssval) : option str :=
  match v with
  | CStr s => Some s
  | CList l => option_map (join [32]) (all_some l)
  end.

Fixpoint spec_decls (sep : str) (args : list (str * cssval)) : option (list str) :=
  match args with
  | [] => Some []
  | (k, v) :: rest =>
    match spec_value v, spec_decls sep rest with
    | Some s, Some ds => Some ((spec_key k ++ [58] ++ s ++ [59] ++ sep) :: ds)
    | _, _ => None
    end
  end.

(* one name:value; (+ separator) per non-None argument in order; None when nothing remains *)
Definition spec_css (sep : str) (kw : list (str * option cssval)) : res (option str) :=
  match spec_decls sep (present kw) with
  | None => Err TypeError
  | Some [] => Ok None
  | Some ds => Ok (Some (concat ds))
  end.

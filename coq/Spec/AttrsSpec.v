(* Specification side of C15: what the property text says a tag's attributes are, written
   without reference to how TagAttrDict.update computes them (no accumulator, no
   left-to-right use of +).  Uses only the argument types of Model.Attrs and the
   per-character escape map of Spec.CharMap. *)
From HT Require Import Model.Str Model.Tree Model.Attrs Spec.CharMap.

(* ---- names: one trailing underscore removed, remaining underscores become hyphens *)
Fixpoint strip_one_trailing_us (x : str) : str :=
  match x with
  | [] => []
  | [c] => if N.eqb c 95 then [] else [c]
  | c :: x' => c :: strip_one_trailing_us x'
  end.
Definition us_to_hyphen (c : N) : N := if N.eqb c 95 then 45 else c.
Definition spec_name (x : str) : str := map us_to_hyphen (strip_one_trailing_us x).

(* ---- values: None/False dropped, True as empty string, numbers as text ----------- *)
Definition spec_value (v : attrarg) : res (option aval) :=
  match v with
  | VNone | VBool false => Ok None
  | VBool true => Ok (Some (AStr []))
  | VInt r | VFloat r => Ok (Some (AStr r))
  | VStr s => Ok (Some (AStr s))
  | VHtml s => Ok (Some (AHtml s))
  | VBad => Err TypeError
  end.

(* the (normalised name, value) pairs of one call in argument order, dropped values
   removed; an unsupported value makes the whole call a TypeError *)
Fixpoint kept_pairs (items : pydict) : res (list (str * aval)) :=
  match items with
  | [] => Ok []
  | (k, v) :: rest =>
    match spec_value v with
    | Err e => Err e
    | Ok None => kept_pairs rest
    | Ok (Some a) =>
      match kept_pairs rest with
      | Err e => Err e
      | Ok l => Ok ((spec_name k, a) :: l)
      end
    end
  end.

(* names in order of first appearance *)
Fixpoint first_names (l : list str) : list str :=
  match l with
  | [] => []
  | x :: l' => x :: filter (fun y => negb (str_eqb x y)) (first_names l')
  end.

(* all values given for name n, in argument order *)
Definition values_of (n : str) (ps : list (str * aval)) : list aval :=
  map snd (filter (fun p => str_eqb n (fst p)) ps).

Definition is_html (v : aval) : bool := match v with AHtml _ => true | AStr _ => false end.
Definition aval_text (v : aval) : str := match v with AStr s => s | AHtml s => s end.

(* The values of one name joined by single spaces.  All plain: a plain str, the texts
   joined.  As soon as one of them is HTML the result is HTML: the HTML values verbatim,
   the plain ones through the ATTRIBUTE escape map (the merged HTML value is later written
   between the quotes of the attribute as it is). *)
Definition seg_text (html : bool) (v : aval) : str :=
  match v with
  | AStr s => if html then spec_escape true s else s
  | AHtml s => s
  end.
Definition merged (vs : list aval) : aval :=
  if existsb is_html vs
  then AHtml (join [32] (map (seg_text true) vs))
  else AStr (join [32] (map (seg_text false) vs)).

Definition group (ps : list (str * aval)) : attrs :=
  map (fun n => (n, merged (values_of n ps))) (first_names (map fst ps)).

(* the attributes produced by one call: positional dicts left to right, then keywords *)
Definition attrs_of_call (dicts : list pydict) (kwargs : pydict) : res attrs :=
  res_map group (kept_pairs (concat dicts ++ kwargs)).

(* ---- a later call replaces, it does not append ---------------------------------- *)
Definition keys (m : attrs) : list str := map fst m.

(* existing names keep their position and take the new value alone (the old value is
   not part of it); names not present before are appended in the order of new *)
Definition replace_merge (self new : attrs) : attrs :=
  map (fun kv => (fst kv, match lookup (fst kv) new with Some v => v | None => snd kv end)) self
  ++ filter (fun kv => negb (mem_str (fst kv) (keys self))) new.

Definition spec_step (st : attrs) (o : op) : attrs * option err :=
  match o with
  | OpUpdate dicts kw =>
    match attrs_of_call dicts kw with
    | Ok new => (replace_merge st new, None)
    | Err e => (st, Some e)
    end
  | OpSet k v =>
    match spec_value v with
    | Err e => (st, Some e)
    | Ok None => (st, None)
    | Ok (Some a) => (replace_merge st [(spec_name k, a)], None)
    end
  end.

Fixpoint spec_run (st : attrs) (ops : list op) : list (attrs * option err) :=
  match ops with
  | [] => []
  | o :: ops' => let r := spec_step st o in r :: spec_run (fst r) ops'
  end.

(* ---- the invariant of a stored attribute map ------------------------------------- *)
Definition normalised (n : str) : Prop := ~ In 95 n.
Definition wf_attrs (m : attrs) : Prop := NoDup (keys m) /\ Forall normalised (keys m).

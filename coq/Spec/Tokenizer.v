(* C01 specification side: an HTML tokenizer restricted to the states the renderer can
   reach, a well-nestedness tree builder, and the canonical form in which a parsed forest
   and an element tree are compared.  Independent of the renderer model and of Gen.Tables
   (the 16 void names do not occur here: a self-closing flag on the token decides).

   tokenizer states covered (WHATWG names): data, tag open, end tag open, tag name, before
   attribute name, attribute name, before attribute value, attribute value (double-quoted),
   after attribute value (quoted), self-closing start tag; character references in data and
   in attribute values are decoded with the reference table of Spec/CharMap.v.  Anything
   else (comments, declarations, unquoted or single-quoted values, an ampersand that does
   not start a known reference, a stray less-than sign) makes it fail with None. *)
From HT Require Import Model.Str Spec.CharMap.

Inductive token :=
| TStart (name : str) (attrs : list (str * str)) (self_closing : bool)
| TEnd (name : str)
| TChars (s : str).

Definition is_ws (c : N) : bool :=
  (c =? 32) || (c =? 9) || (c =? 10) || (c =? 12) || (c =? 13).
Definition is_alpha (c : N) : bool :=
  ((65 <=? c) && (c <=? 90)) || ((97 <=? c) && (c <=? 122)).
(* characters that end a tag name / attribute name or are errors inside one *)
Definition name_char (c : N) : bool :=
  negb (is_ws c || (c =? 47) || (c =? 62) || (c =? 61) || (c =? 34) || (c =? 39) || (c =? 60)
        || (c =? 0)).

(* longest prefix of name characters, and the rest *)
Fixpoint span_name (s : str) : str * str :=
  match s with
  | c :: s' => if name_char c then let (a, b) := span_name s' in (c :: a, b) else ([], s)
  | [] => ([], [])
  end.
Fixpoint skip_ws (s : str) : str :=
  match s with c :: s' => if is_ws c then skip_ws s' else s | [] => [] end.

(* characters up to (excluding) the first double quote; None if there is none *)
Fixpoint until_quote (s : str) : option (str * str) :=
  match s with
  | [] => None
  | c :: s' => if c =? 34 then Some ([], s')
               else match until_quote s' with
                    | Some (v, r) => Some (c :: v, r)
                    | None => None
                    end
  end.

(* decode references; None if some ampersand does not start a known reference *)
Definition decode (s : str) : option str :=
  if amp_ok refs s then Some (unescape s) else None.

(* attributes after the tag name: zero or more of  ws+ name = dq value dq , then optional ws,
   then  >  or  / > .  Fuel: one unit per attribute (length of the input suffices). *)
Fixpoint attrs_fuel (fuel : nat) (s : str) : option (list (str * str) * bool * str) :=
  match fuel with
  | O => None
  | S f =>
    let s1 := skip_ws s in
    match s1 with
    | 62 :: r => Some ([], false, r)
    | 47 :: 62 :: r => Some ([], true, r)
    | _ =>
      (* an attribute must be separated from what precedes it by whitespace *)
      match s with
      | c :: _ =>
        if is_ws c then
          let (k, r1) := span_name s1 in
          match k, r1 with
          | _ :: _, 61 :: 34 :: r2 =>
            match until_quote r2 with
            | Some (raw, r3) =>
              match decode raw, attrs_fuel f r3 with
              | Some v, Some (rest, sc, r4) => Some ((lower k, v) :: rest, sc, r4)
              | _, _ => None
              end
            | None => None
            end
          | _, _ => None
          end
        else None
      | [] => None
      end
    end
  end.

(* the character data up to the next less-than sign *)
Fixpoint span_text (s : str) : str * str :=
  match s with
  | c :: s' => if c =? 60 then ([], s) else let (a, b) := span_text s' in (c :: a, b)
  | [] => ([], [])
  end.

Fixpoint nodup_keys (l : list (str * str)) : bool :=
  match l with
  | [] => true
  | (k, _) :: l' => negb (existsb (fun kv => str_eqb k (fst kv)) l') && nodup_keys l'
  end.

Fixpoint tokens_fuel (fuel : nat) (s : str) : option (list token) :=
  match fuel with
  | O => None
  | S f =>
    match s with
    | [] => Some []
    | 60 :: 47 :: r =>                                   (* end tag *)
      let (n, r1) := span_name r in
      match n, skip_ws r1 with
      | c :: _, 62 :: r2 =>
        if is_alpha c then option_map (cons (TEnd (lower n))) (tokens_fuel f r2) else None
      | _, _ => None
      end
    | 60 :: r =>                                         (* start tag *)
      let (n, r1) := span_name r in
      match n with
      | c :: _ =>
        if is_alpha c then
          match attrs_fuel (S (length r1)) r1 with
          | Some (a, sc, r2) =>
            if nodup_keys a then option_map (cons (TStart (lower n) a sc)) (tokens_fuel f r2)
            else None
          | None => None
          end
        else None
      | [] => None
      end
    | _ =>                                               (* character data *)
      let (t, r) := span_text s in
      match decode t with
      | Some d => option_map (cons (TChars d)) (tokens_fuel f r)
      | None => None
      end
    end
  end.
Definition tokenize (s : str) : option (list token) := tokens_fuel (S (length s)) s.

(* ---- tree builder: well-nestedness only ---- *)
Inductive elem :=
| EText (s : str)
| EElem (name : str) (attrs : list (str * str)) (kids : list elem).

(* stack of open elements: (name, attrs, children so far, reversed) *)
Definition frame := (str * list (str * str) * list elem)%type.

Fixpoint build_stack (toks : list token) (cur : list elem) (stack : list frame)
  : option (list elem) :=
  match toks with
  | [] => match stack with [] => Some (rev cur) | _ => None end
  | TChars s :: ts => build_stack ts (EText s :: cur) stack
  | TStart n a true :: ts => build_stack ts (EElem n a [] :: cur) stack
  | TStart n a false :: ts => build_stack ts [] ((n, a, cur) :: stack)
  | TEnd n :: ts =>
    match stack with
    | (n', a, outer) :: stack' =>
      if str_eqb n n' then build_stack ts (EElem n' a (rev cur) :: outer) stack' else None
    | [] => None
    end
  end.
Definition build (toks : list token) : option (list elem) := build_stack toks [] [].

Definition parse (s : str) : option (list elem) :=
  match tokenize s with Some ts => build ts | None => None end.

(* ---- canonical form: adjacent text merged, runs trimmed, empty runs dropped ---- *)
Definition trim (s : str) : str := rev (skip_ws (rev (skip_ws s))).

Section CanonList.
  Variable canon_e : elem -> elem.
  (* pending = text of the run being collected *)
  Fixpoint canon_list (pending : option str) (l : list elem) : list elem :=
    let flush := match pending with
                 | None => []
                 | Some t => match trim t with [] => [] | t' => [EText t'] end
                 end in
    match l with
    | [] => flush
    | e :: l' =>
      match e with
      | EText s => canon_list (Some (match pending with None => s | Some t => t ++ s end)) l'
      | _ => flush ++ canon_e e :: canon_list None l'
      end
    end.
End CanonList.

Fixpoint canon_elem (e : elem) : elem :=
  match e with
  | EText s => EText s
  | EElem n a kids => EElem n a (canon_list canon_elem None kids)
  end.
Definition canon (l : list elem) : list elem := canon_list canon_elem None l.

(* C08: == between tags (htmltools/_core.py, _equals_impl 1994-2000, Tag.__eq__ 968).

   eqb is the executable model of what Python computes:
     _equals_impl(x, y):  isinstance(y, type(x)), then for every key of x.__dict__
       (name, add_ws, attrs, children, prev_displayhook)  getattr(x, key) != getattr(y, key)
     name            str ==
     add_ws          bool ==
     attrs           dict == on TagAttrDict: the same number of keys, and every key of x is a
                     key of y with an equal value; INDEPENDENT of insertion order.  Values are
                     str or HTML; HTML is a UserString whose __eq__ compares the text with a
                     str or with the .data of another UserString, and str == HTML falls back
                     to the reflected HTML.__eq__: values compare by text.
     children        UserList.__eq__: list == on .data: same length, elementwise ==;
                     str / HTML elements by text (as above); a Tag against a str is False
                     (Tag.__eq__ fails the isinstance test; str.__eq__ is NotImplemented).
     prev_displayhook  None on both sides outside a with block (C17); ignored here.
   Metadata nodes compare their payloads: HTMLDependency.__eq__ is _equals_impl on the fields,
   and the payload stands for the value of the dependency.  Objects known only by
   _repr_html_ / tagify() (Repr, Custom) compare by identity in Python; the tree carries no
   identity, so eqb answers false for them (two distinct objects).

   sim is the declarative reading of the property text: same name, same flag, the same
   attribute map up to order with equal value texts, children pairwise similar. *)
From HT Require Import Model.Str Model.Tree.

Definition aval_text (v : aval) : str := match v with AStr s | AHtml s => s end.

(* d[k] on an insertion-ordered dict *)
Fixpoint alookup (k : str) (m : attrs) : option aval :=
  match m with
  | [] => None
  | (k', v) :: m' => if str_eqb k k' then Some v else alookup k m'
  end.

(* dict.__eq__ *)
Definition attrs_eqb (a b : attrs) : bool :=
  Nat.eqb (length a) (length b)
  && forallb (fun kv => match alookup (fst kv) b with
                        | Some v => str_eqb (aval_text (snd kv)) (aval_text v)
                        | None => false
                        end) a.

Fixpoint eqb (x y : node N) {struct x} : bool :=
  match x, y with
  | Text s, Text s' | Text s, Html s' | Html s, Text s' | Html s, Html s' => str_eqb s s'
  | Meta m, Meta m' => N.eqb m m'
  | TagN n w a k, TagN n' w' a' k' =>
    str_eqb n n' && Bool.eqb w w' && attrs_eqb a a'
    && (fix go (l l' : list (node N)) {struct l} : bool :=
          match l, l' with
          | [], [] => true
          | c :: l1, c' :: l1' => eqb c c' && go l1 l1'
          | _, _ => false
          end) k k'
  | _, _ => false
  end.

(* ---- the declarative side ------------------------------------------------------------ *)
Definition text_of (n : node N) : option str :=
  match n with Text s | Html s => Some s | _ => None end.

(* the same finite map from names to value texts *)
Definition attrs_same (a b : attrs) : Prop :=
  forall k, option_map aval_text (alookup k a) = option_map aval_text (alookup k b).

Inductive sim : node N -> node N -> Prop :=
| sim_text x y s : text_of x = Some s -> text_of y = Some s -> sim x y
| sim_meta m : sim (Meta m) (Meta m)
| sim_tag n w a b ka kb :
    attrs_same a b -> Forall2 sim ka kb -> sim (TagN n w a ka) (TagN n w b kb).

(* a Python dict has no duplicate keys: every attribute map in the tree is a dict *)
Fixpoint dict_ok (t : node N) : Prop :=
  match t with
  | TagN _ _ a kids =>
    NoDup (map fst a)
    /\ (fix all (l : list (node N)) : Prop :=
          match l with [] => True | c :: l' => dict_ok c /\ all l' end) kids
  | _ => True
  end.

(* trees of tags, text and dependencies (no identity-compared objects) *)
Fixpoint plain (t : node N) : bool :=
  match t with
  | Text _ | Html _ | Meta _ => true
  | TagN _ _ _ kids => forallb plain kids
  | Repr _ | Custom _ _ => false
  end.

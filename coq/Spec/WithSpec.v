(* C17, specification side.  What a program of nested `with tag:` blocks MEANS, written
   without any global hook: the receiver of displayed values is a parameter passed down the
   block structure (lexical scoping), there is no save / restore and no prev_displayhook.
   The theorems of Properties/C17.v say that the hook-juggling implementation model
   (Model/WithProg.v) computes exactly this. *)
From HT Require Import Model.Str Model.Tree Model.WithProg.

(* ---- the normal child rules ---------------------------------------------------------- *)
(* None contributes nothing, numbers become their text, lists are spliced in place (all or
   nothing), strings / HTML / _repr_html_ objects / tags / tagifiable objects / metadata
   nodes are kept; anything else (Ellipsis included) is invalid. *)
Fixpoint child_rule (v : dval) : option (list child) :=
  match v with
  | DNone => Some []
  | DText s => Some [CText s]
  | DNum r => Some [CText r]
  | DHtml s => Some [CHtml s]
  | DRepr s => Some [CRepr s]
  | DTagRef t => Some [CTag t]
  | DCustom k => Some [CCustom k]
  | DMeta k => Some [CMeta k]
  | DList l =>
    (fix all (l : list dval) : option (list child) :=
       match l with
       | [] => Some []
       | x :: r => match child_rule x, all r with
                   | Some a, Some b => Some (a ++ b)
                   | _, _ => None
                   end
       end) l
  | DEllipsis | DBad => None
  end.

(* what displaying v inside a block contributes to the block's tag: None and Ellipsis are
   ignored, an object with _repr_html_ (HTML included) is kept as HTML of its markup,
   everything else follows the normal child rules; None = rejected with TypeError *)
Definition shown (v : dval) : option (list child) :=
  match v with
  | DNone | DEllipsis => Some []
  | DHtml s | DRepr s => Some [CHtml s]
  | _ => child_rule v
  end.

(* a run of displays inside one block: children collected up to the first rejected value,
   and whether every value was accepted *)
Fixpoint shown_all (vs : list dval) : list child * bool :=
  match vs with
  | [] => ([], true)
  | v :: r => match shown v with
              | None => ([], false)
              | Some cs => let (cs', ok) := shown_all r in (cs ++ cs', ok)
              end
  end.

(* ---- hook-free semantics -------------------------------------------------------------- *)
Inductive recv := RBase | RTag (t : nat).      (* who receives what is displayed here *)
Definition hook_of (r : recv) : hook :=
  match r with RBase => HBase | RTag t => HTag t end.

Record sstate := mkS {
  used : nat -> bool;              (* the tag's block has been entered (now or earlier) *)
  kids : nat -> list child;
  slog : list dval
}.

Definition s_add (t : nat) (cs : list child) (x : sstate) : sstate :=
  mkS (used x) (fun u => if Nat.eqb u t then kids x u ++ cs else kids x u) (slog x).
Definition s_mark (t : nat) (x : sstate) : sstate :=
  mkS (fun u => if Nat.eqb u t then true else used x u) (kids x) (slog x).

(* a displayed value reaches the receiver *)
Definition s_display (r : recv) (v : dval) (x : sstate) : res sstate :=
  match r with
  | RBase => Ok (mkS (used x) (kids x) (slog x ++ [v]))
  | RTag t => match shown v with
              | Some cs => Ok (s_add t cs x)
              | None => Err TypeError
              end
  end.
(* a finished block's tag is handed to the receiver: exactly one entry, never rejected *)
Definition s_give (r : recv) (t : nat) (x : sstate) : sstate :=
  match r with
  | RBase => mkS (used x) (kids x) (slog x ++ [DTagRef t])
  | RTag u => s_add u [CTag t] x
  end.

Fixpoint sem_stmt (r : recv) (st : stmt) (x : sstate) : sstate * outcome :=
  match st with
  | Display v =>
    match s_display r v x with
    | Ok x' => (x', Normal)
    | Err e => (x, Raised e)
    end
  | Raise => (x, RaisedUser)
  | With t body =>
    if used x t then (x, Raised RuntimeError)      (* nothing changes *)
    else
      let (x2, o) :=
        (fix sem (p : list stmt) (x : sstate) : sstate * outcome :=
           match p with
           | [] => (x, Normal)
           | y :: q =>
             let (x', o) := sem_stmt (RTag t) y x in
             match o with Normal => sem q x' | _ => (x', o) end
           end) body (s_mark t x) in
      (s_give r t x2, o)                           (* on every way out of the body *)
  end.

Fixpoint sem (r : recv) (p : list stmt) (x : sstate) : sstate * outcome :=
  match p with
  | [] => (x, Normal)
  | y :: q =>
    let (x', o) := sem_stmt r y x in
    match o with Normal => sem r q x' | _ => (x', o) end
  end.

(* the specification state that an implementation state denotes *)
Definition abs (s : state) : sstate :=
  mkS (fun u => negb (is_none (prev s u))) (children s) (log s).

(* implementation state s and specification state x agree *)
Definition agree (s : state) (x : sstate) : Prop :=
  (forall u, used x u = negb (is_none (prev s u))) /\
  (forall u, kids x u = children s u) /\
  slog x = log s.

(* ---- counting deliveries of one tag --------------------------------------------------- *)
Fixpoint count_tag (t : nat) (l : list child) : nat :=
  match l with
  | [] => O
  | CTag u :: r => (if Nat.eqb u t then 1 else 0) + count_tag t r
  | _ :: r => count_tag t r
  end.
Fixpoint count_ref (t : nat) (l : list dval) : nat :=
  match l with
  | [] => O
  | DTagRef u :: r => (if Nat.eqb u t then 1 else 0) + count_ref t r
  | _ :: r => count_ref t r
  end.

(* the value mentions tag t (is it, or is a list containing it at any depth) *)
Fixpoint mentions (t : nat) (v : dval) : bool :=
  match v with
  | DTagRef u => Nat.eqb u t
  | DList l => (fix any (l : list dval) : bool :=
                  match l with [] => false | x :: r => mentions t x || any r end) l
  | _ => false
  end.
(* the program never displays tag t explicitly *)
Fixpoint displays (t : nat) (st : stmt) : bool :=
  match st with
  | Display v => mentions t v
  | Raise => false
  | With _ body => (fix any (p : list stmt) : bool :=
                      match p with [] => false | x :: r => displays t x || any r end) body
  end.
Definition displays_any (t : nat) (p : list stmt) : bool := existsb (displays t) p.

(* ---- sessions --------------------------------------------------------------------------- *)
(* a copy is a new tag with the same children; following the code, it also inherits whether
   the original has been entered (the saved hook is copied with it) *)
Definition s_copy (src dst : nat) (x : sstate) : sstate :=
  mkS (fun u => if Nat.eqb u dst then used x src else used x u)
      (fun u => if Nat.eqb u dst then kids x src else kids x u)
      (slog x).

Fixpoint sem_top (r : recv) (l : list top) (x : sstate) : sstate * outcome :=
  match l with
  | [] => (x, Normal)
  | TStmt st :: q =>
    let (x', o) := sem_stmt r st x in
    match o with Normal => sem_top r q x' | _ => (x', o) end
  | TCopy src dst :: q => sem_top r q (s_copy src dst x)
  end.

(* C13  What the property text talks about, independently of how the model computes it. *)
From HT Require Import Model.Str.

(* An end-tag-like  < / s c r i p t  in any letter case: what ends a script element's raw
   text in an HTML tokenizer (ASCII case-insensitive match on the six letters). *)
Definition close_tag_lc : str := [60; 47; 115; 99; 114; 105; 112; 116].
Definition has_close_tag (s : str) : bool := contains close_tag_lc (lower s).

(* Unicode scalar values: what a well-formed Python str consists of (no lone surrogates) *)
Definition scalar (c : N) : Prop := c < 55296 \/ (57344 <= c /\ c <= 1114111).
Definition scalarb (c : N) : bool := (c <? 55296) || ((57344 <=? c) && (c <=? 1114111)).

(* first occurrences, in order of appearance *)
Fixpoint stable_unique (l : list str) : list str :=
  match l with
  | [] => []
  | x :: l' => x :: filter (fun y => negb (str_eqb y x)) (stable_unique l')
  end.

(* t0 ++ ser p1 ++ t1 ++ ... ++ ser pn ++ tn  with ser p = op ++ p ++ cl *)
Fixpoint assemble (op cl : str) (t0 : str) (segs : list (str * str)) : str :=
  match segs with
  | [] => t0
  | (p, t) :: segs' => t0 ++ op ++ p ++ cl ++ assemble op cl t segs'
  end.

(* needle occurs in s *)
Definition occurs (needle s : str) : Prop := exists a b, s = a ++ needle ++ b.

(* Boolean side conditions on the two .replace literals, evaluated on the regenerated
   Gen.Tables values by the theorems of Properties/C13.v:
   neutralise_ok: the literals are  < /  and  < backslash /  (the repaired form);
   neutralise_shape: FROM is  < / tail  and TO is  < backslash / tail  with the same tail
   (true of both the original and the repaired literals). *)
Definition neutralise_ok (f t : str) : bool := str_eqb f [60; 47] && str_eqb t [60; 92; 47].
Definition neutralise_shape (f t : str) : bool :=
  match f, t with
  | a :: b :: t1, c :: d :: e :: t2 =>
    (a =? 60) && (b =? 47) && (c =? 60) && (d =? 92) && (e =? 47) && str_eqb t1 t2
  | _, _ => false
  end.
(* the first character of a delimiter does not occur again inside it: an occurrence of the
   delimiter cannot overlap a later one *)
Definition border_free (d : str) : bool :=
  match d with
  | [] => false
  | h :: tl => negb (existsb (N.eqb h) tl)
  end.

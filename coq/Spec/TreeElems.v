(* C01 specification side: which trees are `ordinary`, and the element forest an ordinary
   tree denotes (what a parser must give back). *)
From HT Require Import Model.Str Model.Tree Spec.Tokenizer.

Definition valid_name (s : str) : bool :=
  match s with
  | c :: _ => is_alpha c && forallb name_char s
  | [] => false
  end.
Definition valid_attr_name (s : str) : bool :=
  match s with _ :: _ => forallb name_char s | [] => false end.

(* raw-text elements: text inside them is not character data (that is C04's subject) *)
Definition raw_text_names : list str := [[115;99;114;105;112;116]; [115;116;121;108;101]].

Definition aval_is_plain (v : aval) : bool := match v with AStr _ => true | AHtml _ => false end.
Definition aval_text (v : aval) : str := match v with AStr s => s | AHtml s => s end.

Definition valid_attrs (a : attrs) : bool :=
  forallb (fun kv => valid_attr_name (fst kv) && aval_is_plain (snd kv)) a
  && nodup_keys (map (fun kv => (lower (fst kv), aval_text (snd kv))) a).

Section Elems.
  Context {M : Type}.

  Fixpoint ordinary (n : node M) : bool :=
    match n with
    | Text _ => true
    | Meta _ => true
    | TagN name _ a kids =>
      valid_name name && negb (mem_str (lower name) raw_text_names) && valid_attrs a
      && forallb ordinary kids
    | _ => false
    end.

  Fixpoint elems_of (n : node M) : list elem :=
    match n with
    | Text s => [EText s]
    | TagN name _ a kids =>
      [EElem (lower name) (map (fun kv => (lower (fst kv), aval_text (snd kv))) a)
             (flat_map elems_of kids)]
    | _ => []
    end.
End Elems.

Definition ws_only (s : str) : bool := forallb is_ws s.

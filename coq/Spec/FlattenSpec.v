(* C14, specification side: what the property text says the child operations must do.
   Written over `node` (normalised children), independently of how the code computes it:
   no accumulator, no separate flatten / convert passes, no slice-index arithmetic beyond
   the clamping rule, no re-normalisation of the receiver. *)
From Coq Require Import ZArith.
From HT Require Import Model.Str Model.Tree Model.TagListOps.

(* concatenation of two results; the only error there is is TypeError, the first wins *)
Definition res_app {T} (a b : res (list T)) : res (list T) :=
  match a, b with
  | Ok x, Ok y => Ok (x ++ y)
  | Err e, _ => Err e
  | _, Err e => Err e
  end.

(* depth-first, left-to-right flattening of ONE argument:
   lists, tuples, TagLists spliced; None dropped; numbers to their str() text; strings kept
   whole; HTML and node objects kept; anything else TypeError *)
Fixpoint flat1 (v : pyval) : res (list node) :=
  match v with
  | PNone => Ok []
  | PInt r => Ok [NText r]
  | PFloat r => Ok [NText r]
  | PBool b => Ok [NText (bool_text b)]
  | PStr s => Ok [NText s]
  | PHtml s => Ok [NHtml s]
  | PNodeTag i => Ok [NObj KTag i]
  | PNodeMeta i => Ok [NObj KMeta i]
  | PNodeRepr i => Ok [NObj KRepr i]
  | PNodeCustom i => Ok [NObj KCustom i]
  | PList l | PTuple l | PTagList l =>
      (fix go (l : list pyval) : res (list node) :=
         match l with
         | [] => Ok []
         | x :: l' => res_app (flat1 x) (go l')
         end) l
  | PBad _ => Err TypeError
  end.

(* ... of a sequence of arguments *)
Fixpoint flat_spec (l : list pyval) : res (list node) :=
  match l with
  | [] => Ok []
  | x :: l' => res_app (flat1 x) (flat_spec l')
  end.

(* The argument of extend / + / reflected + / += is an iterable of children (DESIGN 6,
   C14 convention): a str is one item; list / tuple / TagList give their elements; an HTML
   value iterates per character as UserString does; None, numbers and other objects are not
   iterable. *)
Definition as_iterable (x : pyval) : res (list pyval) :=
  match x with
  | PStr s => Ok [PStr s]
  | PList l => Ok l
  | PTuple l => Ok l
  | PTagList l => Ok l
  | PHtml s => Ok (map (fun c => PHtml [c]) s)
  | _ => Err TypeError
  end.

Definition flat_iterable (x : pyval) : res (list node) :=
  match as_iterable x with
  | Ok items => flat_spec items
  | Err e => Err e
  end.

(* Python's clamping of an insertion index into 0..len: negative indices count from the
   end and stop at 0, large ones stop at len *)
Definition clamp_index (len : nat) (i : Z) : nat :=
  Z.to_nat (if (i <? 0)%Z then Z.max 0 (Z.of_nat len + i) else Z.min i (Z.of_nat len)).

(* a slice bound, same rule; an omitted bound is the corresponding end *)
Definition slice_lo (len : nat) (a : option Z) : nat :=
  match a with None => O | Some i => clamp_index len i end.
Definition slice_hi (len : nat) (b : option Z) : nat :=
  match b with None => len | Some i => clamp_index len i end.

(* the children after each operation, in terms of the children before it *)
Definition op_spec (o : op) (ns : list node) : res (list node) :=
  match o with
  | OConstruct args => flat_spec args
  | OAppend item args => res_map (app ns) (flat_spec (item :: args))
  | OExtend other => res_map (app ns) (flat_iterable other)
  | OIadd other => res_map (app ns) (flat_iterable other)
  | OInsert i item =>
      res_map (fun new => firstn (clamp_index (length ns) i) ns ++ new
                          ++ skipn (clamp_index (length ns) i) ns)
              (flat_spec [item])
  | OAdd item => res_map (app ns) (flat_iterable item)
  | ORadd item => res_map (fun new => new ++ ns) (flat_iterable item)
  | OSlice a b (None | Some 1%Z) =>
      Ok (firstn (slice_hi (length ns) b - slice_lo (length ns) a)
                 (skipn (slice_lo (length ns) a) ns))
  | OSlice a b (Some s) =>
      (* extended slices (every s-th child, possibly backwards): whatever Python's list
         slice gives on the children; the list-slice primitive itself is shared with the
         model and tied to CPython by the correspondence only *)
      py_getslice ns a b (Some s)
  | OMul n => Ok (concat (repeat ns (Z.to_nat n)))
  | OImul n => Ok (concat (repeat ns (Z.to_nat n)))
  | OCopy => Ok ns
  end.

(* The operation raised: the children are unchanged. *)
Definition step_spec (ns : list node) (o : op) : list node :=
  match op_spec o ns with Ok ns' => ns' | Err _ => ns end.
Definition run_spec (ops : list op) (ns : list node) : list node := fold_left step_spec ops ns.

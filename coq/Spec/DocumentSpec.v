(* C11, declarative side: what the document tree is, said without the index search, the
   insertions and the copies of the code.

   The parts of the property text:
     - the user's content after tagify (every object replaced by its expansion),
     - the resolved dependencies of that content (document order, one per name: C10's
       specification functions preorder / spec_resolve),
     - the three construction cases and where the one head sits,
     - the head block: listing script followed by every dependency's markup. *)
From HT Require Import Model.Str Model.Tree Model.Tagify Model.Deps Model.Attrs Model.Document
     Spec.ResolveSpec.

(* the user's content as rendered: objects replaced by their expansions, at every depth *)
Definition tagified (l : list (node dep)) : list (node dep) := flat_map subst l.

(* the resolved dependency list of the document: document order of the tagified content,
   one representative per name (earliest of maximal version), names by first occurrence *)
Definition doc_deps (content : list (node dep)) : list dep :=
  spec_resolve (preorder (tagified content)).

(* what hoisting appends to the head: the listing script (none without dependencies), then
   each dependency's markup in resolved order *)
Definition head_block (tags_of : dep -> list (node dep)) (deps : list dep) : list (node dep) :=
  listing deps ++ flat_map tags_of deps.

Definition no_head (l : list (node dep)) : Prop :=
  forall k, In k l -> is_named n_head k = false.

Definition count_named (nm : str) (l : list (node dep)) : nat :=
  length (filter (is_named nm) l).

(* doc_parts content ws pre hws ha uhk post: the html element has whitespace flag ws and
   children  pre ++ [head] ++ post  where the head element (flag hws, attributes ha) has
   the user's children uhk -- before anything is hoisted:
     html case, the user's html has a head child: split at the FIRST one;
     html case without head: a new empty head in front of the user's children;
     lone body: new head, then that body;   anything else: new head, body wrapping it. *)
Inductive doc_parts (content : list (node dep))
  : bool -> list (node dep) -> bool -> attrs -> list (node dep) -> list (node dep) -> Prop :=
| parts_html_head ws a kids pre hws ha uhk post :
    content = [TagN n_html ws a kids] ->
    tagified kids = pre ++ TagN n_head hws ha uhk :: post ->
    no_head pre ->
    doc_parts content ws pre hws ha uhk post
| parts_html_nohead ws a kids :
    content = [TagN n_html ws a kids] ->
    no_head (tagified kids) ->
    doc_parts content ws [] true [] [] (tagified kids)
| parts_body ws a kids :
    content = [TagN n_body ws a kids] ->
    doc_parts content true [] true [] [] [TagN n_body ws a (tagified kids)]
| parts_fragment :
    sole_tag n_html content = None ->
    sole_tag n_body content = None ->
    doc_parts content true [] true [] [] [TagN n_body true [] (tagified content)].

(* the attributes of the html element: the user's own updated with the keyword arguments
   (html case), or constructed from the keyword arguments (C15's model) *)
Inductive doc_attrs (content : list (node dep)) (kw : pydict) : attrs -> Prop :=
| attrs_html ws a kids a' :
    content = [TagN n_html ws a kids] ->
    attrs_update a [] kw = (a', None) ->
    doc_attrs content kw a'
| attrs_new_html a' :
    sole_tag n_html content = None ->
    reserved_kw kw = false ->
    attrs_new [] kw = Ok a' ->
    doc_attrs content kw a'.

(* the document tree *)
Definition spec_doc (tags_of : dep -> list (node dep)) (content : list (node dep)) (kw : pydict)
           (t : node dep) : Prop :=
  exists ws a pre hws ha uhk post,
    doc_parts content ws pre hws ha uhk post /\
    doc_attrs content kw a /\
    t = TagN n_html ws a
             (pre ++ TagN n_head hws ha
                          (meta_charset :: uhk ++ head_block tags_of (doc_deps content))
                  :: post).

(* the attribute arguments are rejected *)
Inductive doc_attr_error (content : list (node dep)) (kw : pydict) : err -> Prop :=
| aerr_html ws a kids a' e :
    content = [TagN n_html ws a kids] ->
    attrs_update a [] kw = (a', Some e) ->
    doc_attr_error content kw e
| aerr_reserved :
    sole_tag n_html content = None ->
    reserved_kw kw = true ->
    doc_attr_error content kw TypeError
| aerr_new e :
    sole_tag n_html content = None ->
    reserved_kw kw = false ->
    attrs_new [] kw = Err e ->
    doc_attr_error content kw e.

(* the first head child of a child list and the user's head content of a document *)
Definition first_head (l : list (node dep)) : option (node dep) := find (is_named n_head) l.

Definition user_head (content : list (node dep)) : list (node dep) :=
  match sole_tag n_html content with
  | Some (TagN _ _ _ kids) =>
    match first_head (tagified kids) with
    | Some (TagN _ _ _ hk) => hk
    | _ => []
    end
  | _ => []
  end.

Definition kids_of (t : node dep) : list (node dep) :=
  match t with TagN _ _ _ kids => kids | _ => [] end.

(* the (tagified) children of the user's own html element, [] when there is none *)
Definition user_html_kids (content : list (node dep)) : list (node dep) :=
  match sole_tag n_html content with
  | Some (TagN _ _ _ kids) => tagified kids
  | _ => []
  end.

(* the body element of a document whose html element is new: the user's sole body tag
   (tagified), or a body wrapping the tagified content *)
Definition user_body (content : list (node dep)) : node dep :=
  match sole_tag n_body content with
  | Some (TagN _ ws a kids) => TagN n_body ws a (tagified kids)
  | _ => TagN n_body true [] (tagified content)
  end.

(* C07 specification side: removing every metadata node at every level of a tree. *)
From HT Require Import Model.Str Model.Tree.

Section Strip.
  Context {M : Type}.
  Definition non_meta (n : node M) : bool := negb (is_meta n).

  Fixpoint strip_meta (n : node M) : node M :=
    match n with
    | TagN name ws a kids =>
      TagN name ws a
           ((fix go (l : list (node M)) : list (node M) :=
               match l with
               | [] => []
               | k :: l' => if is_meta k then go l' else strip_meta k :: go l'
               end) kids)
    | other => other
    end.

  Fixpoint strip_list (l : list (node M)) : list (node M) :=
    match l with
    | [] => []
    | k :: l' => if is_meta k then strip_list l' else strip_meta k :: strip_list l'
    end.

  Lemma strip_meta_tag name ws a kids :
    strip_meta (TagN name ws a kids) = TagN name ws a (strip_list kids).
  Proof.
    reflexivity.
  Qed.

  (* no metadata node is left anywhere below a tag *)
  Fixpoint meta_free (n : node M) : bool :=
    match n with
    | Meta _ => false
    | TagN _ _ _ kids => forallb meta_free kids
    | _ => true
    end.
End Strip.

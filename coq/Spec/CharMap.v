(* Specification side of C02/C03: what the property text says escaping must do,
   stated per character, and the reference decoder for the seven references involved.
   Nothing here depends on Gen.Tables. *)
From HT Require Import Model.Str.

(* & < >  ->  &amp; &lt; &gt; ; every other character unchanged *)
Definition esc_text_char (c : N) : str :=
  if c =? 38 then [38;97;109;112;59]
  else if c =? 60 then [38;108;116;59]
  else if c =? 62 then [38;103;116;59]
  else [c].

(* additionally double quote, single quote, CR, LF -> the references quot, apos, #13, #10 *)
Definition esc_attr_char (c : N) : str :=
  if c =? 38 then [38;97;109;112;59]
  else if c =? 60 then [38;108;116;59]
  else if c =? 62 then [38;103;116;59]
  else if c =? 34 then [38;113;117;111;116;59]
  else if c =? 39 then [38;97;112;111;115;59]
  else if c =? 13 then [38;35;49;51;59]
  else if c =? 10 then [38;35;49;48;59]
  else [c].

Definition spec_escape (attr : bool) (s : str) : str :=
  flat_map (if attr then esc_attr_char else esc_text_char) s.

(* the character references of the statement and what each decodes to *)
Definition refs : list (str * N) :=
  [([38;97;109;112;59], 38); ([38;108;116;59], 60); ([38;103;116;59], 62);
   ([38;113;117;111;116;59], 34); ([38;97;112;111;115;59], 39);
   ([38;35;49;51;59], 13); ([38;35;49;48;59], 10)].

Fixpoint match_ref (rs : list (str * N)) (s : str) : option (N * nat) :=
  match rs with
  | [] => None
  | (r, d) :: rs' => if starts_with r s then Some (d, length r) else match_ref rs' s
  end.

(* Reference decoder: left to right; at a '&' that starts one of the references emit the
   decoded character and skip the reference, otherwise copy the character.  `skip` is the
   number of characters of an already decoded reference still to be dropped. *)
Fixpoint unesc (skip : nat) (s : str) : str :=
  match s with
  | [] => []
  | c :: s' =>
    match skip with
    | S k => unesc k s'
    | O => match match_ref refs s with
           | Some (d, len) => d :: unesc (pred len) s'
           | None => c :: unesc 0 s'
           end
    end
  end.
Definition unescape (s : str) : str := unesc 0 s.

(* every '&' of s starts one of the allowed references *)
Fixpoint amp_ok (allowed : list (str * N)) (s : str) : bool :=
  match s with
  | [] => true
  | c :: s' =>
    (if c =? 38 then match match_ref allowed s with Some _ => true | None => false end else true)
    && amp_ok allowed s'
  end.
Definition text_refs := firstn 3 refs.

(* Correspondence driver: reads one case per line  "<id> <sx>"  where
   sx ::= <non-negative int> | "(" sx* ")", runs the extracted Model.run, prints "<id> <sx>". *)
module M = MODEL_MODULE

let rec pos_of_int (i : int) : M.positive =
  if i = 1 then M.XH
  else if i land 1 = 0 then M.XO (pos_of_int (i lsr 1))
  else M.XI (pos_of_int (i lsr 1))
let n_of_int (i : int) : M.n = if i = 0 then M.N0 else M.Npos (pos_of_int i)
let rec int_of_pos (p : M.positive) : int =
  match p with M.XH -> 1 | M.XO q -> 2 * int_of_pos q | M.XI q -> 2 * int_of_pos q + 1
let int_of_n (x : M.n) : int = match x with M.N0 -> 0 | M.Npos p -> int_of_pos p

(* parser over a string with an index *)
let parse (s : string) (start : int) : M.sx =
  let pos = ref start in
  let len = String.length s in
  let rec skip () = if !pos < len && s.[!pos] = ' ' then (incr pos; skip ()) in
  let rec item () : M.sx =
    skip ();
    if !pos >= len then failwith "eof"
    else if s.[!pos] = '(' then begin
      incr pos;
      let acc = ref [] in
      let rec go () =
        skip ();
        if !pos >= len then failwith "eof in list"
        else if s.[!pos] = ')' then incr pos
        else begin acc := item () :: !acc; go () end in
      go ();
      M.L (List.rev !acc)
    end else begin
      let st = !pos in
      while !pos < len && s.[!pos] >= '0' && s.[!pos] <= '9' do incr pos done;
      if !pos = st then failwith "bad token";
      M.A (n_of_int (int_of_string (String.sub s st (!pos - st))))
    end in
  item ()

let rec print (b : Buffer.t) (x : M.sx) : unit =
  match x with
  | M.A k -> Buffer.add_string b (string_of_int (int_of_n k))
  | M.L l ->
    Buffer.add_char b '(';
    List.iteri (fun i y -> if i > 0 then Buffer.add_char b ' '; print b y) l;
    Buffer.add_char b ')'

let () =
  let b = Buffer.create 65536 in
  (try
    while true do
      let line = input_line stdin in
      let sp = String.index line ' ' in
      let id = String.sub line 0 sp in
      Buffer.clear b;
      Buffer.add_string b id;
      Buffer.add_char b ' ';
      (try print b (M.RUN_FUNCTION (parse line (sp + 1)))
       with Failure m -> Buffer.add_string b ("!" ^ m)
          | Stack_overflow -> Buffer.add_string b "!stack");
      Buffer.add_char b '\n';
      print_string (Buffer.contents b)
    done
  with End_of_file -> ());
  flush stdout

#!/bin/sh
# MANIFEST.setup_cmd: build the framework offline from files on disk.
set -e
cd "$(dirname "$0")"
export PIP_NO_INDEX=1 PYTHONHASHSEED=0
# no declared axioms, no admitted proofs, no disabled kernel checks anywhere in the development
if grep -rnE '\b(Admitted|admit|Axiom|Parameter|Conjecture|Admit Obligations)\b|Unset Guard|bypass_check|type-in-type|impredicative-set' \
      --include='*.v' coq | grep -v '^coq/Gen/' ; then
  echo "setup: forbidden construct in the Coq development" >&2
  exit 1
fi
python3 tools/translate.py /repo coq/Gen/Tables.v
cd coq
coq_makefile -f _CoqProject -o Makefile
timeout 3000 make -j16
cd ../ocaml
ocamlfind ocamlopt -w -a -O3 -package str model.mli model.ml driver.ml -o driver
echo "setup: ok"

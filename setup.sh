#!/bin/sh
# MANIFEST.setup_cmd: build the framework offline from files on disk.
set -e
cd "$(dirname "$0")"
export PIP_NO_INDEX=1 PYTHONHASHSEED=0
# no declared axioms, no admitted proofs, no disabled kernel checks anywhere in the development
if grep -rnE '\b(Admitted|admit|Axiom|Parameter|Conjecture|Admit Obligations)\b|Unset Guard|bypass_check|type-in-type|impredicative-set' \
      --include='*.v' coq | grep -v '^coq/Gen/' ; then
  echo "setup: forbidden construct in the Coq development" >&2
  exit 1
fi
# translate /repo, regenerate _CoqProject/Makefile, full .vo build, all extracted drivers
/venv/bin/python - <<'PY'
import sys, os, glob
sys.path.insert(0, os.getcwd())
from harness import common
print(common.translate().strip())
rc, out = common.make([], timeout=3000)
print(out[-3000:])
if rc != 0:
    sys.exit("setup: coq build failed")
for f in sorted(glob.glob("coq/Extract/Extract*.v")):
    name = os.path.basename(f)[len("Extract"):-2].lower()
    print("driver", name, common.build_driver(name))
PY
echo "setup: ok"

#!/bin/sh
# MANIFEST.setup_cmd: build the framework offline from files on disk.
set -e
cd "$(dirname "$0")"
export PIP_NO_INDEX=1 PYTHONHASHSEED=0
# no declared axioms, no admitted proofs, no disabled kernel checks anywhere in the development
if grep -rnE '\b(Admitted|admit|Axiom|Parameter|Conjecture|Admit Obligations)\b|Unset Guard|bypass_check|type-in-type|impredicative-set' \
      --include='*.v' coq | grep -v '^coq/Gen/' ; then
  echo "setup: forbidden construct in the Coq development" >&2
  exit 1
fi
# translate /repo, regenerate _CoqProject/Makefile, full .vo build, all extracted drivers
/venv/bin/python - <<'PY'
import sys, os, glob
sys.path.insert(0, os.getcwd())
from harness import common
print(common.translate().strip())
# full .vo build; -k: a file that does not build (e.g. work in progress for a property that is
# not registered yet) must not prevent the others from being built -- every check rebuilds and
# re-checks exactly what it depends on and reports its own failures
rc, out = common.make([], timeout=3000, keep_going=True)
print(out[-3000:])
if rc != 0:
    print("setup: WARNING: some Coq files did not build (see above)")
failed = []
for f in sorted(glob.glob("coq/Extract/Extract*.v")):
    name = os.path.basename(f)[len("Extract"):-2].lower()
    try:
        print("driver", name, common.build_driver(name))
    except common.BuildError as e:
        failed.append(name)
        print("setup: WARNING: driver", name, "not built:", e.what)
if "core" in failed:
    sys.exit("setup: core model failed to build")
PY
echo "setup: ok"

#!/venv/bin/python
"""C18 worker: builds and renders a battery of tree / document descriptions and prints what
it observed, as JSON.  Two uses:

  * subprocess entry point (this is where the property is observed):
        PYTHONHASHSEED=<seed> PYTHONPATH=<repo> /venv/bin/python /verif/harness/c18_worker.py <order-seed>
    reads {"items": [...]} on stdin, processes the items in the order given by a
    permutation derived from <order-seed> (so every item is built and rendered after a
    different history in every process), prints {"meta": ..., "results": {id: observation}}.
  * the same with  --isolated  as second argument: every item is observed in its own forked
    child of a process that has imported htmltools and built / rendered nothing (the
    reference for "regardless of what was built or rendered earlier in the process").
  * order seed 0 = the order given;  --raw=<item id>  keeps the rendered texts of that item (both are
    used only after a difference has been seen, to show it and to find the earlier item that matters).
  * imported by harness/props/C18.py for the in-process reference run (`observe`).

Everything printed is a digest, a name, a version string or an index: nothing that depends
on object addresses or on the iteration order of a set.

Descriptions (JSON; tuples of harness/trees.py arrive as lists):
  node ::= ["T", s] | ["H", s] | ["R", s]            str / HTML / object with _repr_html_
         | ["M", null]                               MetadataNode()
         | ["M", {"hc": [node...]}]                  head_content( *nodes )
         | ["M", {"name":..., "version":..., ...}]   HTMLDependency( **payload )
         | ["G", name, ws, [[key, ["S"|"H", v]]...], [node...]]     Tag, attributes stored as is
         | ["K", name, [dict...], [[key, value]...], [node...]]     Tag(name, *dicts, *kids, **kw)
         | ["C", self_html|null, [node...], as_list]                 object with tagify()
         | ["L", [node...]] | ["L", [node...], "t"]  a Python list / tuple of children (they nest; the
                                                     constructors flatten them)
  Any string anywhere in an item may be written {"$rep": [unit, n, pos, ins]}: the first n characters
  of unit repeated, with `ins` inserted at position pos (long strings stay readable in replay files);
  and {"$cat": [part...]}: the parts (strings in either notation) joined;
  `expand` (applied by `observe`) replaces these by the strings they stand for.
  item ::= {"id", "kind": "tree", "descs": [node...], "doc_kw": [[k, v]...],
            "doc_opts": [[lib_prefix|null, include_version]...]}   (optional: further
                        HTMLDocument.render(lib_prefix=, include_version=) settings)
         | {"id", "kind": "expr", "name": <key of EXPRS>}
         | {"id", "kind": "text", "text": s, "deps": [payload...], "pattern": s|null}
         | {"id", "kind": "resolve", "deps": [payload...]}
         | {"id", "kind": "sharedlist", "texts": [s...], "deps": [payload...], "pattern": s, "opts": {...}}
                        several HTMLTextDocument objects built from ONE deps list object
         | {"id", "kind": "unique", "values": [s...]}
         | {"id", "kind": "prog", "steps": [step...], "doc_kw": [[k, val]...]}
                        a small program over the PUBLIC construction / mutation API (class Prog
                        below); the object observed is TagList(*registers)
  tree / prog / expr items may carry "opts": {...}: the object is then ALSO taken through every other
  public entry point, with these non-default arguments (see observe_routes):
      indent, eol, add_ws      get_html_string(indent, eol, add_ws=) of TagList / Tag, before and after tagify()
      wrap                     name of a Tag the children are also placed in (one object in two parents)
      lib_prefix, include_version, libdir, save ("list" | "tag" | "doc" | null)
                               HTMLDocument(...).render(lib_prefix=, include_version=), its copy.copy, .append();
                               TagList / Tag / HTMLDocument .save_html(file, libdir=, include_version=)
      pattern                  deps_replace_pattern of the HTMLTextDocument the json-mode text goes through
      build_json               the object is BUILT while html_dependency_render_mode == "json"
      groups                   which groups of routes are taken (ROUTE_GROUPS; absent: all of them)

Typed values of programs (a JSON scalar stands for itself: str, int, float, bool, null):
  val ::= scalar | {"h": s} HTML(s) | {"u": s} str-subclass instance | {"hs": s} HTML-subclass instance
        | {"js": s} jsx(s) | {"x": "obj"|"bytes"|"list"|"complex"} a value of an unsupported type
        | {"css": [[k, val]...], "collapse": s} the result of css(**kw)
        | {"l": [val...]} list | {"d": [[k, val]...]} dict
        | {"r": i} the object in register i | {"n": node} a node description (see above)
        | {"ra": i} the .attrs object of the tag in register i (given as an attribute dict)
  arg ::= {"a": [[key, val]...]} an attribute dict | val (a child)
  step ::= ["tag", name, ws|null, [arg...], [[k, val]...]]      Tag(name, *args, **kw)        -> new register
         | ["fn", "tags"|"svg", name, [arg...], [[k, val]...]]  htmltools.tags.<name>(...)    -> new register
         | ["jsx", name, [arg...], [[k, val]...]]               jsx_tag_create(name)(...)     -> new register
         | ["list", [val...]]                                   TagList(*kids)                -> new register
         | ["cons", [arg...], [[k, val]...]]    Tag("div", *consolidate_attrs(...))           -> new register
         | ["copy"|"deepcopy"|"tagify", r]                                                    -> new register
         | ["add_class", r, val, prepend] | ["remove_class", r, val] | ["add_style", r, val, prepend]
         | ["set", r, key, val] | ["upd", r, [[[k, val]...]...], [[k, val]...]] | ["del", r, key]
         | ["append", r, [val...]] | ["extend", r, [val...]] | ["insert", r, i, val] | ["iadd", r, [val...]]
         | ["has_class", r, val] | ["get", r, key] | ["attrs", r] | ["render", r] | ["deps", r, dedup]     (results go to the trace)
         | ["css", [[k, val]...], collapse] | ["escape", s, attr]                      (results go to the trace)
A step that raises is recorded in the trace as [index, "err", <exception class name>] and the
program goes on (a creating step then leaves None in its register).
"""
from __future__ import annotations

import copy
import hashlib
import json
import os
import random
import sys
import tempfile

_HERE = os.path.dirname(os.path.abspath(__file__))
_VERIF = os.path.dirname(_HERE)
if __name__ == "__main__":
    # the script directory (harness/) must not shadow anything; the package root must be there
    sys.path[:] = [p for p in sys.path if os.path.abspath(p or ".") != _HERE]
    sys.path.insert(0, _VERIF)
    from harness import common, trees  # noqa: E402  (common puts the repo first on sys.path)
else:
    from . import common, trees

import htmltools  # noqa: E402
from htmltools import (HTML, HTMLDependency, HTMLDocument, HTMLTextDocument, MetadataNode,  # noqa: E402
                       Tag, TagList, css, head_content, tags)
from htmltools import _core, _util  # noqa: E402

HC_PREFIX = "headcontent_"


def rep_string(unit: str, n: int, pos: int, ins: str) -> str:
    base = (unit * (n // max(1, len(unit)) + 1))[:n]
    return base[:pos] + ins + base[pos:]


def expand(x):
    """replace every {"$rep": [unit, n, pos, ins]} by the string it stands for"""
    if isinstance(x, dict):
        if "$rep" in x:
            return rep_string(*x["$rep"])
        if "$cat" in x:
            return "".join(expand(y) for y in x["$cat"])
        return {k: expand(v) for k, v in x.items()}
    if isinstance(x, (list, tuple)):
        return [expand(v) for v in x]
    return x


def digest(s: str) -> str:
    return hashlib.sha256(s.encode("utf-8", "surrogatepass")).hexdigest()


def safe(f):
    """('ok', value) | ('err', exception class name); an implementation call that does not return
    within common.IMPL_LIMIT seconds is the value ('err', 'did-not-terminate')"""
    try:
        with common.time_limit():
            return ["ok", f()]
    except common.ImplTimeout:
        return ["err", "did-not-terminate"]
    except RecursionError:
        return ["err", "RecursionError"]
    except Exception as e:  # noqa: BLE001
        return ["err", type(e).__name__]


# ----------------------------------------------------------------------------------------
# building
# ----------------------------------------------------------------------------------------
class Builder:
    """Builds live objects from a description.  Dependencies get `_verif_id` = their index in
    construction order (it survives the copy() that tagify() applies to metadata nodes);
    every head_content call is logged as (name, rendered content of its arguments)."""

    def __init__(self, reuse: bool = False) -> None:
        self.reuse = reuse            # also make every dependency a second time from the same argument objects
        self.next_id = 0
        self.hc_log: list[list[str]] = []
        # constructions that, repeated with the very same argument objects, gave another result
        self.reuse_bad: list[str] = []

    def tag_id(self, d):
        d._verif_id = self.next_id
        self.next_id += 1
        return d

    def dep(self, payload: dict):
        p = copy.deepcopy(payload)
        d = HTMLDependency(**p)
        # the caller's argument objects used a second time (a constructor may normalise them in place;
        # what it may not do is make the second construction differ from the first)
        if self.reuse:
            t1 = safe(lambda: dep_text(d))
            t2 = safe(lambda: dep_text(HTMLDependency(**p)))
            if t1 != t2:
                self.reuse_bad.append("HTMLDependency %s %s" % (payload.get("name"), payload.get("version")))
        return self.tag_id(d)

    def node(self, d):
        k = d[0]
        if k == "T":
            return d[1]
        if k == "H":
            return HTML(d[1])
        if k == "R":
            return trees.ReprObj(d[1])
        if k == "M":
            p = d[1]
            if p is None:
                return MetadataNode()
            if "hc" in p:
                my_id = self.next_id      # pre-order numbering: the dependency before its payload
                self.next_id += 1
                kids = [self.node(x) for x in p["hc"]]
                h = head_content(*kids)
                h._verif_id = my_id
                # the rendered content, taken from a second, independent rendering
                content = TagList(*kids).get_html_string()
                self.hc_log.append([h.name, content])
                # the same argument objects once more: the name is a function of the content
                self.hc_log.append([head_content(*kids).name, content])
                return h
            return self.dep(p)
        if k == "G":
            _, name, ws, attrs, kids = d
            t = Tag(name, *[self.node(x) for x in kids], _add_ws=ws)
            for key, (m, v) in attrs:
                dict.__setitem__(t.attrs, key, HTML(v) if m == "H" else v)
            return t
        if k == "K":
            _, name, dicts, kw, kids = d
            return Tag(name, *[dict(x) for x in dicts], *[self.node(x) for x in kids],
                       **{kk: vv for kk, vv in kw})
        if k == "C":
            _, sh, exp, as_list = d
            exp_b = [self.node(x) for x in exp]
            if sh is None:
                return trees.CustomObj(exp_b, as_list)
            return trees.CustomReprObj(exp_b, as_list, sh)
        if k == "L":
            xs = [self.node(x) for x in d[1]]
            return tuple(xs) if len(d) > 2 and d[2] == "t" else xs
        raise ValueError(d)


# ----------------------------------------------------------------------------------------
# programs over the public construction / mutation API
# ----------------------------------------------------------------------------------------
def _short(v):
    s = str(v)
    return s if len(s) <= 160 else s[:150] + "...#" + digest(s)[:12]


class Opaque:
    """a value of a type the library does not know (its text must not contain an address: JSX props
    are written with str())"""

    def __repr__(self) -> str:
        return "<opaque>"


class Prog:
    """Interpreter of the step language described in the module docstring.  Only public API is
    called (Tag / tag functions / TagList / attrs / class and style helpers / css / consolidate_attrs /
    copy / tagify; JSX components through htmltools._jsx.jsx_tag_create)."""

    def __init__(self, bld: Builder) -> None:
        self.b = bld
        self.regs: list = []
        self.trace: list = []

    # -- values --------------------------------------------------------------------------
    def val(self, v):
        if isinstance(v, list):
            return [self.val(y) for y in v]
        if not isinstance(v, dict):
            return v
        if "h" in v:
            return HTML(v["h"])
        if "u" in v:
            return trees.StrSub(v["u"])
        if "hs" in v:
            return trees.HtmlSub(v["hs"])
        if "js" in v:
            from htmltools._jsx import jsx
            return jsx(v["js"])
        if "x" in v:
            return {"obj": Opaque(), "bytes": b"x", "list": [1, 2], "complex": 1j}[v["x"]]
        if "css" in v:
            return css(v.get("collapse", ""), **{k: self.val(y) for k, y in v["css"]})
        if "l" in v:
            return [self.val(y) for y in v["l"]]
        if "d" in v:
            return {k: self.val(y) for k, y in v["d"]}
        if "r" in v:
            return self.regs[v["r"]]
        if "ra" in v:
            return self.regs[v["ra"]].attrs
        if "n" in v:
            return self.b.node(v["n"])
        raise ValueError(v)

    def args(self, args):
        return [({k: self.val(y) for k, y in a["a"]} if isinstance(a, dict) and "a" in a else self.val(a))
                for a in args]

    def kw(self, kw):
        return {k: self.val(y) for k, y in kw}

    # -- steps ---------------------------------------------------------------------------
    def step(self, st):
        op = st[0]
        R = self.regs
        if op == "tag":
            extra = {} if st[2] is None else {"_add_ws": st[2]}
            return "new", Tag(st[1], *self.args(st[3]), **extra, **self.kw(st[4]))
        if op == "fn":
            f = getattr(htmltools.svg if st[1] == "svg" else tags, st[2])
            return "new", f(*self.args(st[3]), **self.kw(st[4]))
        if op == "jsx":
            from htmltools._jsx import jsx_tag_create
            return "new", jsx_tag_create(st[1])(*self.args(st[2]), **self.kw(st[3]))
        if op == "list":
            return "new", TagList(*self.args(st[1]))
        if op == "cons":
            attrs, kids = htmltools.consolidate_attrs(*self.args(st[1]), **self.kw(st[2]))
            return "new", Tag("div", attrs, *kids)
        if op == "copy":
            return "new", copy.copy(R[st[1]])
        if op == "deepcopy":
            return "new", copy.deepcopy(R[st[1]])
        if op == "tagify":
            return "new", R[st[1]].tagify()
        t = R[st[1]] if op not in ("css", "escape") else None
        if op == "add_class":
            t.add_class(self.val(st[2]), prepend=st[3])
        elif op == "remove_class":
            t.remove_class(self.val(st[2]))
        elif op == "add_style":
            t.add_style(self.val(st[2]), prepend=st[3])
        elif op == "set":
            t.attrs[st[2]] = self.val(st[3])
        elif op == "upd":
            t.attrs.update(*[{k: self.val(y) for k, y in d} for d in st[2]], **self.kw(st[3]))
        elif op == "del":
            del t.attrs[st[2]]
        elif op == "append":
            t.append(*self.args(st[2]))
        elif op == "extend":
            t.extend(self.args(st[2]))
        elif op == "insert":
            t.insert(st[2], self.val(st[3]))
        elif op == "iadd":
            t.children += self.args(st[2])
        elif op == "has_class":
            return "obs", bool(t.has_class(self.val(st[2])))
        elif op == "get":
            v = t.attrs.get(st[2])
            return "obs", None if v is None else _short(v)
        elif op == "attrs":
            return "obs", [[k, _short(v)] for k, v in t.attrs.items()]
        elif op == "render":
            return "obs", digest(str(t))
        elif op == "deps":
            return "obs", [[d.name, str(d.version)] for d in t.get_dependencies(dedup=bool(st[2]))]
        elif op == "css":
            return "obs", css(st[2], **self.kw(st[1]))
        elif op == "escape":
            return "obs", htmltools.html_escape(st[1], st[2])
        else:
            raise ValueError(st)
        return "done", None

    def run(self, steps) -> None:
        creating = ("tag", "fn", "jsx", "list", "cons", "copy", "deepcopy", "tagify")
        for i, st in enumerate(steps):
            try:
                what, v = self.step(st)
            except RecursionError:
                what, v = "err", "RecursionError"
            except Exception as e:  # noqa: BLE001 - fault paths are part of the language
                what, v = "err", type(e).__name__
            if what == "new":
                self.regs.append(v)
            elif what == "obs":
                self.trace.append([i, "ok", v])
            elif what == "err":
                self.trace.append([i, "err", v])
                if st[0] in creating:
                    self.regs.append(None)


def dep_text(d) -> str:
    """everything a dependency contributes to a page, as text"""
    return d.serialize_to_script_json().get_html_string() + "|" + \
        d.as_html_tags(lib_prefix="L", include_version=True).get_html_string()


def _dep_full(name, version, **kw):
    return HTMLDependency(name, version, **kw)


# Hand-written constructions through the public API (dict-valued arguments, attribute dicts
# in various orders, helpers).  Each returns the object to render.
EXPRS = {
    "attrs_kw_order_1": lambda: tags.div("x", id="a", class_="b c", title="t", data_x="1", style="s"),
    "attrs_kw_order_2": lambda: tags.div("x", style="s", data_x="1", title="t", class_="b c", id="a"),
    "attrs_dicts": lambda: tags.div({"id": "a", "class": "k1"}, {"class": "k2", "data-z": "z", "data-a": "a"},
                                    "x", class_="k3", **{"aria-label": "L", "data-m": "m"}),
    "attrs_many": lambda: Tag("span", {f"data-k{i}": str(i) for i in (7, 3, 11, 1, 5, 2, 13, 0, 9)}, "y"),
    "attrs_bool_none": lambda: tags.input(type="checkbox", checked=True, disabled=False, value=None,
                                          name="n", **{"data-q": 1.5}),
    "css_helper": lambda: tags.p("t", style=css(color="red", font_size="12px", margin_top=None,
                                                **{"background-color": "blue", "z_index": 3})),
    "css_collapse": lambda: tags.p(css(a="1", b="2", c="3", collapse_="\n")),
    "class_helpers": lambda: tags.div("c", class_="z y").add_class("x").add_class("w", prepend=True)
                                 .remove_class("y").add_style("color: red;").add_style("top: 0;", prepend=True),
    "nested_lists": lambda: TagList("a", ["b", ("c", [tags.b("d"), None, 1, 2.5]), TagList("e", HTML("<f>"))], None),
    "deps_dicts": lambda: tags.div(
        _dep_full("lib-a", "1.2.3", source={"subdir": "/nonexistent/lib-a"},
                  script=[{"src": "a.js", "defer": "", "type": "module", "data-z": "1", "crossorigin": "anonymous"},
                          {"src": "b c.js"}],
                  stylesheet=[{"href": "a.css", "media": "screen", "title": "T"}, {"href": "é.css"}],
                  meta=[{"name": "viewport", "content": "width=device-width"}, {"name": "x", "content": "y", "lang": "en"}],
                  head='<link rel="icon" href="x.ico">'),
        _dep_full("lib-b", "0.10", source={"href": "https://cdn.example/lib-b/0.10"},
                  script={"src": "b.min.js", "integrity": "sha384-xyz"}),
        _dep_full("lib-a", "1.10.0", source={"subdir": "/nonexistent/lib-a2"}, script={"src": "a2.js"}),
        _dep_full("lib-c", "2", head=tags.title("T<>")),
        "body"),
    "deps_collide": lambda: TagList(*[
        tags.span(_dep_full(n, v, script={"src": f"{n}-{v}.js"}), n)
        for n, v in [("q", "1"), ("p", "2.0"), ("q", "1.0"), ("r", "3"), ("p", "2"), ("q", "0.9"),
                     ("s", "1"), ("r", "3.0.1"), ("a", "1"), ("p", "10"), ("Q", "1"), ("s", "1.0.0")]]),
    "hc_lists": lambda: tags.body(
        head_content(tags.title("One"), [tags.meta(name="m", content="1"), [HTML("<!-- c -->")]]),
        tags.div(head_content(tags.title("One"), tags.meta(name="m", content="1"), HTML("<!-- c -->"))),
        head_content(tags.title("Two")),
        head_content("<"), head_content(HTML("&lt;")), head_content(HTML("<"))),
    "jsx_free_svg": lambda: htmltools.svg.svg(htmltools.svg.circle(cx="1", cy="2", r="3"),
                                               viewBox="0 0 1 1", xmlns="http://www.w3.org/2000/svg"),
    "consolidate": lambda: (lambda r: tags.div(r[0], *r[1]))(
        htmltools.consolidate_attrs({"class": "a", "id": "i"}, "kid", {"class": "b", "data-x": "1"}, class_="c")),
}


# ----------------------------------------------------------------------------------------
# observing
# ----------------------------------------------------------------------------------------
def dep_row(d) -> list:
    return [d.name, str(d.version), getattr(d, "_verif_id", -1)]


def _with_mode(mode: str, f):
    old = htmltools.html_dependency_render_mode
    htmltools.html_dependency_render_mode = mode
    try:
        return f()
    finally:
        htmltools.html_dependency_render_mode = old


def _dg(r):
    return ["ok", digest(r[1])] if r[0] == "ok" else r


ROUTE_GROUPS = ["markup", "wrap", "copies", "grow", "docs", "save", "json", "with"]


def observe_routes(x, doc_kw, o: dict, raw: bool) -> tuple[dict, dict]:
    """x through every other public entry point, with the non-default arguments of o (see the module
    docstring).  Returns (observation: digests / names / booleans, texts of the document-like results)."""
    R: dict = {}
    RAW: dict = {}
    groups = o.get("groups") or ROUTE_GROUPS
    ind, eol, aw = o.get("indent", 0), o.get("eol", "\n"), o.get("add_ws", True)
    lp, iv = o.get("lib_prefix", "lib"), o.get("include_version", True)
    kw = {k: v for k, v in doc_kw}

    def ghs(y):
        if isinstance(y, TagList):
            return y.get_html_string(ind, eol, add_ws=aw)
        return y.get_html_string(ind, eol)

    def rows(deps):
        return [dep_row(d) for d in deps]

    def rendered(name, f):
        r = safe(f)
        if r[0] == "ok":
            R[name] = ["ok", digest(r[1]["html"]), rows(r[1]["dependencies"])]
            if raw:
                RAW[name] = r[1]["html"]
        else:
            R[name] = r

    if "markup" in groups:
        R["ghs"] = _dg(safe(lambda: ghs(x)))
        R["repr"] = _dg(safe(lambda: repr(x)))
        R["repr_html"] = _dg(safe(lambda: x._repr_html_()))
    t = safe(lambda: x.tagify()) if "markup" in groups else ["skipped"]
    if t[0] == "skipped":
        pass
    elif t[0] == "ok":
        tx = t[1]
        R["tagify_ghs"] = _dg(safe(lambda: ghs(tx)))
        R["deps_all"] = safe(lambda: rows(tx.get_dependencies(dedup=False)))
        R["deps_dedup"] = safe(lambda: rows(tx.get_dependencies(dedup=True)))
        R["tagify_twice"] = _dg(safe(lambda: ghs(tx.tagify())))
    else:
        R["tagify"] = t
    # the same children in a second parent
    w = safe(lambda: Tag(o.get("wrap", "div"), x, {"id": "w"}))
    wt = w[1] if w[0] == "ok" else None
    if "wrap" not in groups:
        pass
    elif wt is not None:
        rendered("tag_render", lambda: wt.render())
        R["tag_ghs"] = _dg(safe(lambda: wt.tagify().get_html_string(ind, eol)))
        R["tag_deps_all"] = safe(lambda: rows(wt.tagify().get_dependencies(dedup=False)))
        R["tag_deps"] = safe(lambda: rows(wt.tagify().get_dependencies()))
        R["tag_str"] = _dg(safe(lambda: str(wt)))
        R["tag_repr_html"] = _dg(safe(lambda: wt._repr_html_()))
        rendered("tag_doc", lambda: HTMLDocument(wt, **kw).render(lib_prefix=lp, include_version=iv))
    else:
        R["wrap"] = w
    # copies, comparisons
    for nm, cp in (("copy", copy.copy), ("deepcopy", copy.deepcopy)) if "copies" in groups else ():
        c = safe(lambda: cp(x))
        if c[0] == "ok":
            R[nm] = [_dg(safe(lambda: str(c[1]))), safe(lambda: bool(x == c[1])), safe(lambda: bool(c[1] == x)),
                     _dg(safe(lambda: c[1].render()["html"]))]
        else:
            R[nm] = c
    # + / += / insert / append / extend on a copy
    if isinstance(x, TagList) and "grow" in groups:
        extra = ["t<", HTML("<i>"), 1.5, None, ["in a list"]]
        R["add"] = _dg(safe(lambda: str(x + extra)))
        R["radd"] = _dg(safe(lambda: str(extra + x)))

        def grown():
            c = copy.copy(x)
            c += extra
            c.insert(0, "first")
            c.append("z", HTML("<z>"))
            c.extend(extra)
            return str(c)
        R["grown"] = _dg(safe(grown))
    # documents
    def appended():
        d = HTMLDocument(**kw)
        d.append(x)
        return d.render(lib_prefix=lp, include_version=iv)
    if "docs" in groups:
        rendered("doc_opts", lambda: HTMLDocument(x, **kw).render(lib_prefix=lp, include_version=iv))
        rendered("doc_opts_again", lambda: HTMLDocument(x, **kw).render(lib_prefix=lp, include_version=iv))
        rendered("doc_copy", lambda: copy.copy(HTMLDocument(x, **kw)).render(lib_prefix=lp, include_version=iv))
        rendered("doc_append", appended)
    # save_html
    sv = o.get("save") if "save" in groups else None
    if sv:
        libdir = o.get("libdir", "lib")
        with tempfile.TemporaryDirectory(prefix="c18-") as td:
            out_dir = os.path.join(td, "out")
            os.makedirs(out_dir)
            f = os.path.join(out_dir, "page.html")
            if sv == "tag" and wt is not None:
                call = lambda: wt.save_html(f, libdir=libdir, include_version=iv)      # noqa: E731
            elif sv == "doc":
                call = lambda: HTMLDocument(x, **kw).save_html(f, libdir, iv)          # noqa: E731
            else:
                call = lambda: x.save_html(f, libdir=libdir, include_version=iv)       # noqa: E731
            r = safe(call)
            if r[0] == "ok":
                with open(f, "rb") as fh:
                    data = fh.read()
                files = []
                for root, _dirs, names in os.walk(out_dir):
                    for n in names:
                        full = os.path.join(root, n)
                        files.append([os.path.relpath(full, out_dir), os.path.getsize(full)]
                                     if n != "page.html" else [n, -1])
                R["save"] = ["ok", hashlib.sha256(data).hexdigest(), sorted(files)]
                if raw:
                    RAW["save"] = data.decode("utf-8", "replace")
            else:
                R["save"] = r
    # json render mode: every str-like route, and the text document the output is meant for
    js = ["skipped"]
    if "json" in groups:
        R["json_repr"] = _dg(safe(lambda: _with_mode("json", lambda: repr(x))))
        R["json_repr_html"] = _dg(safe(lambda: _with_mode("json", lambda: x._repr_html_())))
        if wt is not None:
            R["json_tag_str"] = _dg(safe(lambda: _with_mode("json", lambda: str(wt))))
        js = safe(lambda: _with_mode("json", lambda: str(x)))
    if js[0] == "ok":
        pat = o.get("pattern", "@@DEPS@@")
        text = "<html><head>" + pat + "</head><body>" + js[1] + pat + "\n" + js[1] + "</body></html>"

        def textdoc():
            given = [HTMLDependency("given-dep", "1.0", script={"src": "g.js"})]
            td_ = HTMLTextDocument(text, deps=given, deps_replace_pattern=pat)
            return td_.render(lib_prefix=lp, include_version=iv)
        rendered("textdoc", textdoc)
        if len(text) < 200000:
            # (the library scans the text with a lazy regular expression: a long text is given once)
            rendered("textdoc_again", textdoc)
            rendered("textdoc_json", lambda: _with_mode("json", textdoc))
    # the with-block route (sys.displayhook), then the tag copied / compared / rendered
    def withblock():
        t_ = Tag(o.get("wrap", "div"), {"class": "ctx"})
        old = sys.displayhook
        sink: list = []
        sys.displayhook = sink.append
        try:
            with t_:
                sys.displayhook(x)
                sys.displayhook("text<")
                sys.displayhook(None)
                sys.displayhook(trees.ReprObj("<r/>"))
        finally:
            sys.displayhook = old
        c = copy.copy(t_)
        rr = t_.render()
        return [digest(str(t_)), rows(rr["dependencies"]), digest(str(c)), bool(t_ == c), bool(c == t_),
                len(sink), digest(HTMLDocument(t_, **kw).render(lib_prefix=lp, include_version=iv)["html"])]
    if "with" in groups:
        R["with"] = safe(withblock)
    # results handed out are the caller's: changing them changes nothing
    def mutate_results():
        r1 = x.render()
        r1["dependencies"].reverse()
        r1["dependencies"].append(None)
        d1 = HTMLDocument(x, **kw).render()
        d1["dependencies"].clear()
        g = x.tagify().get_dependencies()
        g.clear()
        x.tagify().get_dependencies(dedup=False).clear()
    safe(mutate_results)
    R["deps_after"] = safe(lambda: rows(x.render()["dependencies"]))
    # after all of the above the object itself renders as before
    R["html_after"] = _dg(safe(lambda: x.render()["html"]))
    return R, RAW


def observe_object(mk, doc_kw, raw: bool, doc_opts=(), opts: dict | None = None) -> dict:
    """mk() builds the object (fresh each call).  Everything the property talks about:
    markup digest, dependency order, head_content names, document digest, json-mode digest,
    extraction order."""
    out: dict = {}
    if opts and opts.get("build_json"):
        b = safe(lambda: _with_mode("json", mk))
    else:
        b = safe(mk)
    if b[0] == "err":
        return {"build": b}
    x, hc_log = b[1][0], b[1][1]
    out["build"] = ["ok", None]
    if len(b[1]) > 2 and b[1][2] is not None:
        out["trace"] = b[1][2]
    if len(b[1]) > 3 and b[1][3]:
        out["reuse_bad"] = b[1][3]
    out["hc"] = [[n, digest(c)] for n, c in hc_log]
    if raw:
        out["_hc_raw"] = hc_log

    def render():
        r = x.render()
        return r
    r = safe(render)
    if r[0] == "ok":
        out["html"] = ["ok", digest(r[1]["html"])]
        out["deps"] = [dep_row(d) for d in r[1]["dependencies"]]
        if raw:
            out["_html_raw"] = r[1]["html"]
    else:
        out["html"] = r

    def document():
        return HTMLDocument(x, **{k: v for k, v in doc_kw}).render()
    dr = safe(document)
    if dr[0] == "ok":
        out["doc"] = ["ok", digest(dr[1]["html"])]
        out["doc_deps"] = [dep_row(d) for d in dr[1]["dependencies"]]
        if raw:
            out["_doc_raw"] = dr[1]["html"]
    else:
        out["doc"] = dr

    # the places where dependency URLs are written, under further path settings
    variants = []
    for lib_prefix, include_version in doc_opts:
        def document2():
            return HTMLDocument(x, **{k: v for k, v in doc_kw}).render(
                lib_prefix=lib_prefix, include_version=include_version)
        v = safe(document2)
        hrefs = safe(lambda: [d.source_path_map(lib_prefix=lib_prefix, include_version=include_version)["href"]
                              for d in x.render()["dependencies"]])
        if v[0] == "ok":
            variants.append([lib_prefix, include_version, ["ok", digest(v[1]["html"])], hrefs])
            if raw:
                out.setdefault("_doc_variants_raw", []).append(v[1]["html"])
        else:
            variants.append([lib_prefix, include_version, v, hrefs])
    if doc_opts:
        out["doc_variants"] = variants

    def json_mode():
        old = htmltools.html_dependency_render_mode
        htmltools.html_dependency_render_mode = "json"
        try:
            return str(x)
        finally:
            htmltools.html_dependency_render_mode = old
    js = safe(json_mode)
    if js[0] == "ok":
        out["json"] = ["ok", digest(js[1])]

        def extract():
            if len(js[1]) > 100000 and opts and "json" in (opts.get("groups") or ROUTE_GROUPS):
                return "see routes.textdoc"     # (a long text is scanned once: there)
            text = "<html><head>@@DEPS@@</head><body>" + js[1] + "\n" + js[1] + "</body></html>"
            td = HTMLTextDocument(text, deps_replace_pattern="@@DEPS@@")
            rr = td.render()
            return [[[d.name, str(d.version)] for d in rr["dependencies"]], digest(rr["html"])]
        out["extract"] = safe(extract)
    else:
        out["json"] = js

    if opts:
        R, RAW = observe_routes(x, doc_kw, opts, raw)
        out["routes"] = R
        if raw:
            out["_routes_raw"] = RAW

    # the same object again, after everything above: rendering is not affected by history; nor is anything else
    # the object carries (json mode writes every dependency out in full)
    if js[0] == "ok":
        out["json_again"] = _dg(safe(json_mode))
    r2 = safe(render)
    out["html_again"] = ["ok", digest(r2[1]["html"])] if r2[0] == "ok" else r2
    s = safe(lambda: str(x))
    out["str"] = ["ok", digest(s[1])] if s[0] == "ok" else s
    return out


def observe(item: dict, raw: bool = False) -> dict:
    item = expand(item)
    k = item["kind"]
    if k == "tree":
        def mk():
            bld = Builder(reuse="opts" in item)
            kids = [bld.node(d) for d in item["descs"]]
            return TagList(*kids), bld.hc_log, None, bld.reuse_bad
        return observe_object(mk, item.get("doc_kw", []), raw, item.get("doc_opts", []), item.get("opts"))
    if k == "prog":
        def mk3():
            bld = Builder(reuse="opts" in item)
            pr = Prog(bld)
            pr.run(item["steps"])
            # the same program WITHOUT its read-only steps (has_class / get / attrs / render / deps): what was read
            # on the way must not show in what the objects are at the end -- their own dependency lists and markup,
            # asked of the very objects (no tagify() copy in between)
            reads = ("has_class", "get", "attrs", "render", "deps")
            if any(st[0] in reads for st in item["steps"]):
                sh = Prog(Builder(reuse="opts" in item))
                sh.run([st for st in item["steps"] if st[0] not in reads])

                def direct(y):
                    return [safe(lambda: [[d.name, str(d.version)] for d in y.get_dependencies(dedup=False)]),
                            safe(lambda: [[d.name, str(d.version)] for d in y.get_dependencies()]),
                            _dg(safe(lambda: y.get_html_string()))]
                for i, (r1, r2) in enumerate(zip(pr.regs, sh.regs)):
                    if r1 is None or r2 is None or not hasattr(r1, "get_dependencies"):
                        continue
                    d1, d2 = direct(r1), direct(r2)
                    if d1 != d2:
                        bld.reuse_bad.append("register %d after the program with its read-only steps: get_dependencies(dedup=False) / "
                                             "get_dependencies() / get_html_string() of the object itself = %r, but %r after the same "
                                             "program without them" % (i, d1, d2))
                        break
            return TagList(*[r for r in pr.regs if r is not None]), bld.hc_log, pr.trace, bld.reuse_bad
        return observe_object(mk3, [[kk, Prog(Builder()).val(vv)] for kk, vv in item.get("doc_kw", [])], raw,
                              item.get("doc_opts", []), item.get("opts"))
    if k == "expr":
        def mk2():
            return EXPRS[item["name"]](), []
        return observe_object(mk2, [], raw, (), item.get("opts"))
    if k == "text":
        def text():
            bld = Builder(reuse="opts" in item)
            deps = [bld.dep(p) for p in item["deps"]]
            if item["pattern"] is None:
                td = HTMLTextDocument(item["text"])
            else:
                td = HTMLTextDocument(item["text"], deps=deps, deps_replace_pattern=item["pattern"])
            rr = td.render()
            rest, found = HTMLTextDocument._static_extract_serialized_html_deps(item["text"])
            res = {"deps": [[d.name, str(d.version)] for d in rr["dependencies"]],
                   "html": digest(rr["html"]),
                   "static": [[d.name, str(d.version)] for d in found], "rest": digest(rest)}
            o = item.get("opts")
            if o:
                lp, iv = o.get("lib_prefix", "lib"), o.get("include_version", True)
                r2 = td.render(lib_prefix=lp, include_version=iv)
                res["opts"] = [digest(r2["html"]), [[d.name, str(d.version)] for d in r2["dependencies"]]]
                # the same document again, and a second document built from equal arguments (its own list)
                res["html_again"] = digest(td.render()["html"])
                # (its own list here; several documents from the SAME list object: item kind "sharedlist")
                if item["pattern"] is not None:
                    deps2 = [Builder().dep(p) for p in item["deps"]]
                    r3 = HTMLTextDocument(item["text"], deps=deps2, deps_replace_pattern=item["pattern"]).render()
                    res["second"] = [digest(r3["html"]), [[d.name, str(d.version)] for d in r3["dependencies"]]]
                res["json"] = digest(_with_mode("json", lambda: HTMLTextDocument(
                    item["text"], deps=[Builder().dep(p) for p in item["deps"]],
                    deps_replace_pattern=item["pattern"] or "@@none@@").render(lib_prefix=lp, include_version=iv)["html"]))
            if bld.reuse_bad:
                res["reuse_bad"] = bld.reuse_bad
            return res
        return {"text": safe(text)}
    if k == "sharedlist":
        # two or three HTMLTextDocument objects built from the SAME deps list object (finding F13)
        pat = item["pattern"]
        lp, iv = (item.get("opts") or {}).get("lib_prefix", "lib"), (item.get("opts") or {}).get("include_version", True)

        def rows(deps):
            return [dep_row(d) for d in deps]

        def rd(d):
            r = d.render(lib_prefix=lp, include_version=iv)
            return [digest(r["html"]), [[x.name, str(x.version)] for x in r["dependencies"]]]

        def mkdoc(t, lst):
            return HTMLTextDocument(t, deps=lst, deps_replace_pattern=pat)

        def shared():
            res: dict = {}
            # (a) all documents constructed first, then rendered in order, then rendered again in reverse order
            bld = Builder()
            lst = [bld.dep(p) for p in item["deps"]]
            res["list_before"] = rows(lst)
            docs, after_c = [], []
            for t in item["texts"]:
                docs.append(mkdoc(t, lst))
                after_c.append(rows(lst))
            res["list_after_each_construction"] = after_c
            res["first"] = [rd(d) for d in docs]
            res["list_after_render"] = rows(lst)
            res["again"] = list(reversed([rd(d) for d in reversed(docs)]))
            # (b) interleaved: the first document is rendered, then the next one is constructed from the same list
            bld2 = Builder()
            lst2 = [bld2.dep(p) for p in item["deps"]]
            inter, d_first, first_later = [], None, []
            for t in item["texts"]:
                d = mkdoc(t, lst2)
                inter.append(rd(d))
                if d_first is None:
                    d_first = d
                else:
                    first_later.append(rd(d_first))
            res["interleaved"] = inter
            res["first_document_later"] = first_later
            res["list_after_interleaved"] = rows(lst2)
            # each document alone, with a list of its own made from equal arguments
            res["alone"] = [rd(mkdoc(t, [Builder().dep(p) for p in item["deps"]])) for t in item["texts"]]
            return res
        return {"shared": safe(shared)}
    if k == "resolve":
        def resolve():
            bld = Builder()
            deps = [bld.dep(p) for p in item["deps"]]
            return [dep_row(d) for d in _core._resolve_dependencies(deps)]
        return {"resolve": safe(resolve)}
    if k == "unique":
        return {"unique": safe(lambda: _util.unique(list(item["values"])))}
    raise ValueError(k)


def strip_raw(o: dict) -> dict:
    return {k: v for k, v in o.items() if not k.startswith("_")}


def main() -> None:
    order_seed = int(sys.argv[1])
    battery = json.load(sys.stdin)
    items = battery["items"]
    perm = list(range(len(items)))
    if order_seed != 0:                 # 0: the order given (used to look for the earlier item that matters)
        random.Random(order_seed).shuffle(perm)
    results = {}
    isolated = "--isolated" in sys.argv[2:]
    # --raw=<id>: the observation of that item keeps the texts themselves (fields _html_raw, _doc_raw, ...)
    raw_ids = {a[len("--raw="):] for a in sys.argv[2:] if a.startswith("--raw=")}
    for i in perm:
        if not isolated:
            results[items[i]["id"]] = observe(items[i], raw=items[i]["id"] in raw_ids)
            continue
        # a child forked from a process that has built and rendered nothing
        rfd, wfd = os.pipe()
        pid = os.fork()
        if pid == 0:
            code = 0
            try:
                os.close(rfd)
                data = json.dumps(observe(items[i]), ensure_ascii=True).encode()
                with os.fdopen(wfd, "wb") as w:
                    w.write(data)
            except BaseException:  # noqa: BLE001
                code = 3
            os._exit(code)
        os.close(wfd)
        with os.fdopen(rfd, "rb") as r:
            data = r.read()
        _, status = os.waitpid(pid, 0)
        results[items[i]["id"]] = json.loads(data) if status == 0 and data else {"isolated_child_failed": status}
    meta = {
        "pythonhashseed": os.environ.get("PYTHONHASHSEED"),
        "order_seed": order_seed,
        "htmltools_file": os.path.abspath(htmltools.__file__),
        "repo": common.REPO,
        # shows that the processes really run with different string hashes
        "hash_probe": hash("c18-probe") & 0xFFFFFFFF,
        "first": items[perm[0]]["id"] if perm else None,
        "mode_after": htmltools.html_dependency_render_mode,
        "isolated": isolated,
    }
    json.dump({"meta": meta, "results": results}, sys.stdout, ensure_ascii=True)


if __name__ == "__main__":
    main()

"""Canonical snapshots of object graphs (for purity / independence checks).

snapshot(roots) walks everything reachable through the fields the library owns and returns
a JSON-able structure in which object identities are replaced by first-visit numbers, so
that two snapshots are equal iff the graphs are structurally identical INCLUDING their
sharing pattern.  mutable_ids(root) returns id()s of the mutable library objects reachable
from root (tags, child lists, attribute maps, metadata nodes)."""
from __future__ import annotations

from typing import Any

import htmltools
from htmltools import HTML, HTMLDependency, HTMLDocument, MetadataNode, Tag, TagList
from htmltools._core import TagAttrDict
from htmltools._jsx import JSXTag, JSXTagAttrDict, jsx


def _kind(x: Any) -> str:
    return type(x).__name__


def structure(x: Any) -> Any:
    """identity-free unfolding of the graph (for acyclic graphs): equal iff structurally equal"""
    return snapshot([x], share=False)


def snapshot(roots: list, share: bool = True) -> Any:
    seen: dict[int, int] = {}
    keep = []  # keep objects alive so ids stay unique

    def ref(x):
        if not share:
            seen[id(x)] = 0
            return None
        if id(x) in seen:
            return ("ref", seen[id(x)])
        seen[id(x)] = len(seen)
        keep.append(x)
        return None

    def go(x: Any) -> Any:
        if x is None or isinstance(x, (bool, int, float)):
            return ("v", repr(x))
        if isinstance(x, jsx):
            return ("jsx", str(x))
        if isinstance(x, str):
            return ("s", x)
        if isinstance(x, HTML):
            r = ref(x)
            return r or ("HTML", seen[id(x)], x.data)
        if isinstance(x, Tag):
            r = ref(x)
            if r:
                return r
            return ("Tag", seen[id(x)], x.name, x.add_ws, go(x.attrs), go(x.children),
                    x.prev_displayhook is None,
                    sorted(k for k in x.__dict__ if k not in ("name", "add_ws", "attrs", "children", "prev_displayhook")))
        if isinstance(x, JSXTag):
            r = ref(x)
            if r:
                return r
            return ("JSXTag", seen[id(x)], x.name, go(x.attrs), go(x.children))
        if isinstance(x, TagList):
            r = ref(x)
            if r:
                return r
            return ("TagList", seen[id(x)], [go(c) for c in x.data])
        if isinstance(x, HTMLDependency):
            r = ref(x)
            if r:
                return r
            return ("Dep", seen[id(x)], x.name, str(x.version), go(x.source), go(x.script),
                    go(x.stylesheet), go(x.meta), x.all_files, go(x.head),
                    sorted(k for k in x.__dict__ if k not in ("name", "version", "source", "script", "stylesheet",
                                                             "meta", "all_files", "head")))
        if isinstance(x, MetadataNode):
            r = ref(x)
            return r or ("Meta", seen[id(x)], go(dict(x.__dict__)))
        if isinstance(x, HTMLDocument):
            r = ref(x)
            return r or ("Doc", seen[id(x)], go(x._content), go(x._html_attr_args))
        if isinstance(x, dict):
            r = ref(x)
            if r:
                return r
            return (_kind(x), seen[id(x)], [[go(k), go(v)] for k, v in x.items()])
        if isinstance(x, (list, tuple)):
            r = ref(x)
            if r:
                return r
            return (_kind(x), seen[id(x)], [go(c) for c in x])
        # harness objects (custom tagifiables, repr objects, ...)
        r = ref(x)
        if r:
            return r
        d = getattr(x, "__dict__", None)
        return ("obj", seen[id(x)], _kind(x), go(dict(d)) if isinstance(d, dict) else repr(x))

    return [go(r) for r in roots]


def mutable_ids(root: Any, into_deps: bool = False) -> dict[int, str]:
    """id -> description of every tag, child list, attribute map and metadata node object
    reachable from root (through tags, lists, JSX tags/props and, optionally, dependency
    head payloads)."""
    out: dict[int, str] = {}
    stack = [root]
    while stack:
        x = stack.pop()
        if id(x) in out:
            continue
        if isinstance(x, Tag):
            out[id(x)] = f"Tag <{x.name}>"
            stack += [x.attrs, x.children]
        elif isinstance(x, JSXTag):
            out[id(x)] = f"JSXTag {x.name}"
            stack += [x.attrs, x.children]
        elif isinstance(x, TagList):
            out[id(x)] = "child list"
            stack += list(x.data)
        elif isinstance(x, (TagAttrDict, JSXTagAttrDict)):
            out[id(x)] = "attribute map"
            stack += list(x.values())
        elif isinstance(x, HTMLDependency):
            out[id(x)] = f"dependency {x.name}"
            if into_deps and x.head is not None:
                stack.append(x.head)
        elif isinstance(x, MetadataNode):
            out[id(x)] = "metadata node"
        elif isinstance(x, (list, tuple)):
            stack += list(x)
        elif isinstance(x, dict):
            stack += list(x.values())
    return out

"""Tree descriptions: one value from which both the live htmltools objects and the sx
encoding for the extracted model are built.

desc ::= ('T', s)                      plain str child
       | ('H', s)                      HTML(s)
       | ('R', s)                      object with _repr_html_() == s
       | ('M', payload)                MetadataNode (payload None) / dependency desc
       | ('G', name, ws, attrs, kids)  Tag; attrs = [(key, ('S'|'H', value)), ...]
       | ('C', self_html|None, exp, as_list)   object with tagify(); exp = [desc]
"""
from __future__ import annotations

import random
from typing import Any

from .common import S, sx_opt

import htmltools
from htmltools import HTML, MetadataNode, Tag, TagList

# ------------------------------------------------------------------------------------
META_ALPHABET = ["&", "<", ">", '"', "'", "\r", "\n", " ", "\t", ";", "#", "a", "1", "/",
                 "\\", "é", " ", "\U0001F600", "=", "x"]
FRAGMENTS = ["&amp;", "&lt;", "&#10;", "&#x3c;", "</script>", "<!--", "-->", "<b>", "</div>",
             "]]>", "&amp", "&#", "a b", "\n  ", "</"]


def rand_char(rng: random.Random) -> str:
    while True:
        c = rng.randrange(0, 0x110000)
        if not (0xD800 <= c <= 0xDFFF):
            return chr(c)


LONG_BITS = ["<b>bold & \"quoted\"</b> ", "a < b && c > d; ", "it's &amp; that's &lt;fine&gt; ", "line one\nline two\r\n",
             "</script><script>alert('x')</script>", "<!-- comment --> ", "plain words without any markup at all, really ",
             "\u00e9\u00e8 \U0001F600 \u65e5\u672c "]


def rand_text(rng: random.Random, maxlen: int = 8) -> str:
    """Adversarial text.  Besides fresh strings it re-uses strings produced earlier in the same
    run (so the same text shows up as a text child, as HTML(), as an attribute value, ...: what a
    content-keyed cache or other history dependence needs in order to show) and occasionally
    returns a long string (> 64 characters)."""
    recent = getattr(rng, "_recent_texts", None)
    if recent is None:
        recent = []
        rng._recent_texts = recent
    r0 = rng.random()
    if recent and r0 < 0.12:
        return rng.choice(recent)
    s = _fresh_text(rng, maxlen)
    if r0 > 0.997:
        # VERY long (thousands of characters): size thresholds of chunked / streaming paths
        s = "".join(rng.choice(LONG_BITS) for _ in range(rng.choice([40, 90, 200]))) + s
    elif r0 > 0.97:
        s = "".join(rng.choice(LONG_BITS) for _ in range(rng.randrange(3, 8))) + s
    if 2 <= len(s) < 400:
        recent.append(s)
        if len(recent) > 40:
            del recent[rng.randrange(0, len(recent))]
    return s


def rng_save(rng: random.Random):
    """full generator state: the PRNG state and the pool of re-usable strings"""
    return (rng.getstate(), list(getattr(rng, "_recent_texts", []) or []))


def rng_restore(rng: random.Random, st) -> None:
    rng.setstate(st[0])
    rng._recent_texts = list(st[1])


NUMERIC = {"0": 0, "0.0": 0.0, "-0.0": -0.0, "1": 1, "1.0": 1.0, "2.5": 2.5, "-3": -3, "1e+20": 1e20,
           "inf": float("inf"), "10": 10, "0.1": 0.1}


def _fresh_text(rng: random.Random, maxlen: int = 8) -> str:
    r = rng.random()
    n = rng.randrange(0, maxlen + 1)
    if r < 0.08:
        return ""
    if r < 0.11:
        return rng.choice(list(NUMERIC))          # the text of a number (see mk_child_text)
    if r < 0.65:
        return "".join(rng.choice(META_ALPHABET) for _ in range(n))
    if r < 0.8:
        return "".join(rng.choice(FRAGMENTS) for _ in range(rng.randrange(1, 4)))
    if r < 0.9:
        return "".join(rand_char(rng) for _ in range(n))
    return "".join(rng.choice("abc xyz") for _ in range(n))


class ReprObj:
    def __init__(self, s: str):
        self.s = s

    def _repr_html_(self) -> str:
        return self.s


# ---- unusual but valid input classes -----------------------------------------------------
# A plain string child / attribute value may be an instance of a str SUBCLASS, trusted markup an
# instance of an HTML subclass, a self-rendering object may happen to have an attribute called
# add_ws: the library must treat them as str / HTML / a self-rendering object.  Which variant is
# built is a function of the text (so building the same description twice gives the same kinds).
class StrSub(str):
    """a str subclass carrying an extra attribute"""
    note = "subclass"


class HtmlSub(HTML):
    """a user subclass of HTML()"""


class ReprObjWs(ReprObj):
    """a self-rendering object (NOT a Tag) that happens to have a truthy add_ws attribute"""
    add_ws = True


class ReprObjHtml(ReprObj):
    """a self-rendering object whose _repr_html_() returns its markup as an HTML() object (natural
    for users of this library) rather than as a plain str"""

    def _repr_html_(self):
        return HTML(self.s)


REPR_RETURNS_HTML = True      # self-rendering objects whose _repr_html_() returns HTML(): finding F9 (fixed c4a8f45)


def _pick(s: str) -> int:
    return (sum(map(ord, s)) * 31 + len(s) * 7) % 997


def mk_text(s: str):
    return StrSub(s) if _pick(s) % 5 == 0 else s


def mk_child_text(s: str):
    """a plain-text CHILD: when the text is that of a number, sometimes the number itself (the
    library stores str(number): falsy numbers 0, 0.0, -0.0 included)"""
    if s in NUMERIC and str(NUMERIC[s]) == s and (len(s) + ord(s[-1])) % 2 == 0:
        return NUMERIC[s]
    if s and _pick(s) % 11 == 3:
        n = StrInt(len(s))
        n._s = s
        return n
    return mk_text(s)


class StrInt(int):
    """an int subclass (think enum.IntEnum with a custom __str__) whose text is arbitrary: the
    library stores str(number), which is then escaped like any other text"""
    _s = ""

    def __str__(self) -> str:
        return self._s

    __repr__ = __str__


def mk_html(s: str):
    return HtmlSub(s) if _pick(s) % 5 == 1 else HTML(s)


def mk_repr(s: str):
    k = _pick(s) % 4
    return ReprObjWs(s) if k == 0 else ReprObjHtml(s) if (k == 1 and REPR_RETURNS_HTML) else ReprObj(s)


class TagListSub(TagList):
    """a user subclass of TagList (a tagify() may return one: it is spliced like a TagList)"""


class CustomObj:
    """Tagifiable (not a Tag): tagify() returns a TagList of the expansion, or its only
    element."""

    def __init__(self, exp: list, as_list: bool):
        self.exp = exp
        self.as_list = as_list

    def tagify(self):
        # a well-behaved Tagifiable: fresh, fully tagified objects on every call
        import copy as _copy

        def fresh(e):
            if isinstance(e, Tag):
                return e.tagify()
            if isinstance(e, MetadataNode):
                return _copy.copy(e)
            return e
        if self.as_list:
            cls = TagListSub if len(self.exp) % 3 == 2 else TagList
            return cls(*[fresh(e) for e in self.exp])
        return fresh(self.exp[0])


class CustomStrObj(str):
    """an object that is BOTH a str (subclass instance) and tagifiable: tagify() decides"""
    exp: list = []
    as_list = True

    def tagify(self):
        return CustomObj.tagify(self)


class CustomReprObj(CustomObj):
    def __init__(self, exp: list, as_list: bool, s: str):
        super().__init__(exp, as_list)
        self.s = s

    def _repr_html_(self) -> str:
        return self.s


def build(d: Any, share: bool = False, _memo: dict | None = None) -> Any:
    """Live objects of a description.  With share=True, a Tag / HTML / self-rendering child whose
    description is EQUAL to one built earlier in the same call may be the very same object
    (about half of such repeats, decided by the description): the tree is then a DAG, which every
    read-only operation must treat exactly like the tree with separate equal objects.  Only for
    read-only uses (a mutation would show at both places)."""
    if share and _memo is None:
        _memo = {}
    k = d[0]
    if share and k in "GHR":
        key = repr(d)
        if key in _memo and _pick(key[:80]) % 2 == 0:
            return _memo[key]
    if k == "T":
        return mk_text(d[1])
    if k == "H":
        o = mk_html(d[1])
    elif k == "R":
        o = mk_repr(d[1])
    elif k == "M":
        if d[1] is None:
            return MetadataNode()
        return htmltools.HTMLDependency(**d[1])
    elif k == "G":
        _, name, ws, attrs, kids = d
        kb = [mk_child_text(x[1]) if x[0] == "T" else build(x, share, _memo) for x in kids]
        if _pick(name + str(len(kids))) % 9 == 4:
            # built under another name / flag and then re-assigned (public attributes): what counts is
            # what the tag IS when it is rendered, not what it was when constructed
            o = Tag("script" if name not in ("script", "style") else "div", *kb, _add_ws=not ws)
            o.name = name
            o.add_ws = ws
        else:
            o = Tag(name, *kb, _add_ws=ws)
        for key, (m, v) in attrs:
            # stored as is (bypassing name normalisation, which is C15's subject)
            dict.__setitem__(o.attrs, key, mk_html(v) if m == "H" else mk_text(v))
    elif k == "C":
        _, sh, exp, as_list = d
        exp_b = [build(x, share, _memo) for x in exp]
        if sh is None:
            if len(exp_b) == 2 and as_list:      # some objects are str subclasses that define tagify()
                o = CustomStrObj("<own text>")
                o.exp, o.as_list = exp_b, True
                return o
            return CustomObj(exp_b, as_list)
        return CustomReprObj(exp_b, as_list, sh)
    else:
        raise ValueError(d)
    if share and k in "GHR":
        _memo.setdefault(repr(d), o)
    return o


def render_routes(x) -> list:
    """every public way of getting the markup of a Tag / TagList with the default layout arguments:
    (route name, thunk)"""
    return [("get_html_string()", lambda: x.get_html_string()),
            ("tagify().get_html_string()", lambda: x.tagify().get_html_string()),
            ("render()['html']", lambda: x.render()["html"]),
            ("str()", lambda: str(x)),
            ("repr()", lambda: repr(x)),
            ("_repr_html_()", lambda: x._repr_html_()),
            ("str() in json dependency mode", lambda: _str_json_mode(x))]


def _str_json_mode(x) -> str:
    """str(x) with htmltools.html_dependency_render_mode = 'json': the markup, followed by the
    serialised form of each dependency (one <script type=application/json data-html-dependency>
    element each).  For comparison with the other routes that tail is cut off again -- it is the
    subject of C13 -- so what is returned must be the same markup as every other route gives."""
    import htmltools as _h
    old = _h.html_dependency_render_mode
    try:
        _h.html_dependency_render_mode = "json"
        s = str(x)
        deps = x.render()["dependencies"]
    finally:
        _h.html_dependency_render_mode = old
    tail = "\n".join(d.serialize_to_script_json().get_html_string() for d in deps)
    if tail and s.endswith(tail):
        s = s[:len(s) - len(tail)]
    return s


def routes_disagree(x) -> str | None:
    """All routes must give the same text (C08/C09: tagify() of a tree is a structural copy with objects
    expanded; str/repr/_repr_html_/render are get_html_string of that copy in the default (invisible)
    dependency mode).  A tree holding un-expanded tagifiable objects cannot be rendered directly
    (RuntimeError): the direct route is then exempt.  Returns a description of the first
    disagreement, or None."""
    import htmltools as _h
    if getattr(_h, "html_dependency_render_mode", "invisible") == "json":
        return None
    rs = [(n, safe_call(f)) for n, f in render_routes(x)]
    base = rs[1][1]
    for n, r in rs:
        if n == "get_html_string()" and r == ("err", 6) and base[0] == "ok":
            continue
        if r != base:
            return f"{n} gives {r!r} but tagify().get_html_string() gives {base!r}"
    return _routes_inside_open_with(x, rs)


_WITH_PROBE = [0]


def _routes_inside_open_with(x, outside) -> str | None:
    """The same routes evaluated while a tag of the tree (the root, its first tag children) is ENTERED as a
    `with` block in which nothing is displayed: a tag that is being filled is the same tree as before and must
    render the same by every route.  Every third call only (cost); display hook and the tag's saved hook are
    put back."""
    import sys
    from htmltools import Tag
    _WITH_PROBE[0] += 1
    if _WITH_PROBE[0] % 3:
        return None
    kids = x.children if isinstance(x, Tag) else x
    try:
        cands = ([x] if isinstance(x, Tag) else []) + [c for c in list(kids) if isinstance(c, Tag)][:2]
    except Exception:
        return None
    for t in cands:
        old, prev = sys.displayhook, getattr(t, "prev_displayhook", None)
        sys.displayhook = lambda v: None
        try:
            with t:
                inside = [(n, safe_call(f)) for n, f in render_routes(x)]
        except Exception:                 # this object cannot be entered (a test double of a tag): not judged here
            continue
        finally:
            sys.displayhook = old
            try:
                t.prev_displayhook = prev
            except Exception:
                pass
        for (n, a), (_, b) in zip(outside, inside):
            if a != b:
                return (f"{n} gives {b!r} while a tag of the tree ({t.name}) is entered as a with-block in which nothing "
                        f"is displayed, but {a!r} outside it")
    return None


def build_routed(d: Any) -> Any:
    """build(d), with the children of every tag arriving by a public route chosen by the description itself:
    constructor; append(*kids); extend(kids); insert(0, TagList(*kids)); insert(0, [kids]); one insert per
    child from the back; insert(i, TagList(pair)) for chunks of two; children += kids.  All of them must give
    the tag the constructor gives (C14), so every read-only property may be judged on the result."""
    from htmltools import TagList
    if d[0] != "G":
        return build(d)
    _, name, ws, attrs, kids = d
    kb = [mk_child_text(x[1]) if x[0] == "T" else build_routed(x) for x in kids]
    route = _pick("route" + repr(d)[:200]) % 8
    o = Tag(name, *(kb if route == 0 else []), _add_ws=ws)
    if route == 1 and kb:
        o.append(*kb)
    elif route == 2:
        o.extend(kb)
    elif route == 3 and kb:
        o.insert(0, TagList(*kb))
    elif route == 4:
        o.insert(0, list(kb))
    elif route == 5:
        for x in reversed(kb):
            o.insert(0, x)
    elif route == 6:
        for i in range(0, len(kb), 2):
            o.insert(len(o.children), TagList(*kb[i:i + 2]))
    elif route == 7:
        o.children += kb
    for key, (m, v) in attrs:
        dict.__setitem__(o.attrs, key, mk_html(v) if m == "H" else mk_text(v))
    return o


def to_sx(d: Any, meta=lambda payload: []) -> Any:
    k = d[0]
    if k == "T":
        return [0, S(d[1])]
    if k == "H":
        return [1, S(d[1])]
    if k == "R":
        return [2, S(d[1])]
    if k == "M":
        return [3, meta(d[1])]
    if k == "G":
        _, name, ws, attrs, kids = d
        return [4, S(name), 1 if ws else 0,
                [[S(key), [1 if m == "H" else 0, S(v)]] for key, (m, v) in attrs],
                [to_sx(x, meta) for x in kids]]
    if k == "C":
        _, sh, exp, as_list = d
        return [5, sx_opt(None if sh is None else S(sh)), [to_sx(x, meta) for x in exp]]
    raise ValueError(d)


# ------------------------------------------------------------------------------------
BLOCK_NAMES = ["div", "p", "section", "ul", "li", "head", "body", "table"]
INLINE_NAMES = ["span", "a", "b", "i", "em", "code", "label"]
VOID_NAMES = ["area", "base", "br", "col", "command", "embed", "hr", "img", "input", "keygen",
              "link", "meta", "param", "source", "track", "wbr"]
NOESC_NAMES = ["script", "style"]
ATTR_KEYS = ["id", "class", "href", "data-x", "title", "style", "onclick", "viewBox", "a:b"]


def all_catalogue_names() -> list[str]:
    from htmltools import svg, tags
    import types
    out = []
    for mod in (tags, svg):
        for n, f in vars(mod).items():
            if isinstance(f, types.FunctionType) and f.__module__ == mod.__name__:
                out.append(n)
    return out


_CAT: list = []


def _catalogue() -> list:
    if not _CAT:
        _CAT.extend(sorted(set(all_catalogue_names())))
    return _CAT


def _default_ws(name: str) -> bool:
    from htmltools import svg, tags
    f = getattr(tags, name, None) or getattr(svg, name)
    return f().add_ws


def rand_name(rng: random.Random, kinds: str = "bivsc") -> tuple[str, bool]:
    k = rng.choice(kinds)
    if k == "b":
        return rng.choice(BLOCK_NAMES), True
    if k == "i":
        return rng.choice(INLINE_NAMES), False
    if k == "v":
        return rng.choice(VOID_NAMES), rng.random() < 0.5
    if k == "s":
        return rng.choice(NOESC_NAMES), rng.random() < 0.7
    if k == "k":
        # any element of the tags / svg catalogue, with its documented default flag
        cat = _catalogue()
        n = rng.choice(cat)
        return n, _default_ws(n)
    # custom
    return rng.choice(["my-el", "x", "H1", "svg:g", "textPath", "a1"]), rng.random() < 0.5


def rand_attrs(rng: random.Random, html_ok: bool = True) -> list:
    n = rng.choice([0, 0, 0, 1, 1, 2, 3])
    keys = rng.sample(ATTR_KEYS, n)
    return [(k, ("H" if html_ok and rng.random() < 0.25 else "S", rand_text(rng, 6))) for k in keys]


def rand_tree(rng: random.Random, depth: int, *, leaves: str = "THRM", names: str = "bivsc",
              custom: bool = False, valid_nesting: bool = False, parent_ws: bool = True,
              flip_ws: float = 0.15, maxkids: int = 4, dup: float = 0.06) -> Any:
    """A random tag description.  With probability dup a child is repeated (an equal description at a
    second position of the same child list: what a content- or identity-keyed memo needs in order
    to show; build(share=True) may make the two the same object)."""
    name, ws = rand_name(rng, names)
    if rng.random() < flip_ws:
        ws = not ws
    if valid_nesting and not parent_ws:
        ws = False
    nk = 0 if depth <= 0 else rng.choice([0, 1, 1, 2, 2, 3, maxkids])
    big = rng.random() if depth > 0 else 1.0
    if big < 0.012:
        # WIDE: many children (sizes around powers of two: thresholds of size-dependent fast paths)
        nk = rng.choice([8, 9, 16, 17, 31, 33, 64, 65, 100, 130])
        kids = [rand_child(rng, 0 if rng.random() < 0.85 else 1, leaves=leaves, names=names, custom=False,
                           valid_nesting=valid_nesting, parent_ws=ws, flip_ws=flip_ws, maxkids=2, dup=0.0)
                for _ in range(nk)]
        return ("G", name, ws, rand_attrs(rng), kids)
    kids = [rand_child(rng, depth - 1, leaves=leaves, names=names, custom=custom,
                       valid_nesting=valid_nesting, parent_ws=ws, flip_ws=flip_ws,
                       maxkids=maxkids, dup=dup) for _ in range(nk)]
    if kids and rng.random() < dup:
        kids.insert(rng.randrange(0, len(kids) + 1), rng.choice(kids))
    t = ("G", name, ws, rand_attrs(rng), kids)
    if 0.012 <= big < 0.02:
        # DEEP: the tree sits at the bottom of a chain of single-child tags (depth-dependent paths)
        for _ in range(rng.choice([6, 10, 15, 17, 33, 60])):
            if valid_nesting:
                # only whitespace-enabled wrappers keep the nesting valid (and only under such a parent)
                if not parent_ws:
                    break
                n2, w2 = rng.choice(BLOCK_NAMES), True
            else:
                n2, w2 = rand_name(rng, "bi" if "b" in names or "i" in names else names)
            t = ("G", n2, w2, [], [t] if rng.random() < 0.8 else [("T", "x"), t])
    return t


def rand_child(rng: random.Random, depth: int, **kw) -> Any:
    leaves = kw.get("leaves", "THRM")
    r = rng.random()
    if depth > 0 and r < 0.5:
        return rand_tree(rng, depth, **kw)
    if kw.get("custom") and r < 0.62:
        n = rng.choice([0, 1, 1, 2, 3])
        as_list = rng.random() < 0.6 or n != 1
        kw2 = dict(kw)
        kw2["custom"] = False
        exp = [rand_child(rng, max(depth - 1, 0), **kw2) for _ in range(n)]
        sh = rand_text(rng, 4) if rng.random() < 0.2 else None
        return ("C", sh, exp, as_list)
    k = rng.choice(leaves)
    if k == "D":
        return ("M", {"name": rng.choice(["a", "b", "c"]), "version": rng.choice(["1.0", "1.10", "2"]),
                      "head": rng.choice([None, "<meta name='x'>"])})
    if k == "T":
        return ("T", rand_text(rng))
    if k == "H":
        return ("H", rand_text(rng))
    if k == "R":
        return ("R", rand_text(rng))
    return ("M", None)


def size(d: Any) -> int:
    if d[0] == "G":
        return 1 + sum(size(k) for k in d[4])
    if d[0] == "C":
        return 1 + sum(size(k) for k in d[2])
    return 1


def kinds_in(d: Any, acc: set | None = None) -> set:
    acc = set() if acc is None else acc
    acc.add(d[0])
    if d[0] == "G":
        for k in d[4]:
            kinds_in(k, acc)
    if d[0] == "C":
        for k in d[2]:
            kinds_in(k, acc)
    return acc


def safe_call(f, *a, **kw):
    """Run the implementation; map exceptions to the small enum the model uses."""
    from .common import ImplTimeout, time_limit
    try:
        with time_limit():
            return ("ok", f(*a, **kw))
    except ImplTimeout:
        return ("err", "exc:did-not-terminate")
    except RuntimeError:
        return ("err", 6)
    except TypeError:
        return ("err", 3)
    except KeyError:
        return ("err", 4)
    except ValueError:
        return ("err", 5)
    except RecursionError:
        return ("err", 7)
    except Exception as e:  # any other exception is a value too (never a harness crash)
        return ("err", "exc:" + type(e).__name__)


def res_decode(m: Any, f=lambda x: x) -> Any:
    """model `res` sx -> ('ok', value) | ('err', code); NotTagified(1) is a RuntimeError(6)"""
    if m[0] == 0:
        return ("ok", f(m[1]))
    code = m[1]
    return ("err", 6 if code == 1 else code)

"""Fault injection shared by the checks.

prelude(ctx)       runs, against the implementation, a batch of operations that RAISE midway
                   (a child's _repr_html_()/tagify()/__str__ raising, an invalid item in the
                   middle of a batch, a container whose iteration raises, an exception inside a
                   `with` block, a missing file, a corrupt serialised dependency ...), catching
                   every exception.  The library must not be left in a different state: the
                   harness's ordinary differential / oracle steps run AFTER it in the same
                   process, so any process-wide state a fault leaves behind (a mode flag, a depth
                   counter, a guard set, a buffer) shows up there as ordinary violations.
retry_checks(ctx)  fault-then-retry scenarios on the SAME objects: after the fault, the same
                   operation (or another one) on the same objects must behave exactly as on
                   freshly built identical objects that never saw a fault.  Each scenario is
                   tagged with the properties whose statement it exercises; a check runs the
                   scenarios tagged with its own property.

Everything here judges the implementation only (no model involved): a fault path is outside the
models, which are pure functions; the statements are about what the library does afterwards."""
from __future__ import annotations

import copy
import os
import shutil
import sys
import tempfile

import htmltools
from htmltools import HTML, HTMLDependency, HTMLDocument, HTMLTextDocument, MetadataNode, Tag, TagList, tags
from htmltools._jsx import jsx_tag_create

from .snapshot import structure
from .trees import safe_call


class Boom(Exception):
    pass


class FaultyRepr:
    """_repr_html_() raises the first `n` times it is called, then returns its markup"""

    def __init__(self, s="<u>ok</u>", n=10**9, exc=OSError):
        self.s, self.n, self.exc = s, n, exc

    def _repr_html_(self):
        if self.n > 0:
            self.n -= 1
            raise self.exc("missing resource")
        return self.s


class FlakyTagifiable:
    """tagify() raises the first `n` times, then returns fresh content"""

    def __init__(self, n=1, dep=False):
        self.n, self.dep = n, dep

    def tagify(self):
        if self.n > 0:
            self.n -= 1
            raise Boom("not ready")
        out = [Tag("span", "exp<", _add_ws=False)]
        if self.dep:
            out.append(HTMLDependency("flaky-dep", "1.0", head="<meta name='f'>"))
        return TagList(*out)


class FlakyDepsTag(Tag):
    """a Tag subclass whose get_dependencies raises once"""
    fails = 1

    def get_dependencies(self, dedup: bool = True):
        if self.fails > 0:
            self.fails -= 1
            raise Boom("deps not ready")
        return super().get_dependencies(dedup=dedup)


class FlakyList(list):
    """a list whose iteration raises midway the first `n` times"""

    def __init__(self, items, n=1):
        super().__init__(items)
        self.n = n

    def __iter__(self):
        it = super().__iter__()
        if self.n > 0:
            self.n -= 1
            yield next(it)
            raise OSError("cannot read")
        yield from it


class BadStr:
    def __str__(self):
        raise Boom("no str")


def _quiet(f):
    from .common import ImplTimeout, time_limit
    try:
        with time_limit():
            return ("ok", f())
    except ImplTimeout:
        return ("err", "did-not-terminate")
    except RecursionError:
        return ("err", "RecursionError")
    except BaseException as e:  # noqa: BLE001 - faults are the point
        if isinstance(e, (KeyboardInterrupt, SystemExit)):
            raise
        return ("err", type(e).__name__)


def _probes():
    """(properties, name, thunk): small fixed computations whose results must not depend on what
    failed earlier in the process"""
    dep = lambda: HTMLDependency("pb", "1.0", source={"href": "https://x/y"}, script={"src": "a b.js"},  # noqa: E731
                                 stylesheet={"href": "s.css"}, head="<meta name='m'>")
    R = {"C01", "C02", "C04", "C05", "C06", "C07"}
    Foo = jsx_tag_create("Foo")

    def with_prog():
        old = sys.displayhook
        log = []
        try:
            sys.displayhook = log.append
            t, u = Tag("div"), Tag("span", _add_ws=False)
            with t:
                sys.displayhook("a<")
                with u:
                    sys.displayhook(HTML("<i>"))
                sys.displayhook(None)
            return [str(t), len(log), sys.displayhook == log.append]
        finally:
            sys.displayhook = old

    def json_roundtrip():
        mode = htmltools.html_dependency_render_mode
        try:
            htmltools.html_dependency_render_mode = "json"
            txt = "@@" + str(Tag("div", dep(), "x<"))
        finally:
            htmltools.html_dependency_render_mode = mode
        r = HTMLTextDocument(txt, deps_replace_pattern="@@").render()
        return [txt, r["html"], [d_.name for d_ in r["dependencies"]]]

    return [
        (R | {"C03"}, "tag with text children", lambda: Tag("div", "a<b", Tag("span", "c&", "d>", _add_ws=False), "e", title='q"\n').get_html_string(1, "\r\n")),
        (R, "top-level list with text", lambda: TagList("a<b", "c&d", Tag("p", "x>"), HTML("<raw>")).get_html_string()),
        (R, "top-level list, no whitespace", lambda: TagList("a<", Tag("b", "x", _add_ws=False), ">c").get_html_string(2, "", add_ws=False)),
        (R, "script and style", lambda: str(Tag("div", Tag("script", "a<b", "c&"), Tag("style", "x>y"), "t<"))),
        (R, "nested blocks", lambda: Tag("ul", Tag("li", "a", Tag("b", "c", _add_ws=False)), Tag("li", Tag("ul", Tag("li", "d<")))).get_html_string(2)),
        (R, "repr object and metadata", lambda: str(Tag("div", MetadataNode(), FaultyRepr("<u>r</u>", n=0), "t", dep()))),
        ({"C04"}, "concatenation", lambda: str(Tag("p", "a<" + HTML("<b>") + "c&", HTML("x") + "y>"))),
        ({"C08", "C09", "C10"}, "tagify / render / deps", lambda: [str(Tag("div", dep(), FlakyTagifiable(0, dep=True)).render()["html"]),
                                                                   [d_.name for d_ in Tag("div", dep(), Tag("p", dep()), FlakyTagifiable(0, dep=True)).render()["dependencies"]]]),
        ({"C08", "C11", "C12"}, "document", lambda: HTMLDocument(Tag("div", dep(), "x<"), lang="en").render(lib_prefix="l", include_version=False)["html"]),
        ({"C11"}, "document with html root", lambda: HTMLDocument(Tag("html", Tag("head", Tag("title", "t")), Tag("body", dep()))).render()["html"]),
        ({"C12", "C08"}, "as_dict", lambda: [str(dep().as_dict(lib_prefix="p/q")), str(dep().source_path_map())]),
        ({"C13", "C18"}, "json mode round trip", json_roundtrip),
        ({"C14", "C19"}, "child lists", lambda: [list(map(str, TagList("a", [1, None, ("b", [2.5])], HTML("h")))),
                                                 str(tags.ul(["x", ("y",)], None, 3)), str(htmltools.span("s", _add_ws=True))]),
        ({"C15", "C03", "C16"}, "attributes", lambda: [str(Tag("div", {"class": "a", "x_": 1}, {"class": HTML("b&")}, class_='c"', data_y=True)),
                                                      str(Tag("i", class_="k").add_class("j", prepend=True).add_style("a:b;")),
                                                      htmltools.css(font_size="1px", backgroundColor="red")]),
        ({"C17", "C07"}, "with blocks", with_prog),
        ({"C18"}, "head_content", lambda: [htmltools.head_content(Tag("title", "T<")).name, htmltools.head_content("x").name]),
        ({"C20"}, "jsx", lambda: str(Foo(dep(), "s\"", Tag("b", "x"), p=[1, None, True], q=Tag("i")))),
    ]


def _fault_groups():
    dep = HTMLDependency("pre-dep", "1.0", source={"href": "https://x/y"}, script={"src": "a.js"})

    def g_inline(f):
        # a raising child under inline tags in every context, various indents
        for ctxt in (lambda x: Tag("p", "see ", Tag("strong", x, _add_ws=False)),
                     lambda x: Tag("p", Tag("b", Tag("i", x, _add_ws=False), _add_ws=False)),
                     lambda x: Tag("div", Tag("span", x, _add_ws=False), Tag("div")),
                     lambda x: Tag("div", Tag("div"), Tag("span", "a", x, _add_ws=False)),
                     lambda x: Tag("span", "a", x, "b", _add_ws=False),
                     lambda x: TagList("a", Tag("em", x, _add_ws=False), Tag("div", x))):
            for i in (0, 1, 3):
                t = ctxt(FaultyRepr())
                f(lambda: t.get_html_string(i))
                f(lambda: str(t))
                f(lambda: t.render())

    def g_tagify(f):
        for make in (lambda: Tag("div", Tag("p", "a"), Tag("section", dep, FlakyTagifiable(3, dep=True)), "z"),
                     lambda: TagList(dep, Tag("div", FlakyTagifiable(3)), FlakyTagifiable(3)),
                     lambda: Tag("html", Tag("head", dep), Tag("body", FlakyTagifiable(3)))):
            t = make()
            f(lambda: t.tagify())
            f(lambda: t.render())
            f(lambda: str(t))
            f(lambda: HTMLDocument(t).render())
        ft = FlakyDepsTag("div", dep, Tag("p", dep))
        f(lambda: Tag("section", ft).get_dependencies())
        f(lambda: TagList(Tag("div", ft)).get_dependencies(dedup=False))

    def g_batches(f):
        tl = TagList("a")
        f(lambda: tl.extend(["x", 1, object()]))
        f(lambda: tl.append("y", object(), "z"))
        t = Tag("div", "a")
        f(lambda: t.append("x", {1, 2}))
        f(lambda: t.insert(0, ["p", b"bytes"]))
        f(lambda: t.attrs.update({"class": "ok", "id": [1]}, title="t"))
        f(lambda: Tag("div", {"class": "a", "x": object()}, class_="b"))
        f(lambda: Tag("i", style="a:b;").add_style("no-semicolon", prepend=True))
        f(lambda: tags.ul(FlakyList(["a", "b", "c"])))
        loop: list = []
        loop.append(loop)
        f(lambda: tags.div(loop))
        f(lambda: HTML("a") + BadStr())
        f(lambda: BadStr() + HTML("a"))

    def g_with(f):
        old = sys.displayhook
        try:
            sys.displayhook = lambda v: None
            outer, inner = Tag("div"), Tag("span", _add_ws=False)

            def blocks():
                with outer:
                    sys.displayhook("a")
                    with inner:
                        sys.displayhook(dep)
                        raise Boom("in block")
            f(blocks)

            def bad_value():
                with Tag("div"):
                    sys.displayhook(object())
            f(bad_value)
        finally:
            sys.displayhook = old

    def g_json(f):
        mode = htmltools.html_dependency_render_mode
        try:
            htmltools.html_dependency_render_mode = "json"
            f(lambda: str(Tag("div", dep, FaultyRepr(), "x")))
            f(lambda: repr(TagList(dep, Tag("p", FlakyTagifiable(3)))))
        finally:
            htmltools.html_dependency_render_mode = mode

    def g_io(f):
        good = dep.serialize_to_script_json().get_html_string()
        f(lambda: HTMLTextDocument("<p>" + good + good.replace('"name"', '"nam"') + "</p>", deps=[], deps_replace_pattern="@@"))
        d = tempfile.mkdtemp(prefix="verif-faults-")
        try:
            src = os.path.join(d, "src")
            os.makedirs(src)
            with open(os.path.join(src, "a.js"), "w") as fh:
                fh.write("x")
            ld = HTMLDependency("fd", "1.0", source={"subdir": src}, script=[{"src": "a.js"}, {"src": "js/missing.js"}])
            f(lambda: ld.copy_to(os.path.join(d, "out")))
            f(lambda: HTMLDocument(Tag("div", ld)).save_html(os.path.join(d, "index.html")))
        finally:
            shutil.rmtree(d, ignore_errors=True)

    def g_jsx(f):
        Foo = jsx_tag_create("Foo")
        f(lambda: str(Foo(dep, Tag("div", dep, FlakyTagifiable(3)), p=Tag("b", FlakyTagifiable(3)))))
        f(lambda: Foo(dep, FlakyTagifiable(3)).tagify())

    def g_rawtext(f):
        # a raising child inside script/style (several children), at top level and nested.
        # LAST, so that whatever it leaves behind is still there when the check's own steps run.
        for name in ("script", "style"):
            for kids in (["a<", FaultyRepr(), "b&"], [FaultyRepr(), "x"], ["x", FlakyTagifiable(5), "y"]):
                t = Tag(name, *kids)
                f(lambda: Tag("div", "t<", t, "u>").get_html_string(2, "\r\n"))
                f(lambda: TagList("x<", t, "y").get_html_string())
                f(lambda: str(t))
                f(lambda: t.get_html_string())

    return [("a child raises under inline tags", g_inline), ("tagify / get_dependencies raise midway", g_tagify),
            ("an invalid item in the middle of a batch", g_batches), ("an exception inside a with block", g_with),
            ("str() raises in json render mode", g_json), ("corrupt serialised dependency / missing file", g_io),
            ("a JSX conversion raises", g_jsx), ("a child raises inside script/style", g_rawtext)]


def _twins():
    """(properties, description, thunk, expected): computations on values that are EQUAL (== and
    hash) to one another but differ in type -- True / 1 / 1.0, False / 0 / 0.0 / -0.0, a plain
    string / a str subclass / HTML() of the same characters -- run in this order at the very start
    of the process, each with the result the property text gives.  A result remembered under a key
    that does not tell them apart (a memo, an lru_cache, an interned table) makes a later one wrong."""
    import hashlib
    from .trees import StrSub
    A = {"C01", "C03", "C15", "C16", "C18"}
    K = {"C02", "C14", "C18", "C01"}
    E = {"C01", "C02", "C04", "C18"}
    out = []
    for v, txt in [(True, ""), (1.0, "1.0"), (1, "1"), (0.0, "0.0"), (False, None), (0, "0"), (-0.0, "-0.0"),
                   (2, "2"), (2.0, "2.0")]:
        want = "<i></i>" if txt is None else f'<i a="{txt}"></i>'
        out.append((A, f"attribute value {v!r}", (lambda v=v: str(Tag("i", a=v))), want))
    for v in [1.0, True, 1, 0, False, 0.0, -0.0, 3.0, 3]:
        out.append((K, f"child {v!r}", (lambda v=v: str(Tag("i", v))), f"<i>{v}</i>"))
        out.append((K, f"list item {v!r}", (lambda v=v: str(TagList(v, "x"))), f"{v}x"))
    for first, second, s in [("text", "html", "a<b&c"), ("html", "text", "d<e&f"), ("sub", "html", "g<h"), ("html", "sub", "i<j")]:
        mk = {"text": lambda s: s, "html": HTML, "sub": StrSub}
        esc = lambda s: s.replace("&", "&amp;").replace("<", "&lt;")  # noqa: E731
        for kind in (first, second, first):
            w = s if kind == "html" else esc(s)
            out.append((E, f"{kind} child {s!r}", (lambda k=kind, s=s, mk=mk: str(Tag("p", mk[k](s)))), f"<p>{w}</p>"))
            out.append((E, f"{kind} among children {s!r}", (lambda k=kind, s=s, mk=mk: str(Tag("p", mk[k](s), Tag("b")))),
                        f"<p>\n  {w}\n  <b></b>\n</p>"))
    for first, second, s in [("text", "html", 'k"<'), ("html", "text", "m'<")]:
        mk = {"text": lambda s: s, "html": HTML}
        for kind in (first, second, first):
            w = s if kind == "html" else s.replace("<", "&lt;").replace('"', "&quot;").replace("'", "&apos;")
            out.append((A | {"C04"}, f"{kind} attribute value {s!r}", (lambda k=kind, s=s, mk=mk: str(Tag("p", title=mk[k](s)))),
                        f'<p title="{w}"></p>'))
    out.append((E | {"C03"}, "html_escape text then attribute", lambda: [htmltools.html_escape('n"<'), htmltools.html_escape('n"<', attr=True)],
                ['n"&lt;', 'n&quot;&lt;']))
    out.append((E | {"C03"}, "html_escape attribute then text", lambda: [htmltools.html_escape("o'<", attr=True), htmltools.html_escape("o'<")],
                ["o&apos;&lt;", "o'&lt;"]))
    out.append((E, "HTML + text, text + HTML", lambda: [str(HTML("<b>") + "p<"), str("p<" + HTML("<b>")), str(HTML("p<") + "<b>")],
                ["<b>p&lt;", "p&lt;<b>", "p<&lt;b&gt;"]))
    for v in ["x<", HTML("x<"), "x<"]:
        r = "x<" if isinstance(v, HTML) else "x&lt;"
        out.append(({"C18", "C11"}, f"head_content name of {type(v).__name__} x<", (lambda v=v: htmltools.head_content(v).name),
                    "headcontent_" + hashlib.sha1(r.encode("utf-8")).hexdigest()))
    out.append(({"C16", "C18"}, "css values", lambda: [htmltools.css(a=1), htmltools.css(a=True), htmltools.css(a=1.0), htmltools.css(b=0), htmltools.css(b=0.0)],
                ["a:1;", "a:True;", "a:1.0;", "b:0;", "b:0.0;"]))
    out.append(({"C16", "C18"}, "class tokens", lambda: [str(Tag("i", class_="a").add_class(HTML("a"))), str(Tag("i", class_=HTML("a")).add_class("a")),
                                                         Tag("i", class_="a b").has_class("a"), Tag("i", class_=HTML("a b")).has_class(HTML("b"))],
                ['<i class="a a"></i>', '<i class="a a"></i>', True, True]))
    return out


def twin_checks(ctx) -> None:
    prop = getattr(ctx, "prop", None)
    n = 0
    for props, name, th, want in _twins():
        if prop is not None and prop not in props:
            continue
        n += 1
        got = _quiet(th)
        if got != ("ok", want):
            ctx.count(("twin", name), True, "values equal to earlier ones but of another type")
            ctx.violation("a value that is equal (==) to one used earlier but of another type (True / 1 / 1.0, False / 0 / 0.0, "
                          "text / str subclass / HTML of the same characters) is treated like the earlier one", {"step": name},
                          {"impl_output": repr(got)[:300], "expected": repr(want)[:300]})
    ctx.extra["twin_checks_for_this_property"] = n


_OPT_SCRIPT = r"""
import json, sys
sys.path.insert(0, sys.argv[1])
import htmltools
from htmltools import HTML, HTMLDependency, HTMLDocument, HTMLTextDocument, Tag, TagList, tags
from htmltools._jsx import jsx_tag_create

def kind(f):
    try:
        r = f()
        return ["ok", r if isinstance(r, (str, int, bool, list, type(None))) else type(r).__name__]
    except BaseException as e:
        return ["err", type(e).__name__]

def reenter():
    old = sys.displayhook
    sys.displayhook = lambda v: None
    try:
        o, i = Tag("div"), Tag("span")
        try:
            with o:
                with i:
                    with o:
                        pass
        except RuntimeError:
            return ["raised", sys.displayhook is not None]
        return ["not raised"]
    finally:
        sys.displayhook = old

def partial_iadd():
    tl = TagList("x")
    try:
        tl += ["a", Tag("b"), object()]
    except TypeError:
        return [str(c) for c in tl]
    return "no error"

def dup_text():
    htmltools.html_dependency_render_mode = "json"
    try:
        s = str(TagList(HTMLDependency("a", "1.0")))
    finally:
        htmltools.html_dependency_render_mode = "invisible"
    d = HTMLTextDocument("<p>@@</p>" + s + "<i>" + s + "</i>" + s, deps_replace_pattern="@@")
    return [x.name for x in d.render()["dependencies"]]

Card = jsx_tag_create("Card", allowedProps=["title"])
probes = {
 "C10 item not a dict": lambda: kind(lambda: HTMLDependency("a", "1.0", script=["x.js"])),
 "C10 item without required key": lambda: kind(lambda: HTMLDependency("a", "1.0", stylesheet=[{"rel": "x"}])),
 "C10 meta without content": lambda: kind(lambda: HTMLDependency("a", "1.0", meta=[{"name": "x"}])),
 "C10 source without href/subdir": lambda: kind(lambda: HTMLDependency("a", "1.0", source={"package": "p"})),
 "C14 unsupported child (ctor)": lambda: kind(lambda: TagList("a", object())),
 "C14 unsupported child nested (append)": lambda: kind(lambda: Tag("div").append(["a", [b"bytes"]])),
 "C14 unsupported child (insert)": lambda: kind(lambda: Tag("div", "x").insert(0, {1, 2})),
 "C14 += is atomic": partial_iadd,
 "C15 attribute value of unsupported type": lambda: kind(lambda: Tag("div", x=[1])),
 "C17 re-entering an active tag": reenter,
 "C17 invalid displayed value": lambda: kind(lambda: (lambda t: t.__enter__() or sys.displayhook(object()))(Tag("div"))),
 "C19 non-bool _add_ws": lambda: [kind(lambda v=v: tags.div(_add_ws=v)) for v in (None, 0, 1, "yes", 1.0)],
 "C20 prop outside the allow-list": lambda: kind(lambda: Card(title="t", onClick="x")),
 "C20 allowed prop": lambda: kind(lambda: Card(title="t").attrs.get("title")),
 "C13 one dependency per distinct serialisation": dup_text,
 "C09 un-expanded object is refused": lambda: kind(lambda: Tag("div", type("T", (), {"tagify": lambda self: Tag("i")})()).get_html_string()),
 "C11 HTMLDocument render with html attribute": lambda: kind(lambda: HTMLDocument(Tag("p", "x"), lang="en").render()["html"].split("\n")[1]),
}
saved = sys.displayhook
out = {}
for k, f in probes.items():
    try:
        out[k] = f()
    except BaseException as e:
        out[k] = ["probe-raised", type(e).__name__]
    sys.displayhook = saved
print(json.dumps(out))
"""


def optimised_interpreter_probes(ctx) -> None:
    """The validation clauses of the properties (what must be REJECTED, what must be atomic, what
    must be restored) evaluated in child interpreters started normally, with -O and with -OO: the
    three must agree, and agree with what this process sees.  Behaviour gated on `assert` /
    `__debug__` is the class this is for; the package itself contains neither."""
    import json as _json
    import subprocess
    from .common import REPO
    prop = getattr(ctx, "prop", None)
    results = {}
    for flag in ("", "-O", "-OO"):
        cmd = [sys.executable] + ([flag] if flag else []) + ["-c", _OPT_SCRIPT, REPO]
        try:
            p = subprocess.run(cmd, capture_output=True, text=True, timeout=120,
                               env={**os.environ, "PYTHONHASHSEED": "0", "PYTHONOPTIMIZE": ""})
            results[flag or "default"] = _json.loads(p.stdout.strip().splitlines()[-1]) if p.stdout.strip() else {"_error": p.stderr[-300:]}
        except Exception as e:  # noqa: BLE001
            results[flag or "default"] = {"_error": repr(e)}
    base = results.get("default", {})
    n = 0
    for k, v in base.items():
        if k.startswith("_") or (prop is not None and not k.startswith(prop + " ")):
            continue
        n += 1
        for flag in ("-O", "-OO"):
            other = results.get(flag, {}).get(k)
            if other != v:
                ctx.count(("optimised", k, flag), True, "validation clause under python " + flag)
                ctx.violation("a validation / atomicity / restoration clause of the property holds in a default interpreter "
                              "but not in one started with -O / -OO (behaviour gated on assert or __debug__)",
                              {"probe": k, "interpreter": "python " + flag}, {"impl_output": other, "expected": v})
    ctx.extra["optimised_interpreter_probes_for_this_property"] = n


_FIRST_SCRIPT = r"""
import json, sys
sys.path.insert(0, sys.argv[1])
import htmltools
from htmltools import HTML, HTMLDependency, HTMLDocument, MetadataNode, Tag, TagList, tags, css, head_content, html_escape
first = sys.argv[2]
dep = lambda: HTMLDependency("d", "1.0", source={"href": "https://x/y"}, script={"src": "a b.js"}, head="<meta name='m'>")
FIRST = {
 "nothing": lambda: None,
 "text escape": lambda: html_escape("a<b"),
 "attribute escape": lambda: html_escape('a"b', attr=True),
 "text leaf": lambda: str(Tag("p", "x<y")),
 "attribute only": lambda: str(Tag("p", title='q"')),
 "script": lambda: str(Tag("script", "a<b", "c&")),
 "inline tag": lambda: Tag("span", "x", _add_ws=False).get_html_string(3, ""),
 "document": lambda: HTMLDocument(Tag("p", dep()), lang="en").render(),
 "json mode": lambda: (setattr(htmltools, "html_dependency_render_mode", "json"), str(Tag("p", dep())), setattr(htmltools, "html_dependency_render_mode", "invisible")),
 "head_content": lambda: head_content(Tag("title", "t")).name,
 "class helpers": lambda: str(Tag("i", class_=HTML("a")).add_class("b<").add_style("c:d;")),
}
try:
    FIRST[first]()
except BaseException as e:
    pass
def safe(f):
    try:
        return f()
    except BaseException as e:
        return "raised " + type(e).__name__
battery = [
 lambda: str(Tag("div", "a<b", Tag("span", "c&", _add_ws=False), title='say "hi"\n', id="x'y")),
 lambda: TagList("a<", HTML("<b>"), Tag("p", "x>")).get_html_string(1, "\r\n"),
 lambda: str(Tag("script", "a<b", HTML("c&d"))) + str(Tag("style", "x>y")),
 lambda: str(Tag("p", {"class": 'a"'}, class_=HTML("b&"))),
 lambda: HTMLDocument(Tag("div", dep(), "t<"), lang="en").render(lib_prefix=None, include_version=False)["html"],
 lambda: [d.name for d in Tag("div", dep(), HTMLDependency("d", "2.0"), MetadataNode()).render()["dependencies"]],
 lambda: head_content(Tag("title", "T<")).name,
 lambda: css(font_size="1px", backgroundColor='u"v'),
 lambda: str(HTML("<b>") + "p<") + str("q<" + HTML("<i>")),
 lambda: str(Tag("i", class_="a").add_class("b", prepend=True).add_style("c:d;")),
 lambda: [str(c) for c in TagList("a", [1, None, ("b", [2.5])], HTML("h"))],
 lambda: str(tags.ul(tags.li("x"), tags.li(tags.b("y")))),
]
print(json.dumps([safe(f) for f in battery]))
"""


def first_use_probes(ctx) -> None:
    """A fixed battery of computations run in fresh interpreters that differ only in the very
    FIRST thing they do with the library (escape text, escape an attribute, render a script, a
    document, json mode, ...): the battery must give the same results in all of them.  Lazily
    initialised module state that depends on the first use is the class this is for."""
    import json as _json
    import subprocess
    from .common import REPO
    firsts = ["nothing", "text escape", "attribute escape", "text leaf", "attribute only", "script", "inline tag",
              "document", "json mode", "head_content", "class helpers"]
    outs = {}
    for fst in firsts:
        try:
            p = subprocess.run([sys.executable, "-c", _FIRST_SCRIPT, REPO, fst], capture_output=True, text=True, timeout=120,
                               env={**os.environ, "PYTHONHASHSEED": "0"})
            outs[fst] = _json.loads(p.stdout.strip().splitlines()[-1]) if p.stdout.strip() else ["no output", p.stderr[-200:]]
        except Exception as e:  # noqa: BLE001
            outs[fst] = ["harness", repr(e)]
    base = outs["nothing"]
    for fst in firsts[1:]:
        if outs[fst] != base:
            idx = next((i for i, (a, b) in enumerate(zip(outs[fst], base)) if a != b), None)
            ctx.count(("first-use", fst), True, "first use of the library in a fresh interpreter")
            ctx.violation("results depend on what the process did FIRST with the library (state initialised lazily on first "
                          "use): the same computation gives different results in two fresh interpreters",
                          {"first_operation": fst, "battery_item": idx},
                          {"impl_output": outs[fst][idx] if idx is not None and idx < len(outs[fst]) else outs[fst],
                           "expected": base[idx] if idx is not None and idx < len(base) else base})
    ctx.extra["first_use_variants"] = len(firsts)


def prelude(ctx=None) -> int:
    """Runs the fault groups; after each group the probes tagged with the check's property are
    re-evaluated and must equal what they gave before any fault.  Returns the number of
    fault-raising operations performed."""
    n = 0

    def f(thunk):
        nonlocal n
        n += 1
        return _quiet(thunk)

    prop = getattr(ctx, "prop", None)
    if ctx is not None and not getattr(ctx, "_twins_done", False):
        ctx._twins_done = True
        twin_checks(ctx)
        optimised_interpreter_probes(ctx)
        first_use_probes(ctx)
    probes = [(name, th) for props, name, th in _probes() if prop is None or prop in props]
    base = [(name, _quiet(th)) for name, th in probes]
    for gname, g in _fault_groups():
        g(f)
        for (name, th), (_, b) in zip(probes, base):
            now = _quiet(th)
            if now != b and ctx is not None:
                ctx.count(("fault-probe", gname, name), True, "fault, then an unrelated computation")
                ctx.violation(f"state left behind by a fault changes later results: after {gname}, `{name}` gives a "
                              "different result than before", {"fault": gname, "probe": name},
                              {"before": str(b)[:400], "after": str(now)[:400]})
    if ctx is not None:
        ctx.extra["fault_prelude_operations"] = ctx.extra.get("fault_prelude_operations", 0) + n
        ctx.extra["fault_probes_for_this_property"] = len(probes)
    return n


# ------------------------------------------------------------------------------------------
def _same(a, b) -> bool:
    return structure(a) == structure(b)


def retry_checks(ctx, prop: str | None = None) -> None:
    prop = prop or ctx.prop

    def scen(props, what, thunk):
        if prop not in props:
            return
        ctx.count(("fault-retry", what), True, "fault, then retry on the same objects")
        r = _quiet(thunk)
        if r[0] != "ok":
            ctx.violation(f"fault then retry: {what}: the retry raised {r[1]}", what, {"impl_output": r})
        elif r[1] is not None:
            ctx.violation(f"fault then retry: {what}", what, {"detail": r[1]})

    dep = lambda: HTMLDependency("rd", "1.0", source={"href": "https://x/y"}, script={"src": "a.js"})  # noqa: E731

    # 1. a tagifiable that raises once, nested two tags deep: every tagify-based operation, retried
    def flaky_tagify():
        def tree(n):
            return Tag("div", Tag("p", "a<"), Tag("section", dep(), Tag("span", FlakyTagifiable(n, dep=True), _add_ws=False)), "z")
        for op in (lambda x: x.tagify(), lambda x: x.render(), lambda x: str(x),
                   lambda x: HTMLDocument(x).render()):
            x, fresh = tree(1), tree(0)
            first = _quiet(lambda: op(x))
            if first[0] != "err":
                return "the injected fault did not propagate"
            again, want = _quiet(lambda: op(x)), _quiet(lambda: op(fresh))
            if again[0] != want[0] or (again[0] == "ok" and not _same(again[1], want[1])):
                return f"after a child's tagify() raised once, repeating the operation gives {str(again)[:200]} " \
                       f"instead of what an identical fresh tree gives {str(want)[:200]}"
            # an enclosing tag built afterwards around the same subtree
            enc, want2 = _quiet(lambda: str(Tag("main", x))), _quiet(lambda: str(Tag("main", fresh)))
            if enc != want2:
                return "a tag enclosing the once-failed subtree renders differently from a fresh one"
        return None
    scen({"C08", "C09", "C10", "C11"}, "child.tagify() raises once, then the same tree is used again", flaky_tagify)

    # 2. get_dependencies raising once
    def flaky_deps():
        def tree(fails):
            ft = FlakyDepsTag("div", dep(), Tag("p", dep()))
            ft.fails = fails
            return Tag("section", ft, dep())
        x, fresh = tree(1), tree(0)
        if _quiet(lambda: x.get_dependencies())[0] != "err":
            return "the injected fault did not propagate"
        for kw in ({}, {"dedup": False}):
            a, w = _quiet(lambda: x.get_dependencies(**kw)), _quiet(lambda: fresh.get_dependencies(**kw))
            if a[0] != w[0] or (a[0] == "ok" and [d_.name for d_ in a[1]] != [d_.name for d_ in w[1]]):
                return f"after get_dependencies() raised once, a second call returns {a} instead of {w}"
        a, w = _quiet(lambda: [d_.name for d_ in x.render()["dependencies"]]), _quiet(lambda: [d_.name for d_ in fresh.render()["dependencies"]])
        if a != w:
            return f"render() after the fault reports {a} instead of {w}"
        return None
    scen({"C10", "C08"}, "get_dependencies() raises once, then is called again", flaky_deps)

    # 3. a container whose iteration fails once, then the same container is passed again
    def flaky_container():
        page = FlakyList(["a", Tag("li", "b"), ["c"]], n=1)
        if _quiet(lambda: tags.ul(page))[0] != "err":
            return "the injected fault did not propagate"
        for fn in (tags.ul, htmltools.span, htmltools.svg.g, lambda *a: TagList(*a), lambda *a: Tag("x", *a)):
            a, w = _quiet(lambda: str(fn(page))), _quiet(lambda: str(fn(["a", Tag("li", "b"), ["c"]])))
            if a != w:
                return f"after a failed call, passing the same (now readable) container gives {a} instead of {w}"
        loop: list = ["x"]
        loop.append(loop)
        _quiet(lambda: tags.div(loop))
        loop.pop()
        a, w = _quiet(lambda: str(tags.div(loop))), _quiet(lambda: str(tags.div(["x"])))
        if a != w:
            return f"after a self-containing list was rejected, the repaired list gives {a} instead of {w}"
        return None
    scen({"C14", "C19"}, "flattening a container fails once, then the same container is passed again", flaky_container)

    # 4. the render mode the user set survives a failing str()
    def json_mode():
        mode = htmltools.html_dependency_render_mode
        try:
            htmltools.html_dependency_render_mode = "json"
            good = Tag("div", dep(), "x")
            before = str(good)
            if _quiet(lambda: str(Tag("div", dep(), FaultyRepr(), "y")))[0] != "err":
                return "the injected fault did not propagate"
            after = str(good)
            if htmltools.html_dependency_render_mode != "json":
                return "a str() that raised changed htmltools.html_dependency_render_mode"
            if after != before or 'data-html-dependency' not in after:
                return "after a str() that raised, str() of a tag with a dependency no longer carries the serialised dependency"
        finally:
            htmltools.html_dependency_render_mode = mode
        return None
    scen({"C13", "C18", "C08"}, "str() raises midway in json render mode, then str() is called again", json_mode)

    # 5. HTMLDocument.append with an invalid item in the middle of the batch
    def doc_append():
        for first in ([Tag("div", "a")], [Tag("body", "b")], []):
            doc, fresh = HTMLDocument(*first), HTMLDocument(*first)
            r = _quiet(lambda: doc.append(Tag("p", "valid"), object(), Tag("p", "also valid")))
            if r[0] != "err":
                return "appending an invalid object did not raise"
            if doc.render()["html"] != fresh.render()["html"]:
                return "an append() that raised TypeError left part of its batch in the document"
            doc.append(Tag("p", "later"))
            fresh.append(Tag("p", "later"))
            if doc.render()["html"] != fresh.render()["html"]:
                return "after a failed append(), a valid append() renders differently from a fresh document"
        return None
    scen({"C11", "C14"}, "HTMLDocument.append(valid, invalid, valid) raises, then the document is rendered", doc_append)

    # 6. HTMLTextDocument: a corrupt serialised dependency after a valid one; the caller's list is reused
    def text_doc():
        d1 = HTMLDependency("td", "1.0", source={"href": "u"}, script={"src": "s.js"})
        ser = d1.serialize_to_script_json().get_html_string()
        corrupt = ser.replace('"name"', '"nam"')
        L: list = []
        if _quiet(lambda: HTMLTextDocument("<p>@@" + ser + corrupt + "</p>", deps=L, deps_replace_pattern="@@"))[0] != "err":
            return "a corrupt serialised dependency did not raise"
        r = _quiet(lambda: HTMLTextDocument("<p>@@" + ser + "</p>", deps=L, deps_replace_pattern="@@").render())
        w = _quiet(lambda: HTMLTextDocument("<p>@@" + ser + "</p>", deps=[], deps_replace_pattern="@@").render())
        if r[0] != w[0] or (r[0] == "ok" and (r[1]["html"] != w[1]["html"] or len(r[1]["dependencies"]) != len(w[1]["dependencies"]))):
            return "after a failed HTMLTextDocument construction, re-using the caller's deps list recovers a dependency twice"
        return None
    scen({"C13"}, "HTMLTextDocument construction fails on a corrupt script, then the same deps list is used again", text_doc)

    # 7. with blocks: a block that displayed only metadata and then raised is still handed over
    def with_meta():
        old = sys.displayhook
        try:
            sys.displayhook = lambda v: None
            res = []
            for shown in ([dep()], [MetadataNode(), dep()], []):
                outer, inner = Tag("div"), Tag("span", _add_ws=False)
                try:
                    with outer:
                        try:
                            with inner:
                                for v in shown:
                                    sys.displayhook(v)
                                raise Boom("in block")
                        except Boom:
                            pass
                except Boom:
                    pass
                res.append(outer.get_html_string())
            if len(set(res)) != 1 or res[0] != "<div>\n  <span></span>\n</div>":
                return f"a block that displayed only metadata nodes and then raised renders differently: {res}"
        finally:
            sys.displayhook = old
        return None
    scen({"C07", "C17"}, "a with block displays only metadata nodes and then raises", with_meta)

    # 8. JSX: a failed conversion leaves nothing behind for the next one
    def jsx_leak():
        Foo = jsx_tag_create("Foo")
        clean = Foo("plain")
        before = [d_.name for d_ in clean.tagify().get_dependencies(dedup=False)]
        if _quiet(lambda: str(Foo(dep(), Tag("div", dep(), FlakyTagifiable(3)))))[0] != "err":
            return "the injected fault did not propagate"
        after = [d_.name for d_ in Foo("plain").tagify().get_dependencies(dedup=False)]
        if after != before:
            return f"after a conversion that raised, an unrelated component carries {after} instead of {before}"
        return None
    scen({"C20"}, "a JSX conversion raises midway, then another component is converted", jsx_leak)

    # 9. dependency methods on dependencies without a source prefix leave the object unchanged
    def dep_nosource():
        for src in (None, {"href": ""}):
            d1 = HTMLDependency("ns", "1.0", source=src, script={"src": "a b́.js"},
                                stylesheet={"href": "s t.css", "rel": "preload"})
            before = structure(d1)
            outs = [str(d1.as_html_tags()), str(d1.as_dict()), str(d1), HTMLDocument(Tag("div", d1)).render()["html"]]
            outs2 = [str(d1.as_html_tags()), str(d1.as_dict()), str(d1), HTMLDocument(Tag("div", d1)).render()["html"]]
            if structure(d1) != before:
                return "as_dict()/as_html_tags() modified a dependency that has no source prefix"
            if outs != outs2:
                return "repeating as_dict()/as_html_tags()/render on a dependency without source prefix gives different results"
        return None
    scen({"C08", "C12"}, "dependency without a source prefix, file names that need quoting", dep_nosource)

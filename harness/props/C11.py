"""C11  HTMLDocument builds one head/body and hoists every dependency into head.

Step B compares /repo with the extracted Coq model (driver c11, Model/DriverC11.v):
  op 1  HTMLDocument(content, **kw) [+ append] .render(lib_prefix=, include_version=):
        the html string and the returned dependency list (by object index); the markup of each
        dependency is handed to the model as its four parts (metas, links, scripts, head
        payload; built here from the public d.as_dict() / d.head and checked against the real
        d.as_html_tags()), the model assembles them in the order the translator read off the
        code and does everything else itself
  op 2  the text hashed by head_content(*args) (name = headcontent_ + sha1)
Step C decides the property with oracles written from the property text, independent of the
model: (a) the whole output equals doctype + the ordinary rendering of the document tree the
statement describes, built with public constructors only; (b) on markup-free inputs the output
is parsed with html.parser and the statement's clauses are checked on the parsed tree (one
html, head count, meta charset first, user head content, one listing script, each dependency's
markup once in resolved order, nothing of a dependency elsewhere); (c) the returned list is the
independent resolution (earliest maximal version per name, first-occurrence order) of the
document-order dependency sequence and is what the listing names; (d) rendering twice gives
the same result and leaves the user's own objects rendering as before; (e) histories on one
document object (render / append / save_html into a temp dir / copy.copy, any order): every
render equals what a fresh document built from all content supplied so far renders.

ENTRY POINTS AND ARGUMENTS that reach what the statement describes, and where each is exercised
(check_routes judges every one of them against expected_document, the statement's document):
  HTMLDocument(*args, **kwargs)          every case; kwargs: lang / class_ / class / style / id / data_x / xml__lang / for_
                                         with str, HTML, None, bool, int, float, rejected list; _add_ws / _name; 7..300 kwargs
                                         (big cases); kwargs that come out of consolidate_attrs(*args, **kw) (an attrs dict made
                                         by another Tag); htmltools.HTMLDocument and htmltools._core.HTMLDocument
  HTMLDocument.append(*args)             split cases, histories, one append per item (routes), 7..300 append calls (big cases)
  HTMLDocument.render(*, lib_prefix="lib", include_version=True)
                                         explicit values None / "" / "lib" / "lib/" / nested a/b(/c) / blanks / non-ASCII / regex
                                         metacharacters / .. / absolute; include_version on and off; each argument left to its
                                         default (routes); twice on one object; after the returned dict was emptied by the caller
  HTMLDocument.save_html(file, libdir="lib", include_version=True)
                                         keywords, positionally, defaults; the file is read back (histories, routes)
  Tag.save_html / TagList.save_html(file, *, libdir=, include_version=)   = HTMLDocument(self).save_html (routes)
  copy.copy(doc) / copy.deepcopy(doc)    histories (copy, then both are appended to / rendered), routes
  head_content(*args)                    as a dependency of the document (every stream), its naming (check_head_content: content-
                                         named, near-duplicates up to 70000 characters of every UTF-8 width, 7..300 nodes)
  HTMLDependency.as_html_tags(*, lib_prefix=, include_version=)   every dependency of every case (its four parts)
  htmltools.html_dependency_render_mode = "json"   the document renders the same (routes; str()/repr() of tags are C13's subject)
  with tag: / sys.displayhook / wrap_displayhook_handler   content built through with-blocks, then put into a document (routes)
  TagList.__add__ / __radd__ / __iadd__, TagList.tagify()   content combined / tagified beforehand, then put into a document
  objects: tagifiable, self-rendering, BOTH (CustomReprObj); one Tag object in two parents (case['share']); one dependency
           object at many places; user content that looks like what the document inserts (rand_lookalike)
  not reached from here: Tag.show() / TagList.show() (opens a browser / needs IPython; they call save_html), HTMLTextDocument
  (text templates: C13), Tag.get_html_string(indent=, eol=) (HTMLDocument.render has no layout arguments: C01).

Descriptions are plain JSON lists:
  node ::= ["T", s] | ["H", s] | ["R", s] | ["N"] | ["D", i] | ["G", name, ws, attrs, kids]
         | ["L", how, kids] | ["C", exp, as_list] | ["C", exp, as_list, own_html]      attrs = [[key, "S"|"H", value], ...]
  dep  ::= {"kind": "dep", name, version, source, meta, stylesheet, script, head}
         | {"kind": "hc", "args": [node]}                   head = None | ["str", s] | ["nodes", [node]]
  case ::= {"deps": [dep], "args": [node], "split": [k1, k2...], "kw": [[name, val]],
            "lib_prefix": None|str, "include_version": bool, "safe": bool,
            optional "share": True (equal tag descriptions are ONE object), "label": str (big cases)}
"""
from __future__ import annotations

import copy as _copy
import glob
import hashlib
import html.parser
import itertools
import json
import os
from typing import Any

from .. import common
from ..common import Ctx, S, unS, VERIF, run_model
from .. import trees
from ..trees import safe_call

import htmltools
from htmltools import HTML, HTMLDependency, HTMLDocument, Tag, TagList, head_content

VERSIONS = ["1", "1.0", "1.9", "1.10", "1.10.0", "01.2", "2", "0.0.1"]
NAMES = ["a", "b", "jq", "A"]
F7_ID = "F7-dep-in-dep-head"
WHAT_RETURNED = "returned dependency list is not the resolved list of the content's dependencies"
WHAT_LISTING = "the listing script does not name exactly the returned dependencies"


# ------------------------------------------------------------------------------------
# known finding F7: a dependency object occurs inside the head payload of another dependency
# ------------------------------------------------------------------------------------
def has_dep(nodes: list) -> bool:
    for n in nodes:
        k = n[0]
        if k == "D":
            return True
        if k == "G" and has_dep(n[4]):
            return True
        if k == "L" and has_dep(n[2]):
            return True
        if k == "C" and has_dep(n[1]):
            return True
    return False


def dep_in_dep_head(case: dict) -> bool:
    return any(payload_has_dep(d) for d in case.get("deps", []))


def payload_has_dep(d: dict) -> bool:
    if d["kind"] == "dep":
        return d["head"] is not None and d["head"][0] == "nodes" and has_dep(d["head"][1])
    return has_dep(d["args"])


@common.known_matcher(F7_ID)
def _known_f7(what, case, detail):
    # exactly that shape (the payload being that of a dependency the document hoists), and only
    # the disagreements it causes (returned list vs resolved content / listing); any other broken
    # clause on such an input is still reported
    return (isinstance(case, dict) and dep_in_dep_head(case)
            and what in (WHAT_RETURNED, WHAT_LISTING)
            and detail.get("hoisted_payload_holds_dependency") is True)


# ------------------------------------------------------------------------------------
# building live objects from descriptions
# ------------------------------------------------------------------------------------
class Objs(list):
    """the dependency objects of one case; memo (when not None) makes Tags with EQUAL descriptions
    the very same object within one build of the content (one object placed in several parents)"""
    memo: dict | None = None


def build_node(n: list, objs: list) -> Any:
    k = n[0]
    if k == "T":
        return n[1]
    if k == "H":
        return HTML(n[1])
    if k == "R":
        return trees.ReprObj(n[1])
    if k == "N":
        return None
    if k == "D":
        return objs[n[1]]
    if k == "G":
        _, name, ws, attrs, kids = n
        memo = getattr(objs, "memo", None)
        key = None
        if memo is not None:
            key = json.dumps(n)
            if key in memo:
                return memo[key]
        t = Tag(name, *[build_node(x, objs) for x in kids], _add_ws=ws)
        for key_, m, v in attrs:
            # stored as is (name normalisation is C15's subject)
            dict.__setitem__(t.attrs, key_, HTML(v) if m == "H" else v)
        if memo is not None:
            memo[key] = t
        return t
    if k == "L":
        kb = [build_node(x, objs) for x in n[2]]
        return {"list": list, "tuple": tuple}.get(n[1], lambda l: TagList(*l))(kb)
    if k == "C":
        kb = [build_node(x, objs) for x in n[1]]
        if len(n) > 3:      # BOTH tagifiable and self-rendering (_repr_html_): in a document tagify() decides
            return trees.CustomReprObj(kb, n[2], n[3])
        return trees.CustomObj(kb, n[2])
    raise ValueError(n)


SOURCES = {
    "none": None,
    "href": {"href": "https://x.y/z"},
    "pkg": {"package": "htmltools", "subdir": "libtest"},
}


def build_deps(deps: list) -> list:
    objs: list = Objs()
    for i, dd in enumerate(deps):
        if dd["kind"] == "hc":
            d = head_content(*[build_node(x, objs) for x in dd["args"]])
        else:
            h = dd["head"]
            head = None if h is None else h[1] if h[0] == "str" else [build_node(x, objs) for x in h[1]]
            d = HTMLDependency(dd["name"], dd["version"], source=_copy.deepcopy(SOURCES[dd["source"]]),
                               meta=_copy.deepcopy(dd["meta"]), stylesheet=_copy.deepcopy(dd["stylesheet"]),
                               script=_copy.deepcopy(dd["script"]), head=head)
        d._verif_id = i      # survives copy(), which tagify() applies to metadata nodes
        objs.append(d)
    return objs


def top_args(case: dict, objs: list) -> list:
    if isinstance(objs, Objs):
        objs.memo = {} if case.get("share") else None      # sharing only within ONE build of the content
    try:
        return [build_node(x, objs) for x in case["args"]]
    finally:
        if isinstance(objs, Objs):
            objs.memo = None


def kw_value(v: list) -> Any:
    k = v[0]
    if k == "none":
        return None
    if k in ("bool", "int", "float", "str"):
        return v[1]
    if k == "html":
        return HTML(v[1])
    return [v[1:]]      # a list: rejected with TypeError


def kw_sx(v: list) -> list:
    k = v[0]
    if k == "none":
        return [0]
    if k == "bool":
        return [1, 1 if v[1] else 0]
    if k == "int":
        return [2, S(str(v[1]))]
    if k == "float":
        return [3, S(str(v[1]))]
    if k == "str":
        return [4, S(v[1])]
    if k == "html":
        return [5, S(v[1])]
    return [6]


# ------------------------------------------------------------------------------------
# encodings for the model
# ------------------------------------------------------------------------------------
def release(s: str) -> list[int]:
    return [int(x) for x in s.split(".")]


def dep_sx(i: int, objs: list) -> list:
    d = objs[i]
    return [S(d.name), list(d.version.release), i]


def nodes_sx(nodes: list, objs: list) -> list:
    """description -> model nodes; lists are flattened and None dropped as TagList does
    (that flattening is C14's subject)"""
    out = []
    for n in nodes:
        k = n[0]
        if k == "T":
            out.append([0, S(n[1])])
        elif k == "H":
            out.append([1, S(n[1])])
        elif k == "R":
            out.append([2, S(n[1])])
        elif k == "N":
            pass
        elif k == "D":
            out.append([3, dep_sx(n[1], objs)])
        elif k == "G":
            out.append([4, S(n[1]), 1 if n[2] else 0,
                        [[S(key), [1 if m == "H" else 0, S(v)]] for key, m, v in n[3]],
                        nodes_sx(n[4], objs)])
        elif k == "L":
            out += nodes_sx(n[2], objs)
        elif k == "C":
            out.append([5, [S(n[3])] if len(n) > 3 else [], nodes_sx(n[1], objs)])
        else:
            raise ValueError(n)
    return out


def enc_live(x: Any) -> list:
    """a live (custom-free) object -> model node"""
    if isinstance(x, HTMLDependency):
        return [3, [S(x.name), list(x.version.release), x._verif_id]]
    if isinstance(x, Tag):
        return [4, S(x.name), 1 if x.add_ws else 0,
                [[S(k), [1 if isinstance(v, HTML) else 0, S(str(v))]] for k, v in dict.items(x.attrs)],
                [enc_live(c) for c in x.children]]
    if isinstance(x, HTML):
        return [1, S(str(x))]
    if isinstance(x, str):
        return [0, S(x)]
    if isinstance(x, trees.ReprObj):
        return [2, S(x.s)]
    raise ValueError(type(x))


def dep_parts(d: HTMLDependency, lib_prefix, include_version) -> tuple[list, list, list, list]:
    """the four argument groups of as_html_tags, from the public as_dict() (its URLs are C12's
    subject) and the head payload.  Computed once per dependency object and setting (the first
    time: before the implementation has rendered anything) and only read afterwards."""
    cache = PARTS.setdefault(id(d), (d, {}))
    if cache[0] is not d:          # the id of a dead object re-used
        cache = PARTS[id(d)] = (d, {})
    key = (lib_prefix, include_version)
    if key not in cache[1]:
        if len(PARTS) > 4000:
            PARTS.clear()
            cache = PARTS[id(d)] = (d, {})
        cache[1][key] = _dep_parts(d, lib_prefix, include_version)
    return cache[1][key]


PARTS: dict = {}


def _dep_parts(d: HTMLDependency, lib_prefix, include_version) -> tuple[list, list, list, list]:
    dd = d.as_dict(lib_prefix=lib_prefix, include_version=include_version)
    metas = [Tag("meta", **m) for m in dd["meta"]]
    links = [Tag("link", **s) for s in dd["stylesheet"]]
    scripts = [Tag("script", **s) for s in dd["script"]]
    head = [] if d.head is None else list(d.head)
    return metas, links, scripts, head


def case_sx(case: dict, objs: list) -> list:
    marks = []
    for i, d in enumerate(objs):
        me, li, sc, he = dep_parts(d, case["lib_prefix"], case["include_version"])
        marks.append([i, [enc_live(x) for x in me], [enc_live(x) for x in li],
                      [enc_live(x) for x in sc], [enc_live(x) for x in he]])
    return [1, nodes_sx(case["args"], objs), [[S(k), kw_sx(v)] for k, v in case["kw"]], marks]


# ------------------------------------------------------------------------------------
# specification side (written from the property text)
# ------------------------------------------------------------------------------------
def spec_vcmp(a: list[int], b: list[int]) -> int:
    n = max(len(a), len(b))
    pa, pb = a + [0] * (n - len(a)), b + [0] * (n - len(b))
    return (pa > pb) - (pa < pb)


def spec_keys(case: dict, objs: list) -> list:
    """Which placed objects are ONE dependency, decided from the case description and never from
    the names the implementation gave: an HTMLDependency by the name it was constructed with; a
    head_content() item by its content (the statement: a content-named dependency, every
    multiplicity of head_content() items) -- two items are the same dependency exactly when the
    ordinary rendering of their arguments is the same text."""
    keys = []
    for dd in case["deps"]:
        if dd["kind"] == "hc":
            r = safe_call(lambda: TagList(*[build_node(x, objs) for x in dd["args"]]).get_html_string())
            keys.append(("hc", r[1] if r[0] == "ok" else repr(dd["args"])))
        else:
            keys.append(("dep", dd["name"]))
    return keys


def spec_resolve(seq: list[int], deps: list, keys: list | None = None) -> list[int]:
    """one per name, names by first occurrence, each the earliest occurrence of maximal version"""
    if keys is None:
        keys = [d.name for d in deps]
    names: list = []
    seen = set()
    for i in seq:
        if keys[i] not in seen:
            seen.add(keys[i])
            names.append(keys[i])
    by_name: dict = {}
    for i in seq:
        by_name.setdefault(keys[i], []).append(i)
    out = []
    for nm in names:
        cands = list(dict.fromkeys(by_name[nm]))
        best = cands[0]
        for i in cands[1:]:       # a later one only when strictly greater: the earliest of the maximal ones
            if spec_vcmp(list(deps[i].version.release), list(deps[best].version.release)) > 0:
                best = i
        out.append(best)
    return out


def doc_order(nodes: list) -> list[int]:
    """dependency placements of the content in document order (objects are looked into: the
    document is tagified before anything else)"""
    out: list[int] = []
    for n in nodes:
        k = n[0]
        if k == "D":
            out.append(n[1])
        elif k == "G":
            out += doc_order(n[4])
        elif k == "L":
            out += doc_order(n[2])
        elif k == "C":
            out += doc_order(n[1])
    return out


def flat_items(nodes: list) -> list:
    """top-level description items after flattening"""
    out = []
    for n in nodes:
        if n[0] == "L":
            out += flat_items(n[2])
        elif n[0] != "N":
            out.append(n)
    return out


def construction_case(case: dict) -> str:
    items = flat_items(case["args"])
    if len(items) == 1 and items[0][0] == "G" and items[0][1] == "html":
        return "html"
    if len(items) == 1 and items[0][0] == "G" and items[0][1] == "body":
        return "body"
    return "fragment"


def dep_markup(d: HTMLDependency, lib_prefix, include_version) -> list:
    """meta, link, script and head markup of one dependency, in that order"""
    me, li, sc, he = dep_parts(d, lib_prefix, include_version)
    return me + li + sc + he


def shallow_tag(t: Tag, children: list) -> Tag:
    r = Tag(t.name, _add_ws=t.add_ws)
    for k, v in dict.items(t.attrs):
        dict.__setitem__(r.attrs, k, v)
    r.children = TagList()
    list.extend(r.children.data, children)
    return r


def expected_document(case: dict, objs: list) -> tuple[Any, list[int], dict]:
    """The document the statement describes, built with public constructors, and the resolved
    dependency indices.  Returns (html Tag | ('err', code), resolved, parts) where parts names
    the pieces for the parsed-tree oracle."""
    args = top_args(case, objs)
    items = list(TagList(*args))
    kw = {k: kw_value(v) for k, v in case["kw"]}
    resolved = spec_resolve(doc_order(case["args"]), objs, spec_keys(case, objs))
    lp, iv = case["lib_prefix"], case["include_version"]
    hoisted = []
    if resolved:
        hoisted.append(Tag("script", ";".join(objs[i].name + "[" + str(objs[i].version) + "]" for i in resolved),
                           type="application/html-dependencies"))
    blocks = [dep_markup(objs[i], lp, iv) for i in resolved]
    for b in blocks:
        hoisted += b
    meta = Tag("meta", charset="utf-8")
    kind = construction_case(case)
    if kind == "html":
        user = items[0].tagify()
        r = safe_call(lambda: user.attrs.update(**kw))
        if r[0] != "ok":
            return r, resolved, {}
        kids = list(user.children)
        hi = next((j for j, c in enumerate(kids) if isinstance(c, Tag) and c.name == "head"), None)
        if hi is None:
            pre, uhead, uhk, post = [], Tag("head"), [], kids
        else:
            pre, uhead, uhk, post = kids[:hi], kids[hi], list(kids[hi].children), kids[hi + 1:]
        head = shallow_tag(uhead, [meta] + uhk + hoisted)
        doc = shallow_tag(user, pre + [head] + post)
        n_user_heads = sum(1 for c in kids if isinstance(c, Tag) and c.name == "head")
    else:
        if kind == "body":
            body = items[0].tagify()
        else:
            body = Tag("body", *items).tagify()
        if any(k in ("_add_ws", "_name") for k in kw):
            # not attribute names: parameters of the Tag constructor that the document already sets
            return ("err", 3), resolved, {}
        r = safe_call(lambda: Tag("html", **kw))
        if r[0] != "ok":
            return r, resolved, {}
        pre, uhk, post = [], [], [body]
        head = shallow_tag(Tag("head"), [meta] + hoisted)
        doc = shallow_tag(r[1], [head, body])
        n_user_heads = 0
    return doc, resolved, {"pre": pre, "uhk": uhk, "post": post, "blocks": blocks,
                           "listing": hoisted[:1] if resolved else [], "n_user_heads": n_user_heads,
                           "root": doc}


# ---- html.parser side ------------------------------------------------------------------
class _Events(html.parser.HTMLParser):
    def __init__(self):
        super().__init__(convert_charrefs=True)
        self.ev: list = []

    def handle_starttag(self, tag, attrs):
        self.ev.append(("start", tag, tuple(attrs)))

    def handle_startendtag(self, tag, attrs):
        self.ev.append(("start", tag, tuple(attrs)))
        self.ev.append(("end", tag))

    def handle_endtag(self, tag):
        self.ev.append(("end", tag))

    def handle_data(self, data):
        if data.strip():
            self.ev.append(("data", "".join(data.split())))

    def handle_decl(self, decl):
        self.ev.append(("decl", decl))


def events(s: str) -> list:
    p = _Events()
    p.feed(s)
    p.close()
    # adjacent data events are merged (layout whitespace may split them)
    out: list = []
    for e in p.ev:
        if e[0] == "data" and out and out[-1][0] == "data":
            out[-1] = ("data", out[-1][1] + e[1])
        else:
            out.append(e)
    return out


def forest(ev: list) -> list:
    """events -> [(tag, attrs, children) | ('#', text)]; the inputs this is used on are well formed"""
    root: list = []
    stack = [root]
    names: list = []
    for e in ev:
        if e[0] == "start":
            node = (e[1], e[2], [])
            stack[-1].append(node)
            stack.append(node[2])
            names.append(e[1])
        elif e[0] == "end":
            if e[1] in names:
                while names:
                    stack.pop()
                    if names.pop() == e[1]:
                        break
        elif e[0] == "data":
            stack[-1].append(("#", e[1]))
        else:
            stack[-1].append(("!", e[1]))
    return root


def merge_text(nodes: list) -> list:
    out: list = []
    for n in nodes:
        if n[0] == "#" and out and out[-1][0] == "#":
            out[-1] = ("#", out[-1][1] + n[1])
        else:
            out.append(n)
    return out


def render_items(items: list) -> str:
    return TagList(*[x for x in items if not isinstance(x, HTMLDependency)]).get_html_string()


def parsed_oracle(case: dict, objs: list, html_s: str, resolved: list[int], parts: dict) -> list:
    """clauses of the statement on the html.parser tree; only for markup-free inputs"""
    bad = []
    f = forest(events(html_s))
    if not f or f[0] != ("!", "DOCTYPE html"):
        bad.append(("the output does not start with the doctype declaration", {}))
        return bad
    roots = [n for n in f[1:] if n[0] not in "#!"]
    if len(roots) != 1 or roots[0][0] != "html" or len(f) != 2:
        bad.append(("the doctype is not followed by a single html element", {"roots": [n[0] for n in f[1:]]}))
        return bad
    html_el = roots[0]
    heads = [c for c in html_el[2] if c[0] == "head"]
    want_heads = max(1, parts["n_user_heads"])
    if len(heads) != want_heads:
        bad.append(("the html element does not have exactly one head child" if want_heads == 1 else
                    "the number of head children changed", {"heads": len(heads), "expected": want_heads}))
        return bad
    hk = heads[0][2]
    if not hk or hk[0] != ("meta", (("charset", "utf-8"),), []):
        bad.append(("the head does not start with <meta charset=\"utf-8\"/>", {"first": repr(hk[:1])}))
    want = [("meta", (("charset", "utf-8"),), [])]
    want += forest(events(render_items(parts["uhk"])))
    if resolved:
        want.append(("script", (("type", "application/html-dependencies"),),
                     [("#", "".join(";".join(objs[i].name + "[" + str(objs[i].version) + "]" for i in resolved).split()))]))
    for b in parts["blocks"]:
        want += forest(events(render_items(b)))
    want = merge_text(want)
    if hk != want:
        bad.append(("head content is not meta charset, the user's head content, the listing script, then each "
                    "dependency's markup once in resolved order", {"parsed_head": repr(hk)[:600], "expected": repr(want)[:600]}))
    # nothing of a dependency anywhere else: the rest is the user's content, dependencies deleted

    def count_listing(nodes):
        n = 0
        for c in nodes:
            if c[0] in "#!":
                continue
            if c[0] == "script" and ("type", "application/html-dependencies") in c[1]:
                n += 1
            n += count_listing(c[2])
        return n
    rest = [c for c in html_el[2] if c is not heads[0]]
    want_rest = forest(events(render_items(parts["pre"]))) + forest(events(render_items(parts["post"])))
    # the document's own listing once (never without dependencies), besides whatever scripts of that type the
    # user's own content / the dependencies' own markup hold
    users = count_listing(want) - (1 if resolved else 0) + count_listing(want_rest) if has_listing_lookalike(case) else 0
    if count_listing(f) != (1 if resolved else 0) + users:
        bad.append(("the application/html-dependencies script does not occur exactly once (never without dependencies)",
                    {"count": count_listing(f), "supplied_by_the_user": users}))
    if rest != want_rest:
        bad.append(("outside the head the document is not the content's ordinary rendering (dependency markup "
                    "left in the body, or content lost)", {"parsed_rest": repr(rest)[:600], "expected": repr(want_rest)[:600]}))
    return bad


def listing_of(html_s: str) -> list[str] | None:
    """the entries of the listing script(s), by plain string search"""
    opener = '<script type="application/html-dependencies">'
    out = []
    pos = 0
    while True:
        i = html_s.find(opener, pos)
        if i < 0:
            break
        j = html_s.find("</script>", i)
        out.append(html_s[i + len(opener):j])
        pos = j
    return out


# ------------------------------------------------------------------------------------
# one batch: correspondence + oracles
# ------------------------------------------------------------------------------------
def run_impl(case: dict, objs: list):
    """-> (result of render(), None | what changed): the document is rendered twice and the
    user's own objects are rendered on their own before and after"""
    side: list = []

    def go():
        args = top_args(case, objs)
        before = safe_call(lambda: TagList(*args).tagify().get_html_string())
        kw = {k: kw_value(v) for k, v in case["kw"]}
        cuts = [0] + list(case["split"]) + [len(args)]
        doc = HTMLDocument(*args[cuts[0]:cuts[1]], **kw)
        for a, b in zip(cuts[1:], cuts[2:]):
            if b > a:
                doc.append(*args[a:b])
        fields = [repr((d.name, str(d.version), d.source, d.script, d.stylesheet, d.meta, d.all_files,
                        None if d.head is None else len(d.head))) for d in objs]
        r = doc.render(lib_prefix=case["lib_prefix"], include_version=case["include_version"])
        out = ([getattr(d, "_verif_id", -1) for d in r["dependencies"]], r["html"])
        # the result belongs to the caller: emptying it must not reach into the document
        r["dependencies"].clear()
        r["html"] = ""
        if [repr((d.name, str(d.version), d.source, d.script, d.stylesheet, d.meta, d.all_files,
                  None if d.head is None else len(d.head))) for d in objs] != fields:
            side.append("render() changed the caller's dependency objects")
        r2 = doc.render(lib_prefix=case["lib_prefix"], include_version=case["include_version"])
        if ([getattr(d, "_verif_id", -1) for d in r2["dependencies"]], r2["html"]) != out:
            side.append("a second render() of the same document gives a different result")
        if safe_call(lambda: TagList(*args).tagify().get_html_string()) != before:
            side.append("render() changed the user's own content (it renders differently afterwards)")
        return out
    r = safe_call(go)
    return r, (side[0] if side else None)


def kind_of(case: dict) -> str:
    k = construction_case(case)
    if "label" in case:
        k = "big (" + "".join(ch for ch in case["label"] if not ch.isdigit()).replace("  ", " ").strip() + "): " + k
    if case["split"]:
        k += "+append"
    if dep_in_dep_head(case):
        k += "+dep-in-dep-head"
    return k


def nontrivial(case: dict) -> bool:
    return bool(doc_order(case["args"])) or bool(case["kw"]) or construction_case(case) == "html"


def check_groups(ctx: Ctx, groups: list[tuple[str, list[dict]]], histories: list[dict] | None = None) -> None:
    """one run of the extracted model for all groups and all history snapshots (each call
    rebuilds / re-checks the driver)"""
    built = [[build_deps(c["deps"]) for c in cases] for _, cases in groups]
    flat = [case_sx(c, o) for (_, cases), bs in zip(groups, built) for c, o in zip(cases, bs)]
    hist = [run_history(h) for h in (histories or [])]
    hist_sx = [case_sx(rec["snapshot"], objs) for objs, recs in hist for rec in recs]
    model = run_model(flat + hist_sx, driver="c11")
    pos = 0
    for (name, cases), bs in zip(groups, built):
        check_cases(ctx, name, cases, bs, model[pos:pos + len(cases)])
        pos += len(cases)
    if histories:
        check_histories(ctx, histories, hist, model[pos:])


# ------------------------------------------------------------------------------------
# histories on ONE document object: render / append / save_html / copy.copy in any order.
#   history ::= {"deps", "args", "kw", "safe", "ops": [op]}
#   op ::= ["render", lib_prefix, include_version] | ["append", [node]]
#        | ["save", libdir, include_version] | ["copy"]
# After every render (of the document and of every copy made so far) and every save_html the
# result must be what a FRESH HTMLDocument built from all content supplied so far renders
# (oracle), and what the model's doc_render gives on that accumulated content (correspondence).
# ------------------------------------------------------------------------------------
WHAT_HISTORY = ("after a render / append / save_html / copy history the document does not render as a fresh "
                "document built from all the content supplied so far")


def run_history(h: dict) -> tuple[list, list[dict]]:
    import shutil
    import tempfile
    objs = build_deps(h["deps"])
    kw = {k: kw_value(v) for k, v in h["kw"]}
    recs: list[dict] = []
    tmp = None

    def snap(acc, lp, iv):
        return {"deps": h["deps"], "args": list(acc), "split": [], "kw": h["kw"], "lib_prefix": lp,
                "include_version": iv, "safe": h["safe"]}

    def rendered(d, lp, iv):
        r = d.render(lib_prefix=lp, include_version=iv)
        return ([getattr(x, "_verif_id", -1) for x in r["dependencies"]], r["html"])
    try:
        r0 = safe_call(lambda: HTMLDocument(*[build_node(x, objs) for x in h["args"]], **kw))
        if r0[0] != "ok":
            return objs, recs
        docs = [[r0[1], list(h["args"]), "document"]]
        for step, op in enumerate(h["ops"]):
            if op[0] == "append":
                docs[0][0].append(*[build_node(x, objs) for x in op[1]])
                docs[0][1] += op[1]
            elif op[0] == "copy":
                docs.append([_copy.copy(docs[0][0]), list(docs[0][1]), f"copy made at step {step}"])
            elif op[0] == "render":
                for d, acc, who in docs:
                    recs.append({"step": step, "who": who, "how": "render", "snapshot": snap(acc, op[1], op[2]),
                                 "result": safe_call(rendered, d, op[1], op[2])})
            elif op[0] == "save":
                if tmp is None:
                    tmp = tempfile.mkdtemp(prefix="verif-c11-")
                path = os.path.join(tmp, f"d{step}", "index.html")
                os.makedirs(os.path.dirname(path))

                def saved():
                    docs[0][0].save_html(path, libdir=op[1], include_version=op[2])
                    with open(path, encoding="utf-8", newline="") as f:
                        return (None, f.read())
                recs.append({"step": step, "who": "document", "how": "save_html",
                             "snapshot": snap(docs[0][1], op[1], op[2]), "result": safe_call(saved)})
            else:
                raise ValueError(op)
    finally:
        if tmp is not None:
            shutil.rmtree(tmp, ignore_errors=True)
    return objs, recs


def check_histories(ctx: Ctx, histories: list[dict], hist: list, model: list) -> None:
    disagreements = []
    pos = 0
    nrec = 0
    for h, (objs, recs) in zip(histories, hist):
        shape = "history: " + " ".join(o[0] for o in h["ops"])
        ctx.count(h, True, "history (" + construction_case({"args": h["args"]}) + " at construction)")
        for rec in recs:
            m = model[pos]
            pos += 1
            nrec += 1
            got = rec["result"]
            fresh, _ = run_impl(rec["snapshot"], objs)
            if rec["how"] == "save_html" and got[0] == "ok" and fresh[0] == "ok":
                fresh = ("ok", (None, fresh[1][1]))
            if got != fresh:
                ctx.violation(WHAT_HISTORY, h, {"impl_output": repr(got)[:1500], "expected": repr(fresh)[:1500],
                                                "step": rec["step"], "who": rec["who"], "how": rec["how"],
                                                "ops": shape})
            if isinstance(m, tuple):
                mv = ("!", m[1])
            else:
                mv = trees.res_decode(m[1], lambda v: (v[0], unS(v[1])))
                if rec["how"] == "save_html" and mv[0] == "ok":
                    mv = ("ok", (None, mv[1][1]))
            if mv != got:
                disagreements.append({"case": h, "step": rec["step"], "who": rec["who"], "how": rec["how"],
                                      "impl_output": got, "model_output": mv})
    ctx.corr_cases += nrec
    ctx.obligation(f"correspondence histories on one document object: every render / save_html vs doc_render on "
                   f"the accumulated content ({len(histories)} histories, {nrec} renders)", not disagreements)
    if disagreements:
        disagreements.sort(key=lambda d: len(json.dumps(d["case"], default=repr)))
        ctx.extra["disagree_histories"] = disagreements[:3]
        ctx.extra.setdefault("disagreements", []).extend(disagreements[:2])


def rand_appended(rng, nd: int, safe: bool) -> list:
    """what one append call adds"""
    r = rng.random()
    if r < 0.3 and nd > 0:            # a dependency only
        return [["D", rng.randrange(nd)]]
    if r < 0.45:                      # nested lists / None
        return [["N"], ["L", rng.choice(["list", "tuple", "taglist"]),
                        [["L", "list", rand_kids(rng, 1, nd, safe)], ["N"]]]]
    if r < 0.6:                       # a lone html / body tag
        return [rng.choice([rand_html(rng, nd, safe), ["G", "body", True, [], rand_kids(rng, 2, nd, safe)]])]
    kids = rand_kids(rng, 2, nd, safe)
    return kids or [["T", txt(rng, safe)]]


def rand_history(rng) -> dict:
    safe = rng.random() < 0.5
    nd = rng.choice([1, 2, 2, 3, 4])
    deps = [rand_dep(rng, i, safe) for i in range(nd)]
    settings = [[None, True], ["lib", True], ["a/b", False], ["lib", False]]
    r = rng.random()
    if r < 0.3:       # a lone html / body at construction: the first append changes the case
        args = [rng.choice([rand_html(rng, nd, safe), ["G", "body", True, rand_attrs(rng, safe), rand_kids(rng, 2, nd, safe)]])]
    elif r < 0.4:
        args = []
    else:
        args = rand_kids(rng, 2, nd, safe)
    ops: list = []
    if rng.random() < 0.6:
        # the core pattern: render, append, render again with the same settings
        st = rng.choice(settings)
        ops = [["render"] + st, ["append", rand_appended(rng, nd, safe)], ["render"] + st]
    for _ in range(rng.choice([0, 1, 2, 3, 4] if ops else [2, 3, 4, 5])):
        r = rng.random()
        if r < 0.35:
            op = ["render"] + rng.choice(settings)
        elif r < 0.7:
            op = ["append", rand_appended(rng, nd, safe)]
        elif r < 0.85:
            op = ["save"] + rng.choice(settings)
        else:
            op = ["copy"]
        ops.insert(rng.randrange(len(ops) + 1) if rng.random() < 0.5 else len(ops), op)
    if ops[-1][0] not in ("render", "save"):
        ops.append(["render"] + rng.choice(settings))
    if any(o[0] == "save" for o in ops):
        # save_html copies files: dependencies without local files (none / url source) or with files that exist
        make_savable(rng, deps)
    return {"deps": deps, "args": args, "kw": rand_kw(rng, safe) if rng.random() < 0.5 else [], "safe": safe, "ops": ops}


FIXED_HISTORIES = [
    # render, append content with its own dependency, render again with the same settings
    {"deps": [{"kind": "dep", "name": "a", "version": "1.0", "source": "href", "meta": [], "stylesheet": [],
               "script": [{"src": "a.js"}], "head": None},
              {"kind": "dep", "name": "b", "version": "2", "source": "none", "meta": [], "stylesheet": [],
               "script": [{"src": "b.js"}], "head": ["str", "<i>b</i>"]}],
     "args": [["G", "div", True, [], [["T", "x"], ["D", 0]]]], "kw": [["lang", ["str", "en"]]], "safe": True,
     "ops": [["render", "lib", True], ["append", [["G", "p", True, [], [["T", "y"], ["D", 1]]]]], ["render", "lib", True],
             ["save", "lib", True], ["copy"], ["append", [["D", 1]]], ["render", "lib", True], ["render", None, False]]},
    # a lone html at construction; the append turns the content into a fragment of two items
    {"deps": [{"kind": "dep", "name": "a", "version": "1.0", "source": "none", "meta": [], "stylesheet": [],
               "script": [{"src": "a.js"}], "head": None}],
     "args": [["G", "html", True, [], [["G", "head", True, [], [["G", "title", True, [], [["T", "t"]]]]], ["G", "body", True, [], [["T", "x"]]]]]],
     "kw": [], "safe": True,
     "ops": [["render", "lib", True], ["append", [["D", 0]]], ["render", "lib", True], ["append", [["N"], ["L", "list", [["N"]]]]],
             ["render", "lib", True]]},
]


def check_cases(ctx: Ctx, name: str, cases: list[dict], built: list, model: list) -> None:
    disagreements, parts_bad, spec_bad = [], [], []
    for c, objs, m in zip(cases, built, model):
        ctx.count(c, nontrivial(c), kind_of(c))
        iv, side = run_impl(c, objs)
        if side is not None:
            ctx.violation(side, c, {"impl_output": repr(iv)[:800], "expected": "the document is a function of its content"})
        lp, ivn = c["lib_prefix"], c["include_version"]
        # the four parts handed to the model are what as_html_tags returns
        for d in objs:
            r = safe_call(lambda: [enc_live(x) for x in d.as_html_tags(lib_prefix=lp, include_version=ivn)])
            if r != ("ok", [enc_live(x) for x in dep_markup(d, lp, ivn)]):
                parts_bad.append({"case": c, "dep": d.name})
                ctx.violation("a dependency's markup is not its meta, link, script and head markup in that order",
                              c, {"impl_output": repr(r)[:800], "expected": render_items(dep_markup(d, lp, ivn))})
        # ---- C: oracles ----------------------------------------------------------------
        exp, resolved, parts = expected_document(c, objs)
        if isinstance(exp, tuple):
            if iv != exp:
                ctx.violation("rejected attribute arguments: wrong outcome", c,
                              {"impl_output": repr(iv)[:800], "expected": repr(exp)})
        elif iv[0] != "ok":
            ctx.violation("render() raises on a well-formed document", c,
                          {"impl_output": repr(iv), "expected": "a rendered document"})
        else:
            ids, html_s = iv[1]
            nested = any(payload_has_dep(c["deps"][i]) for i in resolved)
            det = {"impl_output": {"dependencies": ids, "html": html_s},
                   "hoisted_payload_holds_dependency": nested}
            want_html = "<!DOCTYPE html>\n" + exp.get_html_string()
            if not html_s.startswith("<!DOCTYPE html>\n"):
                ctx.violation("the output does not start with the doctype line", c, {**det, "expected": want_html})
            elif html_s != want_html:
                ctx.violation("the output is not the doctype line followed by the ordinary rendering of the "
                              "document the statement describes (html / one head starting with meta charset, user "
                              "head content, listing, dependency markup once in resolved order / body)", c,
                              {**det, "expected": want_html})
            if ids != resolved:
                ctx.violation(WHAT_RETURNED, c, {**det, "expected": resolved})
            lst = listing_of(html_s) if c["safe"] and not has_listing_lookalike(c) else None
            names = [objs[i].name + "[" + str(objs[i].version) + "]" for i in ids if 0 <= i < len(objs)]
            if lst is not None and lst != ([";".join(names)] if names else []):
                ctx.violation(WHAT_LISTING, c, {**det, "expected": ";".join(names), "listing": lst})
            if c["safe"] and not tags_in_raw_text(c):
                for what, d2 in parsed_oracle(c, objs, html_s, resolved, parts):
                    ctx.violation(what, c, {**det, **d2})
        # ---- B: correspondence ---------------------------------------------------------
        if isinstance(m, tuple):
            disagreements.append({"case": c, "impl_output": iv, "model_output": ("!", m[1])})
            continue
        mv = trees.res_decode(m[1], lambda v: (v[0], unS(v[1])))
        ivc = iv if iv[0] != "ok" else ("ok", (iv[1][0], iv[1][1]))
        if mv != ivc:
            disagreements.append({"case": c, "impl_output": ivc, "model_output": mv})
        # the Coq specification functions agree with the Python transcription of the statement
        if m[2] != resolved:
            spec_bad.append({"case": c, "coq_doc_deps": m[2], "python_spec": resolved})
        if not isinstance(exp, tuple) and m[3] != max(1, parts["n_user_heads"]):
            spec_bad.append({"case": c, "coq_head_count": m[3], "expected": max(1, parts["n_user_heads"])})
    ctx.corr_cases += len(cases)
    ctx.obligation(f"correspondence HTMLDocument.render {name} ({len(cases)} cases)", not disagreements)
    ctx.obligation(f"as_html_tags = metas + links + scripts + head (the parts given to the model) on {name}",
                   not parts_bad)
    ctx.obligation(f"Coq doc_deps / head count = Python transcription of the statement on {name}", not spec_bad)
    for what, l in (("disagree_" + name, disagreements), ("specmismatch_" + name, spec_bad)):
        if l:
            l.sort(key=lambda d: len(json.dumps(d["case"], default=repr)))
            ctx.extra[what] = l[:3]
            if what.startswith("disagree"):
                ctx.extra.setdefault("disagreements", []).extend(l[:2])


# ------------------------------------------------------------------------------------
# EVERY ENTRY POINT, NON-DEFAULT ARGUMENTS, FEATURES TOGETHER, SHARED STATE
# One document input, every public way of getting its rendering; each result is judged against the
# document the statement describes (expected_document: the same oracle as the plain route).
# ------------------------------------------------------------------------------------
WHAT_ROUTE = "another way of building / rendering the same document gives a different document: "


def snapshot_deps(objs: list) -> list:
    """the caller's dependency objects, field by field (public attributes)"""
    out = []
    for d in objs:
        out.append(repr((d.name, str(d.version), d.source, d.script, d.stylesheet, d.meta, d.all_files,
                         None if d.head is None else safe_call(lambda: d.head.get_html_string()))))
    return out


def build_with_blocks(case: dict, objs: list) -> list:
    """The same content, every tag filled through its with-block: `with tag:` installs a
    sys.displayhook that appends each displayed value to the tag, and on exit displays the tag
    itself to the enclosing hook (so nested blocks nest the tags)."""
    import sys
    got: list = []
    old = sys.displayhook
    sys.displayhook = htmltools.wrap_displayhook_handler(got.append)

    def emit(n: list) -> None:
        if n[0] == "G":
            t = Tag(n[1], _add_ws=n[2])
            for key, m, v in n[3]:
                dict.__setitem__(t.attrs, key, HTML(v) if m == "H" else v)
            with t:
                for x in n[4]:
                    emit(x)
        else:
            sys.displayhook(build_node(n, objs))
    try:
        for n in case["args"]:
            emit(n)
    finally:
        sys.displayhook = old
    return got


def with_block_view(nodes: list) -> list:
    """the content a with-block build really holds: a self-rendering object displayed inside a block
    is stored as HTML(its markup) (wrap_displayhook_handler); inside a list it stays what it is"""
    out = []
    for n in nodes:
        if n[0] == "G":
            out.append(["G", n[1], n[2], n[3], with_block_view(n[4])])
        elif n[0] == "R":
            out.append(["H", n[1]])
        else:
            out.append(n)
    return out


def want_of(c: dict, objs: list) -> Any:
    exp, resolved, _parts = expected_document(c, objs)
    if isinstance(exp, tuple):
        return exp
    return ("ok", (resolved, "<!DOCTYPE html>\n" + exp.get_html_string()))


def ids_of(r: dict) -> list[int]:
    return [getattr(d, "_verif_id", -1) for d in r["dependencies"]]


def routes_of(case: dict, objs: list) -> list[tuple[str, Any]]:
    """(route name, thunk -> (ids, html))"""
    lp, iv = case["lib_prefix"], case["include_version"]
    kw = lambda: {k: kw_value(v) for k, v in case["kw"]}      # noqa: E731
    plain_kw = not any(k in ("_add_ws", "_name") for k, _ in case["kw"])
    # save_html copies the files of package dependencies: possible when they name files that exist
    # (htmltools/libtest) and the library directory stays inside the temporary directory
    no_files = all(d["kind"] == "hc" or d["source"] != "pkg" or copyable(d) for d in case["deps"]) and \
        (not lp or (not lp.startswith("/") and ".." not in lp and "\\" not in lp))
    flat = flat_items(case["args"])

    def rendered(doc):
        r = doc.render(lib_prefix=lp, include_version=iv)
        return (ids_of(r), r["html"])

    def plain(**how):
        r = mk().render(**how)
        return (ids_of(r), r["html"])

    def mk():
        return HTMLDocument(*top_args(case, objs), **kw())

    def json_mode():
        old = htmltools.html_dependency_render_mode
        htmltools.html_dependency_render_mode = "json"
        try:
            return rendered(mk())
        finally:
            htmltools.html_dependency_render_mode = old

    def saved(how: str):
        import shutil
        import tempfile
        tmp = tempfile.mkdtemp(prefix="verif-c11r-")
        try:
            path = os.path.join(tmp, "sub dir", "index.html")
            os.makedirs(os.path.dirname(path))
            args = top_args(case, objs)
            if how == "doc-keywords":
                ret = HTMLDocument(*args, **kw()).save_html(path, libdir=lp, include_version=iv)
            elif how == "doc-positional":
                ret = HTMLDocument(*args, **kw()).save_html(path, lp, iv)
            elif how == "doc-defaults":
                ret = HTMLDocument(*args, **kw()).save_html(path)
            elif how == "taglist":
                ret = TagList(*args).save_html(path, libdir=lp, include_version=iv)
            else:
                ret = TagList(*args)[0].save_html(path, libdir=lp, include_version=iv)
            with open(path, encoding="utf-8", newline="") as f:
                text = f.read()
            return (None if ret == path else ("returned", ret), text)
        finally:
            shutil.rmtree(tmp, ignore_errors=True)

    def concat(how: str):
        args = top_args(case, objs)
        k = len(args) // 2
        if how == "add":
            x = TagList(*args[:k]) + args[k:]
        elif how == "radd":
            x = args[:k] + TagList(*args[k:])
        else:
            x = TagList(*args[:k])
            x += args[k:]
        return rendered(HTMLDocument(x, **kw()))

    def via_consolidate():
        attrs, children = htmltools.consolidate_attrs(*top_args(case, objs), **kw())
        return rendered(HTMLDocument(*children, **attrs))

    def appended_one_by_one():
        doc = HTMLDocument(**kw())
        for a in top_args(case, objs):
            doc.append(a)
        return rendered(doc)

    def from_copy(deep: bool):
        doc = mk()
        cp = _copy.deepcopy(doc) if deep else _copy.copy(doc)
        r = rendered(cp)
        if rendered(doc) != r:
            return ("the document and its copy render differently", r)
        return r

    out = [("copy.copy(doc).render()", lambda: from_copy(False)),
           ("copy.deepcopy(doc).render()", lambda: from_copy(True)),
           ("doc.render() while htmltools.html_dependency_render_mode = 'json'", json_mode),
           ("content built through with-blocks (sys.displayhook)",
            lambda: rendered(HTMLDocument(*build_with_blocks(case, objs), **kw()))),
           ("HTMLDocument(TagList(first half) + second half)", lambda: concat("add")),
           ("HTMLDocument(first half + TagList(second half))", lambda: concat("radd")),
           ("HTMLDocument(x) after x += second half", lambda: concat("iadd")),
           ("HTMLDocument(**kw) then one append() per item", appended_one_by_one),
           ("htmltools._core.HTMLDocument", lambda: rendered(htmltools._core.HTMLDocument(*top_args(case, objs), **kw())))]
    if lp == "lib" and iv:
        out.append(("doc.render() with the default arguments", lambda: plain()))
    elif lp == "lib":
        out.append(("doc.render(include_version=False), lib_prefix left to its default", lambda: plain(include_version=False)))
    elif iv:
        out.append(("doc.render(lib_prefix=...), include_version left to its default", lambda: plain(lib_prefix=lp)))
    if plain_kw:
        out.append(("HTMLDocument(*children, **attrs) from consolidate_attrs(*args, **kw)", via_consolidate))
    if not any(n[0] == "C" for n in flat):
        out.append(("HTMLDocument(TagList(*args).tagify())", lambda: rendered(HTMLDocument(TagList(*top_args(case, objs)).tagify(), **kw()))))
    if no_files:
        out.append(("doc.save_html(file, libdir=, include_version=)", lambda: saved("doc-keywords")))
        out.append(("doc.save_html(file, libdir, include_version) positionally", lambda: saved("doc-positional")))
        if lp == "lib" and iv:
            out.append(("doc.save_html(file) with the default arguments", lambda: saved("doc-defaults")))
        if not case["kw"]:
            out.append(("TagList(*args).save_html(...)", lambda: saved("taglist")))
            if len(flat) == 1 and flat[0][0] == "G":
                out.append(("Tag.save_html(...)", lambda: saved("tag")))
    return out


DECOY_WANT: list = []


PKG_FILES = {"script": ["testdep/testdep.js", "dep2/td2.js"], "stylesheet": ["testdep/testdep.css", "dep2/td2.css"]}


def copyable(d: dict) -> bool:
    return all(x["src"] in PKG_FILES["script"] for x in d["script"]) and \
        all(x["href"] in PKG_FILES["stylesheet"] for x in d["stylesheet"])


def make_savable(rng, deps: list) -> None:
    """save_html copies files: package dependencies either name files that exist in htmltools/libtest
    (so that libdir really decides the URLs written into the document) or lose their local source"""
    for d in deps:
        if d["kind"] == "dep" and d["source"] == "pkg":
            if rng.random() < 0.3:
                d["script"] = [dict(x, src=rng.choice(PKG_FILES["script"])) for x in d["script"]]
                d["stylesheet"] = [dict(x, href=rng.choice(PKG_FILES["stylesheet"])) for x in d["stylesheet"]]
            else:
                d["source"] = rng.choice(["none", "href"])


def route_cases(rng, n: int) -> list[dict]:
    out = [_copy.deepcopy(c) for c in FIXED[1:]]
    for _ in range(n):
        c = rand_case(rng)
        if rng.random() < 0.7:
            make_savable(rng, c["deps"])
        r = rng.random()
        if r < 0.3:                  # the settings that are the defaults of render / save_html
            c["lib_prefix"], c["include_version"] = "lib", True
        elif r < 0.4:
            c["lib_prefix"] = "lib"
        out.append(c)
    # some big ones as well (not the longest strings: every route renders them again)
    out += [dict(c, label=l) for l, c in big_cases(rng) if len(json.dumps(c)) < 40000][:ROUTE_BIG]
    return out


ROUTE_BIG = 12


def check_routes(ctx: Ctx, cases: list[dict]) -> None:
    n_routes = 0
    for c in cases:
        if dep_in_dep_head(c):
            continue          # finding F7: the plain route already disagrees with the statement there
        objs = build_deps(c["deps"])
        ctx.count(["routes", c], nontrivial(c), "every entry point: " + construction_case(c))
        want: Any = want_of(c, objs)
        wb = with_block_view(c["args"])
        want_wb = want if wb == c["args"] else want_of(dict(c, args=wb), objs)
        deps_before = snapshot_deps(objs)
        # STATE SHARED BETWEEN OBJECTS: a second, unrelated document made before and one made after must not notice
        decoy1 = HTMLDocument(Tag("p", "decoy"), HTMLDependency("zz", "9", head="<i>z</i>"), id="decoy")
        safe_call(decoy1.render)
        for name, thunk in routes_of(c, objs):
            got = safe_call(thunk)
            n_routes += 1
            w = want
            if name.startswith("content built through with-blocks"):
                w = want_wb
            if name.startswith(("doc.save_html", "TagList(*args).save_html", "Tag.save_html")) and want[0] == "ok":
                w = ("ok", (None, want[1][1]))
            if got != w:
                ctx.violation(WHAT_ROUTE + name, c, {"impl_output": repr(got)[:3000], "expected": repr(w)[:3000]})
        decoy2 = HTMLDocument()
        d1 = safe_call(lambda: (lambda r: (len(r["dependencies"]), r["html"]))(decoy1.render()))
        d2 = safe_call(lambda: (lambda r: (len(r["dependencies"]), r["html"]))(decoy2.render()))
        if not DECOY_WANT:
            e1 = Tag("html", Tag("head", Tag("meta", charset="utf-8"),
                                 Tag("script", "zz[9]", type=LISTING_TYPE), HTML("<i>z</i>")),
                     Tag("body", Tag("p", "decoy")), id="decoy")
            e2 = Tag("html", Tag("head", Tag("meta", charset="utf-8")), Tag("body"))
            DECOY_WANT.extend([("ok", (1, "<!DOCTYPE html>\n" + e1.get_html_string())),
                               ("ok", (0, "<!DOCTYPE html>\n" + e2.get_html_string()))])
        if [d1, d2] != DECOY_WANT:
            ctx.violation("an unrelated document built in the same process is influenced by the documents built "
                          "in between (state shared between objects)", c,
                          {"impl_output": repr([d1, d2])[:1500], "expected": repr(DECOY_WANT)[:1500]})
        if snapshot_deps(objs) != deps_before:
            ctx.violation("building / rendering / saving documents changed the caller's dependency objects", c,
                          {"impl_output": repr(snapshot_deps(objs))[:1500], "expected": repr(deps_before)[:1500]})
    ctx.extra["routes_evaluated"] = ctx.extra.get("routes_evaluated", 0) + n_routes


def check_head_content(ctx: Ctx, rng, n: int, extra: list | None = None) -> None:
    cases = list(extra or [])
    for _ in range(n):
        safe = rng.random() < 0.5
        cases.append([rand_node(rng, 2, 0, safe, custom=False, deps_ok=False) for _ in range(rng.choice([0, 1, 1, 2, 3]))])
    # near-duplicates: equal up to the last character / the last of many nodes, long and short, every encoding width
    for L, unit in [(rng.choice(LONG_1), rng.choice(list(UNITS))), (rng.choice(LONG_2), rng.choice(list(UNITS))),
                    (rng.choice(LONG_2), rng.choice(list(UNITS))), (rng.choice(LONG_3), rng.choice(list(UNITS)[1:])),
                    (rng.choice([1, 2, 7, 63, 64, 65]), rng.choice(list(UNITS)))]:
        P = long_text(unit, L - 1)
        k = rng.choice("THG")
        for tail in ("a", "b"):
            cases.append([["G", "style", True, [], [["T", P + tail]]]] if k == "G" else [[k, P + tail]])
        cases.append([["H" if k == "T" else "T", P + "a"]])      # the same content, built the other way
    for n in three_sizes(rng):
        many = [["G", "meta", True, [["name", "S", f"m{i}"]], []] for i in range(n)]
        cases += [many, many[:-1], many[:-1] + [["G", "meta", True, [["name", "S", "other"]], []]]]
    model = run_model([[2, nodes_sx(a, [])] for a in cases], driver="c11")
    bad = []
    for a, m in zip(cases, model):
        ctx.count(["head_content", a], bool(a), "head_content name")
        d = head_content(*[build_node(x, []) for x in a])
        if isinstance(m, tuple) or m[0] != 0:
            bad.append({"case": a, "model_output": repr(m)[:200]})
            continue
        want = "headcontent_" + hashlib.sha1(unS(m[1]).encode("utf-8")).hexdigest()
        got = (d.name, str(d.version), [enc_live(x) for x in d.as_html_tags()])
        if got != (want, "0.0", nodes_sx(a, [])):
            bad.append({"case": a, "impl_output": repr(got)[:300], "model_output": want})
        # oracle: an ordinary dependency, named by its content, whose markup is the arguments
        if not (d.name.startswith("headcontent_") and len(d.name) == 52 and str(d.version) == "0.0"
                and d.script == [] and d.stylesheet == [] and d.meta == [] and d.source is None
                and d.as_html_tags().get_html_string() == TagList(*[build_node(x, []) for x in a]).get_html_string()):
            ctx.violation("head_content(...) is not a plain dependency carrying exactly its arguments", a,
                          {"impl_output": repr(got)[:300], "expected": "headcontent_<sha1>, 0.0, head=args"})
    ctx.corr_cases += len(cases)
    ctx.obligation(f"correspondence head_content name/markup ({len(cases)} cases)", not bad)
    if bad:
        ctx.extra["disagree_head_content"] = bad[:3]
    # oracle: CONTENT-NAMED.  Items with the same content are one dependency (same name), items with
    # different content are different dependencies (different names) -- whatever the naming scheme.
    by_content: dict = {}
    by_name: dict = {}
    for a in cases:
        built = safe_call(lambda: (TagList(*[build_node(x, []) for x in a]).get_html_string(),
                                   head_content(*[build_node(x, []) for x in a]).name))
        if built[0] != "ok":
            continue
        content, name = built[1]
        for tbl, k, v, what in ((by_content, content, name, "two head_content() items with the same content have different names"),
                                (by_name, name, content, "two head_content() items with different content have the same name "
                                                         "(only one of them would reach the head)")):
            if k in tbl and tbl[k][0] != v:
                ctx.violation(what, {"first": tbl[k][1], "second": a},
                              {"impl_output": repr((tbl[k][0], v))[:400], "expected": "names that identify the content"})
            tbl.setdefault(k, (v, a))


# ------------------------------------------------------------------------------------
# generators
# ------------------------------------------------------------------------------------
SAFE_CHARS = "abcxyz019"
USER_NAMES = ["div", "p", "span", "b", "section", "title", "ul", "em", "h1"]
ODD_NAMES = ["script", "style", "br", "meta", "link", "head", "body", "html", "HEAD", "Html", "Body", "my-el"]


def txt(rng, safe: bool) -> str:
    if safe:
        n = rng.choice([1, 1, 2, 3, 5])
        return "".join(rng.choice(SAFE_CHARS) for _ in range(n))
    return trees.rand_text(rng, 6)


def rand_attrs(rng, safe: bool) -> list:
    n = rng.choice([0, 0, 0, 1, 1, 2])
    keys = rng.sample(["id", "class", "data-x", "title", "lang"], n)
    return [[k, "S" if safe or rng.random() < 0.75 else "H", txt(rng, safe)] for k in keys]


LISTING_TYPE = "application/html-dependencies"
# objects that are BOTH tagifiable and self-rendering are generated for documents only (switched on by
# _run_main; the dependency-markup bridge deptags.py shares rand_node and has no encoding for them)
BOTH_KINDS = [False]
CHARSETS = ["utf-8", "UTF-8", "iso-8859-1", "latin1", "utf-16"]


def rand_lookalike(rng, safe: bool) -> list:
    """User content that LOOKS LIKE what the document itself inserts (a meta charset, a listing
    script, link / script tags such as a dependency contributes, a title, nested head / body / html
    tags, and -- as raw markup -- a doctype or a ready-made head): the statement makes no
    exception for it, it is ordinary content that must survive where the user put it."""
    r = rng.randrange(12 if safe else 17)
    if r <= 2:
        extra = [["name", "S", "m"]] if rng.random() < 0.15 else []
        at = [["charset", "S", rng.choice(CHARSETS)]] + extra
        if rng.random() < 0.3:
            at.reverse()
        return ["G", "meta", True, at, []]
    if r == 3:
        return ["G", "meta", True, [["name", "S", "viewport"], ["content", "S", "w1"]], []]
    if r == 4:
        return ["G", "meta", True, [["http-equiv", "S", "Content-Type"], ["content", "S", "text/html; charset=utf-8"]], []]
    if r == 5:
        return ["G", "script", True, [["type", "S", LISTING_TYPE]], [["T", rng.choice(["a[1.0]", "jq[2]", "b[1.9];a[1]", ""])]]]
    if r == 6:
        return ["G", "script", True, [["src", "S", rng.choice(["a.js", "lib/a-1.0/a.js"])]], []]
    if r == 7:
        return ["G", "link", True, [["href", "S", "s.css"], ["rel", "S", "stylesheet"]], []]
    if r == 8:
        return ["G", "title", True, [], [["T", "t"]]]
    if r == 9:
        return ["G", "head", True, [], [["G", "meta", True, [["charset", "S", "utf-8"]], []]] if rng.random() < 0.5 else []]
    if r == 10:
        return ["G", rng.choice(["body", "html"]), True, [], [["T", "n"]]]
    if r == 11:
        return ["G", "base", True, [["href", "S", "u"]], []]
    return [rng.choice("HHT"), rng.choice(['<meta charset="utf-8"/>', "<!DOCTYPE html>", "<head></head>", "</head><body>",
                                           '<script type="application/html-dependencies">x[1]</script>', "<html>", "</html>"])]


def tags_in_raw_text(x: Any) -> bool:
    """a tag (or wrapper holding one) sits inside a script / style / title / textarea element: its markup is
    then TEXT of that element for a parser, and the 'markup-free' reading of the case does not apply"""
    if isinstance(x, dict):
        return any(tags_in_raw_text(v) for v in x.values())
    if isinstance(x, list):
        if len(x) == 5 and x[0] == "G" and x[1] in ("script", "style", "title", "textarea") and isinstance(x[4], list):
            if any(k[0] not in "THRN" for k in x[4]):
                return True
        return any(tags_in_raw_text(v) for v in x)
    return False


def has_listing_lookalike(x: Any) -> bool:
    """some script of the listing's type, or raw markup, is part of the user's input"""
    if isinstance(x, dict):
        return any(has_listing_lookalike(v) for v in x.values())
    if isinstance(x, list):
        if len(x) == 5 and x[0] == "G" and x[1] == "script" and any(a[0] == "type" and a[2] == LISTING_TYPE for a in x[3]):
            return True
        return any(has_listing_lookalike(v) for v in x)
    return isinstance(x, str) and LISTING_TYPE in x


def rand_node(rng, depth: int, nd: int, safe: bool, custom: bool = True, deps_ok: bool = True,
              lists: bool = True) -> list:
    if rng.random() < 0.035:
        return rand_lookalike(rng, safe)
    r = rng.random()
    if depth > 0 and r < 0.32:
        if safe or rng.random() < 0.75:
            name = rng.choice(USER_NAMES)
        else:
            name = rng.choice(ODD_NAMES)
        ws = name not in ("span", "b", "em")
        if rng.random() < 0.12:
            ws = not ws
        return ["G", name, ws, rand_attrs(rng, safe), rand_kids(rng, depth - 1, nd, safe, custom, deps_ok, lists)]
    if lists and depth > 0 and r < 0.40:
        return ["L", rng.choice(["list", "tuple", "taglist"]), rand_kids(rng, depth - 1, nd, safe, custom, deps_ok, lists)]
    if custom and depth > 0 and r < 0.46:
        n = rng.choice([0, 1, 1, 2, 3])
        as_list = n != 1 or rng.random() < 0.6
        exp = [rand_node(rng, depth - 1, nd, safe, False, deps_ok, False) for _ in range(n)]
        if BOTH_KINDS[0] and rng.random() < 0.25:     # also self-rendering: the document tagifies, so the expansion counts
            return ["C", exp, as_list, txt(rng, safe)]
        return ["C", exp, as_list]
    if deps_ok and nd > 0 and r < 0.80:
        return ["D", rng.randrange(nd)]
    k = rng.choice("TTTHHRN" if not safe else "TTTHN")
    if k == "N":
        return ["N"] if lists else ["T", txt(rng, safe)]
    return [k, txt(rng, safe)]


def rand_kids(rng, depth, nd, safe, custom=True, deps_ok=True, lists=True) -> list:
    return [rand_node(rng, depth, nd, safe, custom, deps_ok, lists) for _ in range(rng.choice([0, 1, 1, 2, 2, 3, 4]))]


def rand_dict(rng, req: list[str], safe: bool, extra: list[str]) -> dict:
    d = {}
    keys = list(req) + [k for k in extra if rng.random() < 0.25]
    rng.shuffle(keys)
    for k in keys:
        v = txt(rng, safe)
        if k in ("src", "href"):
            v = rng.choice(["a.js", "x y.css", "d/e.js", "q?1", "é.js", "a%b"]) if not safe else txt(rng, True) + ".js"
        d[k] = v
    return d


def rand_dep(rng, i: int, safe: bool, nested_from: int | None = None) -> dict:
    if rng.random() < 0.22:
        args = [rand_node(rng, 2, 0, safe, custom=False, deps_ok=False) for _ in range(rng.choice([0, 1, 1, 2]))]
        if nested_from is not None and i > 0:
            args.append(["G", "div", True, [], [["D", rng.randrange(i)]]] if rng.random() < 0.5 else ["D", rng.randrange(i)])
        return {"kind": "hc", "args": args}
    r = rng.random()
    if r < 0.4:
        head = None
    elif r < 0.55:
        head = ["str", "<i>" + txt(rng, True) + "</i>" if safe else txt(rng, False)]
    else:
        nodes = [rand_node(rng, 2, 0, safe, custom=False, deps_ok=False) for _ in range(rng.choice([1, 1, 2, 3]))]
        head = ["nodes", nodes]
    if nested_from is not None and i > 0:
        extra = ["G", rng.choice(["div", "span"]), True, [], [["D", rng.randrange(i)]]] if rng.random() < 0.6 \
            else ["D", rng.randrange(i)]
        head = ["nodes", (head[1] if head and head[0] == "nodes" else []) + [extra]]
    return {"kind": "dep", "name": rng.choice(NAMES), "version": rng.choice(VERSIONS),
            "source": rng.choice(["none", "href", "pkg", "pkg"]),
            "meta": [rand_dict(rng, ["name", "content"], safe, ["x"]) for _ in range(rng.choice([0, 0, 1, 2]))],
            "stylesheet": [rand_dict(rng, ["href"], safe, ["media"]) for _ in range(rng.choice([0, 0, 1, 2]))],
            "script": [rand_dict(rng, ["src"], safe, ["defer", "data-k"]) for _ in range(rng.choice([0, 1, 1, 2]))],
            "head": head}


KW_NAMES = ["lang", "class_", "class", "id", "data_x", "style", "xml__lang", "for_", "_add_ws", "_name"]


def rand_kw(rng, safe: bool) -> list:
    n = rng.choice([0, 0, 1, 1, 2, 3])
    names = rng.sample(KW_NAMES[:8] if rng.random() < 0.9 else KW_NAMES, n)
    out = []
    for k in names:
        r = rng.random()
        if r < 0.5:
            v = ["str", txt(rng, safe)]
        elif r < 0.62:
            v = ["html", txt(rng, safe)]
        elif r < 0.7:
            v = ["none"]
        elif r < 0.8:
            v = ["bool", rng.random() < 0.6]
        elif r < 0.88:
            v = ["int", rng.choice([0, 1, 7, -3])]
        elif r < 0.94:
            v = ["float", rng.choice([0.5, 1.0, 2.25])]
        else:
            v = ["bad", 1]
        out.append([k, v])
    return out


def rand_head(rng, nd, safe, custom: bool = True) -> list:
    kids = rand_kids(rng, 1, nd, safe, custom=custom and rng.random() < 0.3, lists=custom)
    if rng.random() < 0.35:
        for _ in range(rng.choice([1, 1, 2])):
            kids.insert(rng.randrange(len(kids) + 1), rand_lookalike(rng, safe))
    return ["G", "head", rng.random() < 0.9, rand_attrs(rng, safe) if rng.random() < 0.3 else [], kids]


def rand_html(rng, nd, safe) -> list:
    kids = []
    n = rng.choice([0, 1, 2, 2, 3, 3, 4, 5])
    for _ in range(n):
        r = rng.random()
        if r < 0.3:
            kids.append(rand_head(rng, nd, safe))
        elif r < 0.5:
            kids.append(["G", "body", True, rand_attrs(rng, safe), rand_kids(rng, 2, nd, safe)])
        else:
            kids.append(rand_node(rng, 2, nd, safe))
    if rng.random() < 0.12:
        # the head only inside an object's expansion: found after tagify
        kids.insert(rng.randrange(len(kids) + 1), ["C", [rand_head(rng, nd, safe, custom=False)], rng.random() < 0.5])
    return ["G", "html", rng.random() < 0.9, rand_attrs(rng, safe), kids]


def expand_customs(nodes: list) -> list:
    """the same nodes with every tagifiable object replaced by its expansion and wrappers
    flattened (what may sit inside another object's expansion: the tagify() contract)"""
    out = []
    for n in nodes:
        if n[0] == "C":
            out += expand_customs(n[1])
        elif n[0] == "L":
            out += expand_customs(n[2])
        elif n[0] == "N":
            pass
        elif n[0] == "G":
            out.append(["G", n[1], n[2], n[3], expand_customs(n[4])])
        else:
            out.append(n)
    return out


def rand_case(rng, mode: str | None = None, f7: bool = False) -> dict:
    safe = rng.random() < 0.5
    nd = rng.choice([0, 1, 2, 2, 3, 3, 4, 5])
    if f7:
        nd = max(nd, 2)
    deps = [rand_dep(rng, i, safe, nested_from=0 if (f7 and i > 0 and rng.random() < 0.7) else None) for i in range(nd)]
    mode = mode or rng.choice(["fragment", "fragment", "body", "html", "html", "html", "odd"])
    if mode == "fragment":
        args = rand_kids(rng, 3, nd, safe)
    elif mode == "body":
        args = [["G", "body", rng.random() < 0.9, rand_attrs(rng, safe), rand_kids(rng, 3, nd, safe)]]
    elif mode == "html":
        args = [rand_html(rng, nd, safe)]
    else:
        one = rng.choice([rand_html(rng, nd, safe), ["G", "body", True, [], rand_kids(rng, 2, nd, safe)]])
        r = rng.random()
        if r < 0.25:      # wrapped in lists / next to None: still the sole content
            args = [["N"], ["L", rng.choice(["list", "tuple", "taglist"]), [["L", "list", [one]], ["N"]]]]
        elif r < 0.45:    # two of them: a fragment
            args = [one, rng.choice([rand_html(rng, nd, safe), ["G", "body", True, [], []]])]
        elif r < 0.6:     # next to a dependency / text: a fragment
            args = [one, rand_node(rng, 0, nd, safe)]
        elif r < 0.75:    # an object expanding to it: not a Tag, a fragment
            args = [["C", expand_customs([one]), rng.random() < 0.5]]
        elif r < 0.9 and not safe:   # other letter case: an ordinary tag
            one = list(one)
            one[1] = rng.choice(["HTML", "Html", "BODY", "Body"])
            args = [one]
        else:
            args = []
    if rng.random() < 0.2 and nd > 0 and mode != "html":
        args.append(["D", rng.randrange(nd)])
    cuts = []
    if len(args) >= 2 and rng.random() < 0.45:
        k = rng.randrange(0, len(args))
        cuts = [k]
        if k + 1 < len(args) and rng.random() < 0.4:
            cuts.append(rng.randrange(k + 1, len(args)))
    case = {"deps": deps, "args": args, "split": cuts, "kw": rand_kw(rng, safe),
            "lib_prefix": rng.choice([None, "lib", "a/b"]) if rng.random() < 0.85 else rng.choice(ODD_PREFIXES),
            "include_version": rng.random() < 0.5, "safe": safe}
    if rng.random() < 0.12 and share_some(rng, case["args"]):
        case["share"] = True
    return case


ODD_PREFIXES = ["", "lib/", "a/b/c", "l b", "l\u00efb", "x.+(y)[z]$", "../up", "/abs", "a//b", "%41", "\\1"]


def child_lists(nodes: list, acc: list) -> list:
    """every list of children of the description that the content is built from directly (not the
    expansions of objects: those are fresh objects on every tagify())"""
    acc.append(nodes)
    for n in nodes:
        if n[0] == "G" and n[1] in ("script", "style", "title", "textarea"):
            continue      # raw-text elements: a tag put inside would make the 'markup-free' (safe) reading wrong
        if n[0] == "G":
            child_lists(n[4], acc)
        elif n[0] == "L":
            child_lists(n[2], acc)
    return acc


def share_some(rng, args: list) -> bool:
    """ONE OBJECT IN TWO PARENTS: an equal copy of some tag of the content is put at a second place
    (with case['share'] equal descriptions are built as the same Tag object)"""
    lists = child_lists(args, [])
    tags = [n for l in lists for n in l if n[0] == "G" and n[1] not in ("html",)]
    if not tags:
        return False
    t = _copy.deepcopy(rng.choice(tags))
    inner = [l for l in lists if l is not args] or lists
    dest = rng.choice(inner if rng.random() < 0.8 else lists)
    if dest is args and construction_case({"args": args}) != "fragment":
        return False
    dest.insert(rng.randrange(len(dest) + 1), t)
    return True


# ------------------------------------------------------------------------------------
# SIZE AND DEPTH: a handful of big documents per run.  Every countable thing the statement talks
# about reaches sizes just below / at / above 8, 16, 32, 64, 128, 256 and 300 (nesting: up to 70),
# strings reach >= 300, >= 5000 and >= 70000 characters (with the UTF-8 length crossing the usual
# block sizes), and what matters is placed BEYOND the threshold: the last item, the tail of the
# string, the seam.  Where two things must be told apart they are equal up to the tail.
# ------------------------------------------------------------------------------------
SIZES_SMALL = [7, 8, 9, 15, 16, 17, 31, 32, 33]
SIZES_MID = [63, 64, 65, 127, 128, 129]
SIZES_LARGE = [255, 256, 257, 300]
DEPTHS = [7, 8, 9, 15, 16, 17, 31, 32, 33, 63, 64, 65, 70]
LONG_1 = [299, 300, 301, 511, 513]
LONG_2 = [1365, 1366, 1367, 2047, 2049, 4095, 4096, 4097, 5000, 8191, 8192, 8193]
LONG_3 = [65535, 65536, 65537, 70000, 70001]
UNITS = {"ascii": "abcxyz019", "latin": "éaü", "cjk": "日本語", "astral": "\U0001F600\U00010348",
         "mixed": "abé c日d\U0001F600e"}


def three_sizes(rng) -> list[int]:
    return [rng.choice(SIZES_SMALL), rng.choice(SIZES_MID), rng.choice(SIZES_LARGE)]


def long_text(unit: str, n: int) -> str:
    u = UNITS[unit]
    return (u * (n // len(u) + 1))[:n]


def mk_dep(name: str, version: str = "1.0", source: str = "href", meta=None, stylesheet=None, script=None, head=None) -> dict:
    return {"kind": "dep", "name": name, "version": version, "source": source, "meta": meta or [],
            "stylesheet": stylesheet or [], "script": script or [], "head": head}


def mk_case(deps: list, args: list, **kw) -> dict:
    c = {"deps": deps, "args": args, "split": [], "kw": [], "lib_prefix": "lib", "include_version": True, "safe": True}
    c.update(kw)
    return c


def wrap_deep(rng, node: list, d: int, how: str) -> list:
    """node at the bottom of d wrappers"""
    for i in range(d):
        k = how if how != "mix" else rng.choice(["tag", "tag", "list", "tuple", "taglist", "obj"])
        side = [["T", "s"]] if rng.random() < 0.2 else []
        if k == "tag":
            node = ["G", rng.choice(["div", "section", "span", "ul"]), rng.random() < 0.8, [], side + [node]]
        elif k == "obj":
            exp = expand_customs([node])
            node = ["C", exp, len(exp) != 1 or rng.random() < 0.5]
        else:
            node = ["L", k, side + [node]]
    return node


def big_cases(rng) -> list[tuple[str, dict]]:
    out: list[tuple[str, dict]] = []
    settings = [("lib", True), (None, False), ("a/b", True), ("lib", False)]

    def st():
        lp, iv = rng.choice(settings)
        return {"lib_prefix": lp, "include_version": iv}

    def mode_wrap(args: list, deps_n: int) -> list:
        """the same children as a fragment, in a lone body, or in the body of a lone html with its own head"""
        r = rng.random()
        if r < 0.4:
            return args
        if r < 0.6:
            return [["G", "body", True, [["id", "S", "b"]], args]]
        return [["G", "html", True, [["lang", "S", "fr"]],
                 [["G", "head", True, [], [["G", "title", True, [], [["T", "t"]]]]], ["G", "body", True, [], args]]]]

    # -- many distinct dependencies; the last ones differ in kind; a later higher version of the FIRST name
    for n in three_sizes(rng):
        deps = [mk_dep(f"d{i}", rng.choice(VERSIONS), rng.choice(["href", "none", "pkg"]), script=[{"src": f"s{i}.js"}])
                for i in range(n)]
        deps[-1] = mk_dep(f"d{n - 1}", "2", "href", meta=[{"name": "last", "content": "m"}], stylesheet=[{"href": "l.css"}],
                          head=["str", "<i>last</i>"])
        deps.append(mk_dep("d0", "99.1", "href", script=[{"src": "newer.js"}]))
        kids = [["D", i] if rng.random() < 0.7 else ["G", "div", True, [], [["T", "x"], ["D", i]]] for i in range(n)]
        kids.append(["G", "p", True, [], [["D", n]]])
        out.append((f"{n} distinct dependencies", mk_case(deps, mode_wrap(kids, n), **st())))
    # -- many versions of ONE name: the maximal one late, an equal one after it
    for n in three_sizes(rng):
        vs = [f"1.{rng.randrange(0, 50)}.{rng.randrange(0, 9)}" for _ in range(n)]
        top = rng.choice([n - 1, n - 2, n // 2 + 1])
        vs[top] = "1.50"
        if top + 1 < n:
            vs[n - 1] = "1.50.0"
        deps = [mk_dep("jq", v, "href", script=[{"src": f"v{i}.js"}]) for i, v in enumerate(vs)]
        kids = [["D", i] for i in range(n)]
        out.append((f"{n} versions of one name", mk_case(deps, mode_wrap(kids, n), **st())))
    # -- one dependency with many meta / stylesheet / script items, and many head payload nodes
    for n in three_sizes(rng):
        d = mk_dep("a", "1.0", rng.choice(["href", "pkg"]), meta=[{"name": f"m{i}", "content": f"c{i}"} for i in range(n)],
                   stylesheet=[{"href": f"s{i}.css"} for i in range(n)], script=[{"src": f"j{i}.js"} for i in range(n)],
                   head=["nodes", [["G", "meta", True, [["name", "S", f"h{i}"]], []] for i in range(n)]])
        out.append((f"{n} items per dependency part", mk_case([d, mk_dep("b", "1", "none", head=["str", "<i>b</i>"])],
                                                              mode_wrap([["D", 1], ["T", "x"], ["D", 0]], 2), **st())))
    # -- many head_content() items that differ only in their last node; one repeated (same content, other object)
    for n in three_sizes(rng):
        common_ = [["G", "meta", True, [["name", "S", "k"], ["content", "S", "v"]], []]] * rng.choice([1, 3])
        deps = [{"kind": "hc", "args": common_ + [["G", "meta", True, [["name", "S", f"i{i}"]], []]]} for i in range(n)]
        deps.append(_copy.deepcopy(deps[rng.randrange(n)]))
        kids = [["D", i] for i in range(n + 1)]
        rng.shuffle(kids)
        out.append((f"{n} head_content items", mk_case(deps, mode_wrap(kids, n), **st())))
    # -- a user html with many children: the head last / at the seam, a head with many children whose LAST
    #    child is a meta charset, a body with many children and the dependency last
    for n in three_sizes(rng):
        deps = [mk_dep("a", "1.0", "href", script=[{"src": "a.js"}]), {"kind": "hc", "args": [["G", "title", True, [], [["T", "hc"]]]]}]
        hk = [["G", "meta", True, [["name", "S", f"n{i}"]], []] for i in range(n - 1)] + \
             [rng.choice([["G", "meta", True, [["charset", "S", rng.choice(CHARSETS)]], []], ["D", 1],
                          ["G", "script", True, [["type", "S", LISTING_TYPE]], [["T", "a[1.0]"]]]])]
        bk = [["G", "p", True, [], [["T", f"p{i}"]]] for i in range(n - 1)] + [["D", 0]]
        pre = [["G", "div", True, [], [["T", f"c{i}"]]] if i != n // 2 else ["D", 1] for i in range(n - 1)]
        r = rng.random()
        if r < 0.4:       # the head is the LAST of n children of html
            kids = pre + [["G", "head", True, [], hk[-3:]]]
        elif r < 0.7:     # big head, big body
            kids = [["G", "head", True, [], hk], ["G", "body", True, [], bk]]
        else:             # body first, then n - 1 others, then the head, then a second head
            kids = [["G", "body", True, [], bk]] + pre + [["G", "head", True, [], hk], ["G", "head", True, [], []]]
        out.append((f"user html with {n} children / head children", mk_case(deps, [["G", "html", True, [], kids]], **st())))
    # -- depth: the dependency (and a head_content item) at the bottom of d wrappers
    for d in [rng.choice(DEPTHS[:6]), rng.choice(DEPTHS[6:10]), rng.choice(DEPTHS[10:])]:
        deps = [mk_dep("a", "1.0", "href", script=[{"src": "a.js"}]), {"kind": "hc", "args": [["G", "title", True, [], [["T", "deep"]]]]},
                mk_dep("a", "1.1", "none", head=["str", "<i>n</i>"])]
        how = rng.choice(["tag", "mix", "mix", "list", "taglist", "tuple"])
        bottom = ["G", "p", True, [], [["D", 0], ["T", "x"], ["D", 1], ["D", 2]]]
        r = rng.random()
        if r < 0.5:
            args = [["T", "before"], wrap_deep(rng, bottom, d, how)]
        elif r < 0.75:    # the sole html tag inside d list wrappers is still the sole content
            args = [wrap_deep(rng, ["G", "html", True, [], [["G", "body", True, [], [wrap_deep(rng, bottom, d, "tag")]]]], d,
                              rng.choice(["list", "taglist", "tuple"]))]
        else:             # inside the user's own head
            args = [["G", "html", True, [], [["G", "head", True, [], [wrap_deep(rng, bottom, d, "tag" if how == "tag" else "mix")]]]]]
        out.append((f"nesting depth {d} ({how})", mk_case(deps, args, **st())))
    # -- many html attributes (keyword arguments), on a new html and merged into the user's own
    for n in three_sizes(rng):
        kw = [[f"data_k{i}", ["str", f"v{i}"]] for i in range(n - 1)] + [["class_", ["str", "last"]]]
        if rng.random() < 0.5:
            args = [["G", "html", True, [[f"data-k{i}", "S", "own"] for i in range(0, n, 2)] + [["class", "S", "own"]],
                     [["G", "body", True, [], [["T", "x"]]]]]]
        else:
            args = [["T", "x"]]
        out.append((f"{n} html attributes", mk_case([], args, kw=kw, **st())))
    # -- many append calls (one item each); many placements of one object / of equal objects
    for n in three_sizes(rng):
        deps = [mk_dep("a", "1.0", "href", script=[{"src": "a.js"}]), mk_dep("a", "1.0", "href", script=[{"src": "a.js"}]),
                mk_dep("b", "2", "none", head=["str", "<i>b</i>"])]
        args = [rng.choice([["D", 0], ["D", 1], ["G", "p", True, [], [["T", f"t{i}"]]], ["G", "p", True, [], [["D", 0]]]])
                for i in range(n - 1)] + [["D", 2]]
        out.append((f"{n} append calls / placements", mk_case(deps, args, split=list(range(1, n)) if rng.random() < 0.7 else [], **st())))
    # -- many attributes / class tokens on user tags that the document copies
    for n in three_sizes(rng):
        at = [[f"data-a{i}", "S", f"v{i}"] for i in range(n)] + [["class", "S", " ".join(f"c{i}" for i in range(n))]]
        args = [["G", "html", True, at, [["G", "head", True, at, []], ["G", "body", True, at, [["D", 0]]]]]]
        out.append((f"{n} attributes on html / head / body", mk_case([mk_dep("a", "1", "none", head=["str", "<i>a</i>"])], args, **st())))
    # -- long version numbers / big components
    for n in [rng.choice(SIZES_SMALL), rng.choice(SIZES_MID)]:
        v1 = ".".join(["1"] * n)
        deps = [mk_dep("a", v1, "href", script=[{"src": "1.js"}]), mk_dep("a", v1 + ".0", "href", script=[{"src": "2.js"}]),
                mk_dep("a", v1[:-1] + "2", "href", script=[{"src": "3.js"}]), mk_dep("b", str(2 ** 53 + 1) + ".4294967296", "none", head=["str", "<i>b</i>"]),
                mk_dep("b", str(2 ** 53) + ".4294967297", "none", head=["str", "<i>c</i>"])]
        out.append((f"version with {n} components", mk_case(deps, [["D", 0], ["D", 3], ["D", 1], ["D", 4], ["D", 2]], **st())))
    # -- long strings: things that must be told apart are equal up to the tail
    picks = [(rng.choice(LONG_1), rng.choice(list(UNITS)))] + [(rng.choice(LONG_2), rng.choice(list(UNITS))) for _ in range(3)] + \
            [(rng.choice(LONG_3), u) for u in rng.sample(list(UNITS), 2)]
    for L, unit in picks:
        P = long_text(unit, L - 1)
        form = rng.choice(["style", "script", "html", "text", "title-attr"])

        def item(tail: str) -> list:
            s_ = P + tail
            if form == "style":
                return [["G", "style", True, [], [["T", s_]]]]
            if form == "script":
                return [["G", "script", True, [], [["H", s_]]]]
            if form == "html":
                return [["H", s_]]
            if form == "text":
                return [["T", s_]]
            return [["G", "meta", True, [["name", "S", "d"], ["content", "S", s_]], []]]
        deps = [{"kind": "hc", "args": item("a")}, {"kind": "hc", "args": item("b")}, {"kind": "hc", "args": item("a")},
                mk_dep("n" + P[:299] + "a", "1", "none", head=["str", "<i>1</i>"]), mk_dep("n" + P[:299] + "b", "1", "none", head=["str", "<i>2</i>"]),
                mk_dep("a", "1.0", "href", script=[{"src": P[:600] + ".js"}], head=["str", "<i>" + P + "</i>"])]
        body = [["D", 0], ["G", "p", True, [["title", "S", P + "t"]], [["T", P + "x"]]], ["D", 3], ["D", 1], ["H", P + "h"], ["D", 2], ["D", 4], ["D", 5]]
        rng.shuffle(body)
        kw = [["lang", ["str", P[:5000] + "k"]]] if rng.random() < 0.5 else []
        out.append((f"strings of {L} characters ({unit}) equal up to the last one", mk_case(deps, mode_wrap(body, 6), kw=kw, **st())))
    return out


def exhaustive_cases(maxlen: int) -> list[dict]:
    """every child sequence of the user's html over a small alphabet (head in any position,
    several heads, dependencies in head / body / directly under html), with and without kw"""
    deps = [{"kind": "dep", "name": "a", "version": "1.9", "source": "pkg", "meta": [], "stylesheet": [],
             "script": [{"src": "a.js"}], "head": None},
            {"kind": "dep", "name": "a", "version": "1.10", "source": "href", "meta": [{"name": "m", "content": "c"}],
             "stylesheet": [{"href": "s.css"}], "script": [], "head": ["str", "<i>1</i>"]},
            {"kind": "hc", "args": [["G", "title", True, [], [["T", "t"]]]]}]
    alpha = [
        ["G", "head", True, [], []],
        ["G", "head", True, [["id", "S", "h"]], [["G", "title", True, [], [["T", "u"]]], ["D", 0],
                                                   ["G", "meta", True, [["charset", "S", "latin1"]], []]]],
        ["G", "body", True, [], [["D", 1], ["T", "x"], ["D", 2]]],
        ["D", 0],
        ["G", "div", True, [], [["T", "d"]]],
        ["C", [["G", "head", True, [], [["T", "o"]]], ["D", 2]], True],
    ]
    out = []
    for n in range(0, maxlen + 1):
        for seq in itertools.product(range(len(alpha)), repeat=n):
            for kw in ([], [["lang", ["str", "en"]]]):
                out.append({"deps": deps, "args": [["G", "html", True, [["lang", "S", "fr"]], [alpha[i] for i in seq]]],
                            "split": [], "kw": kw, "lib_prefix": "lib", "include_version": True, "safe": True})
    # the same child lists as a fragment and in a lone body
    for n in range(0, min(maxlen, 3) + 1):
        for seq in itertools.product(range(len(alpha)), repeat=n):
            kids = [alpha[i] for i in seq]
            out.append({"deps": deps, "args": kids, "split": [1] if len(kids) > 1 else [], "kw": [],
                        "lib_prefix": None, "include_version": False, "safe": True})
            out.append({"deps": deps, "args": [["G", "body", True, [], kids]], "split": [], "kw": [],
                        "lib_prefix": "a/b", "include_version": True, "safe": True})
    return out


FIXED = [
    # the finding F7 itself
    {"deps": [{"kind": "dep", "name": "b", "version": "1.0", "source": "href", "meta": [], "stylesheet": [],
               "script": [{"src": "b.js"}], "head": None},
              {"kind": "dep", "name": "c", "version": "1.0", "source": "none", "meta": [], "stylesheet": [],
               "script": [], "head": ["nodes", [["G", "div", True, [], [["D", 0]]]]]}],
     "args": [["G", "div", True, [], [["D", 1]]]], "split": [], "kw": [], "lib_prefix": "lib",
     "include_version": True, "safe": True},
    # a user head with children and a dependency inside, body first, a second head
    {"deps": [{"kind": "dep", "name": "a", "version": "1.0", "source": "href", "meta": [], "stylesheet": [],
               "script": [{"src": "a.js"}], "head": None},
              {"kind": "dep", "name": "b", "version": "2", "source": "none", "meta": [], "stylesheet": [],
               "script": [], "head": ["str", "<x></x>"]}],
     "args": [["G", "html", False, [["lang", "S", "fr"]],
               [["G", "body", True, [], [["D", 1], ["T", "x"]]],
                ["G", "head", True, [], [["G", "title", True, [], [["T", "t"]]], ["D", 0]]],
                ["G", "head", True, [], []]]]],
     "split": [], "kw": [["lang", ["str", "en"]], ["class_", ["str", "k"]]], "lib_prefix": None,
     "include_version": True, "safe": True},
]


def load_corpus() -> list[dict]:
    out = []
    for p in sorted(glob.glob(os.path.join(VERIF, "corpus", "C11", "*.json"))):
        with open(p, encoding="utf-8") as f:
            out += json.load(f)
    return out


def coqchk(ctx: Ctx) -> None:
    import subprocess
    from ..common import COQ, Lock
    with Lock():
        try:
            p = subprocess.run(["coqchk", "-silent", "-o", "-Q", ".", "HT", "HT.Properties.C11"], cwd=COQ,
                               stdout=subprocess.PIPE, stderr=subprocess.STDOUT, text=True, timeout=900)
            out, rc = p.stdout, p.returncode
        except subprocess.TimeoutExpired:
            out, rc = "TIMEOUT", 124
    ok = rc == 0 and "* Axioms: <none>" in out
    ctx.obligation("coqchk -o HT.Properties.C11: accepted, no axioms", ok)
    if ok:
        ctx.trusted_base.append("coqchk -o: Axioms: <none>")
    else:
        ctx.extra["coqchk_tail"] = out[-1500:]


def raise_stack_limit() -> None:
    """The extracted model recurses over strings (lists of code points); documents with strings of
    70000 characters need more than the default 8 MiB of native stack.  The soft limit of this
    process is raised (the model processes started later inherit it); nothing else changes."""
    import resource
    want = 2 << 30
    try:
        soft, hard = resource.getrlimit(resource.RLIMIT_STACK)
        if hard != resource.RLIM_INFINITY:
            want = min(want, hard)
        if soft != resource.RLIM_INFINITY and soft < want:
            resource.setrlimit(resource.RLIMIT_STACK, (want, hard))
    except (ValueError, OSError):
        pass


def _run_main(ctx: Ctx) -> None:
    rng = ctx.rng
    raise_stack_limit()
    ctx.rule = ("documents: 0-5 dependency objects (names from a pool of 4 so names collide, versions from {1, 1.0, "
                "1.9, 1.10, 1.10.0, 01.2, 2, 0.0.1}; url / package / no source; 0-2 meta, stylesheet, script dicts "
                "with extra keys and file names that need quoting; head payload absent, a str, or nodes) and "
                "head_content() items, placed in a fragment, a lone body, a lone html (0-5 children: heads with "
                "children and dependencies at any position, several heads, body, dependencies directly under html, a "
                "head that only an object's expansion brings), or odd shapes (sole tag wrapped in lists/None, two "
                "html tags, html next to a dependency, an object expanding to html, other letter case), nested in "
                "tags / list, tuple, TagList wrappers / tagifiable objects; content given at construction or "
                "split over 1-2 append calls; 0-3 html keyword attributes (str, HTML, None, True/False, int, float, a "
                "rejected list, class_ and class together, _add_ws/_name); lib_prefix in {None, lib, a/b}; "
                "include_version on/off; half of the cases use markup-free strings (then the html.parser oracle "
                "runs), half metacharacter-heavy strings; a separate stream puts a dependency inside another "
                "dependency's head payload (finding F7); bounded-exhaustive: every child sequence up to length 3 "
                "(thorough 4) of the user's html over {empty head, head with title+dependency, body with two "
                "dependencies, dependency, div, object expanding to head+dependency}, also as fragment / lone body. "
                "Histories on ONE document object: construction (fragment, lone html/body, empty) then 2-8 operations "
                "from {render(lib_prefix, include_version), append (a dependency only, nested lists/None, a lone "
                "html/body tag that changes the construction case, ordinary children), save_html into a temp dir, "
                "copy.copy(doc)}, 60% containing render / append / render with the same settings; after every render "
                "(document and every copy) and save_html the result is compared with a fresh document built from the "
                "content supplied so far and with the model. "
                "User content that looks like what the document inserts (meta charset of any value, a script of the "
                "listing's type, link/script tags like a dependency's, title, base, nested head/body/html, raw doctype / "
                "head markup) is mixed into every stream (3.5% of nodes, 35% of user heads). 12% of the documents hold one "
                "Tag OBJECT at two places; objects that are both tagifiable and self-rendering occur. head_content() items "
                "are identified by their CONTENT on the specification side (never by the name the implementation gave). "
                "BIG documents (about 35 per run, sizes drawn from {7,8,9,15,16,17,31,32,33 | 63,64,65,127,128,129 | "
                "255,256,257,300}, one from each band per shape): n distinct dependencies with the odd one last and a "
                "higher version of the first name after it; n versions of one name with the maximum late; n meta / "
                "stylesheet / script items and head nodes per dependency; n head_content items differing in the last "
                "node; a user html with n children (head last / at the seam / second head) and a head whose LAST of n "
                "children is a meta charset / dependency / listing look-alike; nesting depth 7..70 of tags / lists / "
                "tuples / TagLists / objects above the dependencies (also above a sole html, inside the user's head); n "
                "html keyword attributes; n append calls; n placements; n attributes and class tokens on html/head/"
                "body; versions with n components and components > 2^53; strings of 299..513, 1365..8193 and "
                "65535..70001 characters (ASCII, 2-, 3-, 4-byte and mixed) as head_content payload (style / script / HTML / "
                "text / attribute), dependency name, script src, head payload, body text, attribute and keyword value, "
                "always in pairs EQUAL UP TO THE LAST CHARACTER. EVERY ENTRY POINT (see the list at the top of "
                "harness/props/C11.py): ~150 documents are rendered through up to 17 routes each (copy / deepcopy, json "
                "dependency mode, with-block built content, TagList + / += / tagify, consolidate_attrs, append per item, "
                "defaults of render / save_html, keyword and positional save_html, Tag/TagList.save_html), each judged "
                "against the statement's document; an unrelated document made before and one made after must be unaffected; "
                "the caller's dependency objects are compared field by field before and after; the returned dict is emptied "
                "before the second render. "
                "A case is non-trivial when a dependency is placed, keyword attributes are given or the user's own "
                "html is used. distinct = distinct canonical inputs.")
    ctx.assumptions = [
        "the extracted OCaml model behaves as the Gallina model (ExtrOcamlBasic only)",
        "pure tree layer: the content is the item list of doc._content (flattening of arguments is C14's subject); "
        "object identity is observed through a marker attribute that copy() preserves (tagify copies dependencies)",
        "a dependency's markup is a parameter of the model (tags_of); the harness supplies its four parts from "
        "d.as_dict() / d.head (URLs: C12) and checks them against d.as_html_tags() on every case",
        "C11_rest / C11_returned assume the tagify() contract (expansions tagified) and dependency markup free of "
        "tagifiable objects; C11_once / C11_returned assume dependency markup free of dependency objects -- the "
        "excluded case is finding F7 (C11_returned_dep_in_dep_head_refuted)",
        "versions are dotted release numbers: str(Version) is modelled as the numbers joined by dots",
        "tag names compare case-sensitively (Python ==), as the code does; the sha1 of head_content is uninterpreted",
    ]
    ctx.proof()
    if not ctx.quick:
        coqchk(ctx)

    BOTH_KINDS[0] = True
    try:
        _run_streams(ctx, rng)
    finally:
        BOTH_KINDS[0] = False


def _run_streams(ctx: Ctx, rng) -> None:
    groups = [("fixed+corpus", FIXED + load_corpus()),
              ("random documents", [rand_case(rng) for _ in range(ctx.budget(1600, 45000))]),
              ("big documents (sizes around powers of two, depth, long strings)",
               [dict(c, label=l) for _ in range(ctx.budget(1, 4)) for l, c in big_cases(rng)]),
              ("dependency inside a dependency's head payload",
               [rand_case(rng, f7=True) for _ in range(ctx.budget(300, 5000))]),
              ("every small html child sequence", exhaustive_cases(ctx.budget(3, 4)))]
    histories = FIXED_HISTORIES + [rand_history(rng) for _ in range(ctx.budget(450, 8000))]
    check_groups(ctx, groups, histories)

    check_routes(ctx, route_cases(rng, ctx.budget(100, 1200)))

    check_head_content(ctx, rng, ctx.budget(400, 5000))


def run(ctx: Ctx) -> None:
    """C11's own steps, then the dependency-markup bridge (coq/Properties/C11_deptags.v: what a
    dependency's as_dict / as_html_tags contribute, at the level of tags and attributes)."""
    _run_main(ctx)
    from . import deptags
    deptags.prove_dep_theorems(ctx)
    deptags.check_dep_markup(ctx)


def replay(ctx: Ctx, path: str) -> None:
    with open(path, encoding="utf-8") as f:
        r = json.load(f)
    print(json.dumps(r, indent=1)[:4000])
    c = r.get("case")
    raise_stack_limit()
    if isinstance(c, dict) and "ops" in c:
        ctx.rule = "replay of one history on one document object"
        ctx.proof()
        check_groups(ctx, [], [c])
    elif isinstance(c, dict) and "args" in c and "deps" in c:
        ctx.rule = "replay of one document case"
        ctx.proof()
        check_groups(ctx, [("replay", [c])])
        check_routes(ctx, [c])
    elif isinstance(c, dict) and "first" in c and "second" in c:
        ctx.rule = "replay of two head_content() items"
        ctx.proof()
        check_head_content(ctx, ctx.rng, 0, extra=[c["first"], c["second"]])
    else:
        run(ctx)

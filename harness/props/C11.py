"""C11  HTMLDocument builds one head/body and hoists every dependency into head.

Step B compares /repo with the extracted Coq model (driver c11, Model/DriverC11.v):
  op 1  HTMLDocument(content, **kw) [+ append] .render(lib_prefix=, include_version=):
        the html string and the returned dependency list (by object index); the markup of each
        dependency is handed to the model as its four parts (metas, links, scripts, head
        payload; built here from the public d.as_dict() / d.head and checked against the real
        d.as_html_tags()), the model assembles them in the order the translator read off the
        code and does everything else itself
  op 2  the text hashed by head_content(*args) (name = headcontent_ + sha1)
Step C decides the property with oracles written from the property text, independent of the
model: (a) the whole output equals doctype + the ordinary rendering of the document tree the
statement describes, built with public constructors only; (b) on markup-free inputs the output
is parsed with html.parser and the statement's clauses are checked on the parsed tree (one
html, head count, meta charset first, user head content, one listing script, each dependency's
markup once in resolved order, nothing of a dependency elsewhere); (c) the returned list is the
independent resolution (earliest maximal version per name, first-occurrence order) of the
document-order dependency sequence and is what the listing names; (d) rendering twice gives
the same result and leaves the user's own objects rendering as before; (e) histories on one
document object (render / append / save_html into a temp dir / copy.copy, any order): every
render equals what a fresh document built from all content supplied so far renders.

Descriptions are plain JSON lists:
  node ::= ["T", s] | ["H", s] | ["R", s] | ["N"] | ["D", i] | ["G", name, ws, attrs, kids]
         | ["L", how, kids] | ["C", exp, as_list]          attrs = [[key, "S"|"H", value], ...]
  dep  ::= {"kind": "dep", name, version, source, meta, stylesheet, script, head}
         | {"kind": "hc", "args": [node]}                   head = None | ["str", s] | ["nodes", [node]]
  case ::= {"deps": [dep], "args": [node], "split": [k1, k2...], "kw": [[name, val]],
            "lib_prefix": None|str, "include_version": bool, "safe": bool}
"""
from __future__ import annotations

import copy as _copy
import glob
import hashlib
import html.parser
import itertools
import json
import os
from typing import Any

from .. import common
from ..common import Ctx, S, unS, VERIF, run_model
from .. import trees
from ..trees import safe_call

import htmltools
from htmltools import HTML, HTMLDependency, HTMLDocument, Tag, TagList, head_content

VERSIONS = ["1", "1.0", "1.9", "1.10", "1.10.0", "01.2", "2", "0.0.1"]
NAMES = ["a", "b", "jq", "A"]
F7_ID = "F7-dep-in-dep-head"
WHAT_RETURNED = "returned dependency list is not the resolved list of the content's dependencies"
WHAT_LISTING = "the listing script does not name exactly the returned dependencies"


# ------------------------------------------------------------------------------------
# known finding F7: a dependency object occurs inside the head payload of another dependency
# ------------------------------------------------------------------------------------
def has_dep(nodes: list) -> bool:
    for n in nodes:
        k = n[0]
        if k == "D":
            return True
        if k == "G" and has_dep(n[4]):
            return True
        if k == "L" and has_dep(n[2]):
            return True
        if k == "C" and has_dep(n[1]):
            return True
    return False


def dep_in_dep_head(case: dict) -> bool:
    return any(payload_has_dep(d) for d in case.get("deps", []))


def payload_has_dep(d: dict) -> bool:
    if d["kind"] == "dep":
        return d["head"] is not None and d["head"][0] == "nodes" and has_dep(d["head"][1])
    return has_dep(d["args"])


@common.known_matcher(F7_ID)
def _known_f7(what, case, detail):
    # exactly that shape (the payload being that of a dependency the document hoists), and only
    # the disagreements it causes (returned list vs resolved content / listing); any other broken
    # clause on such an input is still reported
    return (isinstance(case, dict) and dep_in_dep_head(case)
            and what in (WHAT_RETURNED, WHAT_LISTING)
            and detail.get("hoisted_payload_holds_dependency") is True)


# ------------------------------------------------------------------------------------
# building live objects from descriptions
# ------------------------------------------------------------------------------------
def build_node(n: list, objs: list) -> Any:
    k = n[0]
    if k == "T":
        return n[1]
    if k == "H":
        return HTML(n[1])
    if k == "R":
        return trees.ReprObj(n[1])
    if k == "N":
        return None
    if k == "D":
        return objs[n[1]]
    if k == "G":
        _, name, ws, attrs, kids = n
        t = Tag(name, *[build_node(x, objs) for x in kids], _add_ws=ws)
        for key, m, v in attrs:
            # stored as is (name normalisation is C15's subject)
            dict.__setitem__(t.attrs, key, HTML(v) if m == "H" else v)
        return t
    if k == "L":
        kb = [build_node(x, objs) for x in n[2]]
        return {"list": list, "tuple": tuple}.get(n[1], lambda l: TagList(*l))(kb)
    if k == "C":
        return trees.CustomObj([build_node(x, objs) for x in n[1]], n[2])
    raise ValueError(n)


SOURCES = {
    "none": None,
    "href": {"href": "https://x.y/z"},
    "pkg": {"package": "htmltools", "subdir": "libtest"},
}


def build_deps(deps: list) -> list:
    objs: list = []
    for i, dd in enumerate(deps):
        if dd["kind"] == "hc":
            d = head_content(*[build_node(x, objs) for x in dd["args"]])
        else:
            h = dd["head"]
            head = None if h is None else h[1] if h[0] == "str" else [build_node(x, objs) for x in h[1]]
            d = HTMLDependency(dd["name"], dd["version"], source=_copy.deepcopy(SOURCES[dd["source"]]),
                               meta=_copy.deepcopy(dd["meta"]), stylesheet=_copy.deepcopy(dd["stylesheet"]),
                               script=_copy.deepcopy(dd["script"]), head=head)
        d._verif_id = i      # survives copy(), which tagify() applies to metadata nodes
        objs.append(d)
    return objs


def top_args(case: dict, objs: list) -> list:
    return [build_node(x, objs) for x in case["args"]]


def kw_value(v: list) -> Any:
    k = v[0]
    if k == "none":
        return None
    if k in ("bool", "int", "float", "str"):
        return v[1]
    if k == "html":
        return HTML(v[1])
    return [v[1:]]      # a list: rejected with TypeError


def kw_sx(v: list) -> list:
    k = v[0]
    if k == "none":
        return [0]
    if k == "bool":
        return [1, 1 if v[1] else 0]
    if k == "int":
        return [2, S(str(v[1]))]
    if k == "float":
        return [3, S(str(v[1]))]
    if k == "str":
        return [4, S(v[1])]
    if k == "html":
        return [5, S(v[1])]
    return [6]


# ------------------------------------------------------------------------------------
# encodings for the model
# ------------------------------------------------------------------------------------
def release(s: str) -> list[int]:
    return [int(x) for x in s.split(".")]


def dep_sx(i: int, objs: list) -> list:
    d = objs[i]
    return [S(d.name), list(d.version.release), i]


def nodes_sx(nodes: list, objs: list) -> list:
    """description -> model nodes; lists are flattened and None dropped as TagList does
    (that flattening is C14's subject)"""
    out = []
    for n in nodes:
        k = n[0]
        if k == "T":
            out.append([0, S(n[1])])
        elif k == "H":
            out.append([1, S(n[1])])
        elif k == "R":
            out.append([2, S(n[1])])
        elif k == "N":
            pass
        elif k == "D":
            out.append([3, dep_sx(n[1], objs)])
        elif k == "G":
            out.append([4, S(n[1]), 1 if n[2] else 0,
                        [[S(key), [1 if m == "H" else 0, S(v)]] for key, m, v in n[3]],
                        nodes_sx(n[4], objs)])
        elif k == "L":
            out += nodes_sx(n[2], objs)
        elif k == "C":
            out.append([5, [], nodes_sx(n[1], objs)])
        else:
            raise ValueError(n)
    return out


def enc_live(x: Any) -> list:
    """a live (custom-free) object -> model node"""
    if isinstance(x, HTMLDependency):
        return [3, [S(x.name), list(x.version.release), x._verif_id]]
    if isinstance(x, Tag):
        return [4, S(x.name), 1 if x.add_ws else 0,
                [[S(k), [1 if isinstance(v, HTML) else 0, S(str(v))]] for k, v in dict.items(x.attrs)],
                [enc_live(c) for c in x.children]]
    if isinstance(x, HTML):
        return [1, S(str(x))]
    if isinstance(x, str):
        return [0, S(x)]
    if isinstance(x, trees.ReprObj):
        return [2, S(x.s)]
    raise ValueError(type(x))


def dep_parts(d: HTMLDependency, lib_prefix, include_version) -> tuple[list, list, list, list]:
    """the four argument groups of as_html_tags, from the public as_dict() (its URLs are C12's
    subject) and the head payload"""
    dd = d.as_dict(lib_prefix=lib_prefix, include_version=include_version)
    metas = [Tag("meta", **m) for m in dd["meta"]]
    links = [Tag("link", **s) for s in dd["stylesheet"]]
    scripts = [Tag("script", **s) for s in dd["script"]]
    head = [] if d.head is None else list(d.head)
    return metas, links, scripts, head


def case_sx(case: dict, objs: list) -> list:
    marks = []
    for i, d in enumerate(objs):
        me, li, sc, he = dep_parts(d, case["lib_prefix"], case["include_version"])
        marks.append([i, [enc_live(x) for x in me], [enc_live(x) for x in li],
                      [enc_live(x) for x in sc], [enc_live(x) for x in he]])
    return [1, nodes_sx(case["args"], objs), [[S(k), kw_sx(v)] for k, v in case["kw"]], marks]


# ------------------------------------------------------------------------------------
# specification side (written from the property text)
# ------------------------------------------------------------------------------------
def spec_vcmp(a: list[int], b: list[int]) -> int:
    n = max(len(a), len(b))
    pa, pb = a + [0] * (n - len(a)), b + [0] * (n - len(b))
    return (pa > pb) - (pa < pb)


def spec_resolve(seq: list[int], deps: list) -> list[int]:
    """one per name, names by first occurrence, each the earliest occurrence of maximal version"""
    names: list[str] = []
    for i in seq:
        if deps[i].name not in names:
            names.append(deps[i].name)
    out = []
    for nm in names:
        cands = [i for i in seq if deps[i].name == nm]
        best = cands[0]
        for i in cands:
            if all(spec_vcmp(list(deps[i].version.release), list(deps[j].version.release)) >= 0 for j in cands):
                best = i
                break
        out.append(best)
    return out


def doc_order(nodes: list) -> list[int]:
    """dependency placements of the content in document order (objects are looked into: the
    document is tagified before anything else)"""
    out: list[int] = []
    for n in nodes:
        k = n[0]
        if k == "D":
            out.append(n[1])
        elif k == "G":
            out += doc_order(n[4])
        elif k == "L":
            out += doc_order(n[2])
        elif k == "C":
            out += doc_order(n[1])
    return out


def flat_items(nodes: list) -> list:
    """top-level description items after flattening"""
    out = []
    for n in nodes:
        if n[0] == "L":
            out += flat_items(n[2])
        elif n[0] != "N":
            out.append(n)
    return out


def construction_case(case: dict) -> str:
    items = flat_items(case["args"])
    if len(items) == 1 and items[0][0] == "G" and items[0][1] == "html":
        return "html"
    if len(items) == 1 and items[0][0] == "G" and items[0][1] == "body":
        return "body"
    return "fragment"


def dep_markup(d: HTMLDependency, lib_prefix, include_version) -> list:
    """meta, link, script and head markup of one dependency, in that order"""
    me, li, sc, he = dep_parts(d, lib_prefix, include_version)
    return me + li + sc + he


def shallow_tag(t: Tag, children: list) -> Tag:
    r = Tag(t.name, _add_ws=t.add_ws)
    for k, v in dict.items(t.attrs):
        dict.__setitem__(r.attrs, k, v)
    r.children = TagList()
    list.extend(r.children.data, children)
    return r


def expected_document(case: dict, objs: list) -> tuple[Any, list[int], dict]:
    """The document the statement describes, built with public constructors, and the resolved
    dependency indices.  Returns (html Tag | ('err', code), resolved, parts) where parts names
    the pieces for the parsed-tree oracle."""
    args = top_args(case, objs)
    items = list(TagList(*args))
    kw = {k: kw_value(v) for k, v in case["kw"]}
    resolved = spec_resolve(doc_order(case["args"]), objs)
    lp, iv = case["lib_prefix"], case["include_version"]
    hoisted = []
    if resolved:
        hoisted.append(Tag("script", ";".join(objs[i].name + "[" + str(objs[i].version) + "]" for i in resolved),
                           type="application/html-dependencies"))
    blocks = [dep_markup(objs[i], lp, iv) for i in resolved]
    for b in blocks:
        hoisted += b
    meta = Tag("meta", charset="utf-8")
    kind = construction_case(case)
    if kind == "html":
        user = items[0].tagify()
        r = safe_call(lambda: user.attrs.update(**kw))
        if r[0] != "ok":
            return r, resolved, {}
        kids = list(user.children)
        hi = next((j for j, c in enumerate(kids) if isinstance(c, Tag) and c.name == "head"), None)
        if hi is None:
            pre, uhead, uhk, post = [], Tag("head"), [], kids
        else:
            pre, uhead, uhk, post = kids[:hi], kids[hi], list(kids[hi].children), kids[hi + 1:]
        head = shallow_tag(uhead, [meta] + uhk + hoisted)
        doc = shallow_tag(user, pre + [head] + post)
        n_user_heads = sum(1 for c in kids if isinstance(c, Tag) and c.name == "head")
    else:
        if kind == "body":
            body = items[0].tagify()
        else:
            body = Tag("body", *items).tagify()
        if any(k in ("_add_ws", "_name") for k in kw):
            # not attribute names: parameters of the Tag constructor that the document already sets
            return ("err", 3), resolved, {}
        r = safe_call(lambda: Tag("html", **kw))
        if r[0] != "ok":
            return r, resolved, {}
        pre, uhk, post = [], [], [body]
        head = shallow_tag(Tag("head"), [meta] + hoisted)
        doc = shallow_tag(r[1], [head, body])
        n_user_heads = 0
    return doc, resolved, {"pre": pre, "uhk": uhk, "post": post, "blocks": blocks,
                           "listing": hoisted[:1] if resolved else [], "n_user_heads": n_user_heads,
                           "root": doc}


# ---- html.parser side ------------------------------------------------------------------
class _Events(html.parser.HTMLParser):
    def __init__(self):
        super().__init__(convert_charrefs=True)
        self.ev: list = []

    def handle_starttag(self, tag, attrs):
        self.ev.append(("start", tag, tuple(attrs)))

    def handle_startendtag(self, tag, attrs):
        self.ev.append(("start", tag, tuple(attrs)))
        self.ev.append(("end", tag))

    def handle_endtag(self, tag):
        self.ev.append(("end", tag))

    def handle_data(self, data):
        if data.strip():
            self.ev.append(("data", "".join(data.split())))

    def handle_decl(self, decl):
        self.ev.append(("decl", decl))


def events(s: str) -> list:
    p = _Events()
    p.feed(s)
    p.close()
    # adjacent data events are merged (layout whitespace may split them)
    out: list = []
    for e in p.ev:
        if e[0] == "data" and out and out[-1][0] == "data":
            out[-1] = ("data", out[-1][1] + e[1])
        else:
            out.append(e)
    return out


def forest(ev: list) -> list:
    """events -> [(tag, attrs, children) | ('#', text)]; the inputs this is used on are well formed"""
    root: list = []
    stack = [root]
    names: list = []
    for e in ev:
        if e[0] == "start":
            node = (e[1], e[2], [])
            stack[-1].append(node)
            stack.append(node[2])
            names.append(e[1])
        elif e[0] == "end":
            if e[1] in names:
                while names:
                    stack.pop()
                    if names.pop() == e[1]:
                        break
        elif e[0] == "data":
            stack[-1].append(("#", e[1]))
        else:
            stack[-1].append(("!", e[1]))
    return root


def merge_text(nodes: list) -> list:
    out: list = []
    for n in nodes:
        if n[0] == "#" and out and out[-1][0] == "#":
            out[-1] = ("#", out[-1][1] + n[1])
        else:
            out.append(n)
    return out


def render_items(items: list) -> str:
    return TagList(*[x for x in items if not isinstance(x, HTMLDependency)]).get_html_string()


def parsed_oracle(case: dict, objs: list, html_s: str, resolved: list[int], parts: dict) -> list:
    """clauses of the statement on the html.parser tree; only for markup-free inputs"""
    bad = []
    f = forest(events(html_s))
    if not f or f[0] != ("!", "DOCTYPE html"):
        bad.append(("the output does not start with the doctype declaration", {}))
        return bad
    roots = [n for n in f[1:] if n[0] not in "#!"]
    if len(roots) != 1 or roots[0][0] != "html" or len(f) != 2:
        bad.append(("the doctype is not followed by a single html element", {"roots": [n[0] for n in f[1:]]}))
        return bad
    html_el = roots[0]
    heads = [c for c in html_el[2] if c[0] == "head"]
    want_heads = max(1, parts["n_user_heads"])
    if len(heads) != want_heads:
        bad.append(("the html element does not have exactly one head child" if want_heads == 1 else
                    "the number of head children changed", {"heads": len(heads), "expected": want_heads}))
        return bad
    hk = heads[0][2]
    if not hk or hk[0] != ("meta", (("charset", "utf-8"),), []):
        bad.append(("the head does not start with <meta charset=\"utf-8\"/>", {"first": repr(hk[:1])}))
    want = [("meta", (("charset", "utf-8"),), [])]
    want += forest(events(render_items(parts["uhk"])))
    if resolved:
        want.append(("script", (("type", "application/html-dependencies"),),
                     [("#", ";".join(objs[i].name + "[" + str(objs[i].version) + "]" for i in resolved))]))
    for b in parts["blocks"]:
        want += forest(events(render_items(b)))
    want = merge_text(want)
    if hk != want:
        bad.append(("head content is not meta charset, the user's head content, the listing script, then each "
                    "dependency's markup once in resolved order", {"parsed_head": repr(hk)[:600], "expected": repr(want)[:600]}))
    # nothing of a dependency anywhere else: the rest is the user's content, dependencies deleted

    def count_listing(nodes):
        n = 0
        for c in nodes:
            if c[0] in "#!":
                continue
            if c[0] == "script" and ("type", "application/html-dependencies") in c[1]:
                n += 1
            n += count_listing(c[2])
        return n
    if count_listing(f) != (1 if resolved else 0):
        bad.append(("the application/html-dependencies script does not occur exactly once (never without dependencies)",
                    {"count": count_listing(f)}))
    rest = [c for c in html_el[2] if c is not heads[0]]
    want_rest = forest(events(render_items(parts["pre"]))) + forest(events(render_items(parts["post"])))
    if rest != want_rest:
        bad.append(("outside the head the document is not the content's ordinary rendering (dependency markup "
                    "left in the body, or content lost)", {"parsed_rest": repr(rest)[:600], "expected": repr(want_rest)[:600]}))
    return bad


def listing_of(html_s: str) -> list[str] | None:
    """the entries of the listing script(s), by plain string search"""
    opener = '<script type="application/html-dependencies">'
    out = []
    pos = 0
    while True:
        i = html_s.find(opener, pos)
        if i < 0:
            break
        j = html_s.find("</script>", i)
        out.append(html_s[i + len(opener):j])
        pos = j
    return out


# ------------------------------------------------------------------------------------
# one batch: correspondence + oracles
# ------------------------------------------------------------------------------------
def run_impl(case: dict, objs: list):
    """-> (result of render(), None | what changed): the document is rendered twice and the
    user's own objects are rendered on their own before and after"""
    side: list = []

    def go():
        args = top_args(case, objs)
        before = safe_call(lambda: TagList(*args).tagify().get_html_string())
        kw = {k: kw_value(v) for k, v in case["kw"]}
        cuts = [0] + list(case["split"]) + [len(args)]
        doc = HTMLDocument(*args[cuts[0]:cuts[1]], **kw)
        for a, b in zip(cuts[1:], cuts[2:]):
            if b > a:
                doc.append(*args[a:b])
        r = doc.render(lib_prefix=case["lib_prefix"], include_version=case["include_version"])
        out = ([getattr(d, "_verif_id", -1) for d in r["dependencies"]], r["html"])
        r2 = doc.render(lib_prefix=case["lib_prefix"], include_version=case["include_version"])
        if ([getattr(d, "_verif_id", -1) for d in r2["dependencies"]], r2["html"]) != out:
            side.append("a second render() of the same document gives a different result")
        if safe_call(lambda: TagList(*args).tagify().get_html_string()) != before:
            side.append("render() changed the user's own content (it renders differently afterwards)")
        return out
    r = safe_call(go)
    return r, (side[0] if side else None)


def kind_of(case: dict) -> str:
    k = construction_case(case)
    if case["split"]:
        k += "+append"
    if dep_in_dep_head(case):
        k += "+dep-in-dep-head"
    return k


def nontrivial(case: dict) -> bool:
    return bool(doc_order(case["args"])) or bool(case["kw"]) or construction_case(case) == "html"


def check_groups(ctx: Ctx, groups: list[tuple[str, list[dict]]], histories: list[dict] | None = None) -> None:
    """one run of the extracted model for all groups and all history snapshots (each call
    rebuilds / re-checks the driver)"""
    built = [[build_deps(c["deps"]) for c in cases] for _, cases in groups]
    flat = [case_sx(c, o) for (_, cases), bs in zip(groups, built) for c, o in zip(cases, bs)]
    hist = [run_history(h) for h in (histories or [])]
    hist_sx = [case_sx(rec["snapshot"], objs) for objs, recs in hist for rec in recs]
    model = run_model(flat + hist_sx, driver="c11")
    pos = 0
    for (name, cases), bs in zip(groups, built):
        check_cases(ctx, name, cases, bs, model[pos:pos + len(cases)])
        pos += len(cases)
    if histories:
        check_histories(ctx, histories, hist, model[pos:])


# ------------------------------------------------------------------------------------
# histories on ONE document object: render / append / save_html / copy.copy in any order.
#   history ::= {"deps", "args", "kw", "safe", "ops": [op]}
#   op ::= ["render", lib_prefix, include_version] | ["append", [node]]
#        | ["save", libdir, include_version] | ["copy"]
# After every render (of the document and of every copy made so far) and every save_html the
# result must be what a FRESH HTMLDocument built from all content supplied so far renders
# (oracle), and what the model's doc_render gives on that accumulated content (correspondence).
# ------------------------------------------------------------------------------------
WHAT_HISTORY = ("after a render / append / save_html / copy history the document does not render as a fresh "
                "document built from all the content supplied so far")


def run_history(h: dict) -> tuple[list, list[dict]]:
    import shutil
    import tempfile
    objs = build_deps(h["deps"])
    kw = {k: kw_value(v) for k, v in h["kw"]}
    recs: list[dict] = []
    tmp = None

    def snap(acc, lp, iv):
        return {"deps": h["deps"], "args": list(acc), "split": [], "kw": h["kw"], "lib_prefix": lp,
                "include_version": iv, "safe": h["safe"]}

    def rendered(d, lp, iv):
        r = d.render(lib_prefix=lp, include_version=iv)
        return ([getattr(x, "_verif_id", -1) for x in r["dependencies"]], r["html"])
    try:
        r0 = safe_call(lambda: HTMLDocument(*[build_node(x, objs) for x in h["args"]], **kw))
        if r0[0] != "ok":
            return objs, recs
        docs = [[r0[1], list(h["args"]), "document"]]
        for step, op in enumerate(h["ops"]):
            if op[0] == "append":
                docs[0][0].append(*[build_node(x, objs) for x in op[1]])
                docs[0][1] += op[1]
            elif op[0] == "copy":
                docs.append([_copy.copy(docs[0][0]), list(docs[0][1]), f"copy made at step {step}"])
            elif op[0] == "render":
                for d, acc, who in docs:
                    recs.append({"step": step, "who": who, "how": "render", "snapshot": snap(acc, op[1], op[2]),
                                 "result": safe_call(rendered, d, op[1], op[2])})
            elif op[0] == "save":
                if tmp is None:
                    tmp = tempfile.mkdtemp(prefix="verif-c11-")
                path = os.path.join(tmp, f"d{step}", "index.html")
                os.makedirs(os.path.dirname(path))

                def saved():
                    docs[0][0].save_html(path, libdir=op[1], include_version=op[2])
                    with open(path, encoding="utf-8", newline="") as f:
                        return (None, f.read())
                recs.append({"step": step, "who": "document", "how": "save_html",
                             "snapshot": snap(docs[0][1], op[1], op[2]), "result": safe_call(saved)})
            else:
                raise ValueError(op)
    finally:
        if tmp is not None:
            shutil.rmtree(tmp, ignore_errors=True)
    return objs, recs


def check_histories(ctx: Ctx, histories: list[dict], hist: list, model: list) -> None:
    disagreements = []
    pos = 0
    nrec = 0
    for h, (objs, recs) in zip(histories, hist):
        shape = "history: " + " ".join(o[0] for o in h["ops"])
        ctx.count(h, True, "history (" + construction_case({"args": h["args"]}) + " at construction)")
        for rec in recs:
            m = model[pos]
            pos += 1
            nrec += 1
            got = rec["result"]
            fresh, _ = run_impl(rec["snapshot"], objs)
            if rec["how"] == "save_html" and got[0] == "ok" and fresh[0] == "ok":
                fresh = ("ok", (None, fresh[1][1]))
            if got != fresh:
                ctx.violation(WHAT_HISTORY, h, {"impl_output": repr(got)[:1500], "expected": repr(fresh)[:1500],
                                                "step": rec["step"], "who": rec["who"], "how": rec["how"],
                                                "ops": shape})
            if isinstance(m, tuple):
                mv = ("!", m[1])
            else:
                mv = trees.res_decode(m[1], lambda v: (v[0], unS(v[1])))
                if rec["how"] == "save_html" and mv[0] == "ok":
                    mv = ("ok", (None, mv[1][1]))
            if mv != got:
                disagreements.append({"case": h, "step": rec["step"], "who": rec["who"], "how": rec["how"],
                                      "impl_output": got, "model_output": mv})
    ctx.corr_cases += nrec
    ctx.obligation(f"correspondence histories on one document object: every render / save_html vs doc_render on "
                   f"the accumulated content ({len(histories)} histories, {nrec} renders)", not disagreements)
    if disagreements:
        disagreements.sort(key=lambda d: len(json.dumps(d["case"], default=repr)))
        ctx.extra["disagree_histories"] = disagreements[:3]
        ctx.extra.setdefault("disagreements", []).extend(disagreements[:2])


def rand_appended(rng, nd: int, safe: bool) -> list:
    """what one append call adds"""
    r = rng.random()
    if r < 0.3 and nd > 0:            # a dependency only
        return [["D", rng.randrange(nd)]]
    if r < 0.45:                      # nested lists / None
        return [["N"], ["L", rng.choice(["list", "tuple", "taglist"]),
                        [["L", "list", rand_kids(rng, 1, nd, safe)], ["N"]]]]
    if r < 0.6:                       # a lone html / body tag
        return [rng.choice([rand_html(rng, nd, safe), ["G", "body", True, [], rand_kids(rng, 2, nd, safe)]])]
    kids = rand_kids(rng, 2, nd, safe)
    return kids or [["T", txt(rng, safe)]]


def rand_history(rng) -> dict:
    safe = rng.random() < 0.5
    nd = rng.choice([1, 2, 2, 3, 4])
    deps = [rand_dep(rng, i, safe) for i in range(nd)]
    settings = [[None, True], ["lib", True], ["a/b", False], ["lib", False]]
    r = rng.random()
    if r < 0.3:       # a lone html / body at construction: the first append changes the case
        args = [rng.choice([rand_html(rng, nd, safe), ["G", "body", True, rand_attrs(rng, safe), rand_kids(rng, 2, nd, safe)]])]
    elif r < 0.4:
        args = []
    else:
        args = rand_kids(rng, 2, nd, safe)
    ops: list = []
    if rng.random() < 0.6:
        # the core pattern: render, append, render again with the same settings
        st = rng.choice(settings)
        ops = [["render"] + st, ["append", rand_appended(rng, nd, safe)], ["render"] + st]
    for _ in range(rng.choice([0, 1, 2, 3, 4] if ops else [2, 3, 4, 5])):
        r = rng.random()
        if r < 0.35:
            op = ["render"] + rng.choice(settings)
        elif r < 0.7:
            op = ["append", rand_appended(rng, nd, safe)]
        elif r < 0.85:
            op = ["save"] + rng.choice(settings)
        else:
            op = ["copy"]
        ops.insert(rng.randrange(len(ops) + 1) if rng.random() < 0.5 else len(ops), op)
    if ops[-1][0] not in ("render", "save"):
        ops.append(["render"] + rng.choice(settings))
    if any(o[0] == "save" for o in ops):
        # save_html copies files: only dependencies without local files (none / url source)
        for d in deps:
            if d["kind"] == "dep" and d["source"] == "pkg":
                d["source"] = rng.choice(["none", "href"])
    return {"deps": deps, "args": args, "kw": rand_kw(rng, safe) if rng.random() < 0.5 else [], "safe": safe, "ops": ops}


FIXED_HISTORIES = [
    # render, append content with its own dependency, render again with the same settings
    {"deps": [{"kind": "dep", "name": "a", "version": "1.0", "source": "href", "meta": [], "stylesheet": [],
               "script": [{"src": "a.js"}], "head": None},
              {"kind": "dep", "name": "b", "version": "2", "source": "none", "meta": [], "stylesheet": [],
               "script": [{"src": "b.js"}], "head": ["str", "<i>b</i>"]}],
     "args": [["G", "div", True, [], [["T", "x"], ["D", 0]]]], "kw": [["lang", ["str", "en"]]], "safe": True,
     "ops": [["render", "lib", True], ["append", [["G", "p", True, [], [["T", "y"], ["D", 1]]]]], ["render", "lib", True],
             ["save", "lib", True], ["copy"], ["append", [["D", 1]]], ["render", "lib", True], ["render", None, False]]},
    # a lone html at construction; the append turns the content into a fragment of two items
    {"deps": [{"kind": "dep", "name": "a", "version": "1.0", "source": "none", "meta": [], "stylesheet": [],
               "script": [{"src": "a.js"}], "head": None}],
     "args": [["G", "html", True, [], [["G", "head", True, [], [["G", "title", True, [], [["T", "t"]]]]], ["G", "body", True, [], [["T", "x"]]]]]],
     "kw": [], "safe": True,
     "ops": [["render", "lib", True], ["append", [["D", 0]]], ["render", "lib", True], ["append", [["N"], ["L", "list", [["N"]]]]],
             ["render", "lib", True]]},
]


def check_cases(ctx: Ctx, name: str, cases: list[dict], built: list, model: list) -> None:
    disagreements, parts_bad, spec_bad = [], [], []
    for c, objs, m in zip(cases, built, model):
        ctx.count(c, nontrivial(c), kind_of(c))
        iv, side = run_impl(c, objs)
        if side is not None:
            ctx.violation(side, c, {"impl_output": repr(iv)[:800], "expected": "the document is a function of its content"})
        lp, ivn = c["lib_prefix"], c["include_version"]
        # the four parts handed to the model are what as_html_tags returns
        for d in objs:
            r = safe_call(lambda: [enc_live(x) for x in d.as_html_tags(lib_prefix=lp, include_version=ivn)])
            if r != ("ok", [enc_live(x) for x in dep_markup(d, lp, ivn)]):
                parts_bad.append({"case": c, "dep": d.name})
                ctx.violation("a dependency's markup is not its meta, link, script and head markup in that order",
                              c, {"impl_output": repr(r)[:800], "expected": render_items(dep_markup(d, lp, ivn))})
        # ---- C: oracles ----------------------------------------------------------------
        exp, resolved, parts = expected_document(c, objs)
        if isinstance(exp, tuple):
            if iv != exp:
                ctx.violation("rejected attribute arguments: wrong outcome", c,
                              {"impl_output": repr(iv)[:800], "expected": repr(exp)})
        elif iv[0] != "ok":
            ctx.violation("render() raises on a well-formed document", c,
                          {"impl_output": repr(iv), "expected": "a rendered document"})
        else:
            ids, html_s = iv[1]
            nested = any(payload_has_dep(c["deps"][i]) for i in resolved)
            det = {"impl_output": {"dependencies": ids, "html": html_s},
                   "hoisted_payload_holds_dependency": nested}
            want_html = "<!DOCTYPE html>\n" + exp.get_html_string()
            if not html_s.startswith("<!DOCTYPE html>\n"):
                ctx.violation("the output does not start with the doctype line", c, {**det, "expected": want_html})
            elif html_s != want_html:
                ctx.violation("the output is not the doctype line followed by the ordinary rendering of the "
                              "document the statement describes (html / one head starting with meta charset, user "
                              "head content, listing, dependency markup once in resolved order / body)", c,
                              {**det, "expected": want_html})
            if ids != resolved:
                ctx.violation(WHAT_RETURNED, c, {**det, "expected": resolved})
            lst = listing_of(html_s) if c["safe"] else None
            names = [objs[i].name + "[" + str(objs[i].version) + "]" for i in ids if 0 <= i < len(objs)]
            if lst is not None and lst != ([";".join(names)] if names else []):
                ctx.violation(WHAT_LISTING, c, {**det, "expected": ";".join(names), "listing": lst})
            if c["safe"]:
                for what, d2 in parsed_oracle(c, objs, html_s, resolved, parts):
                    ctx.violation(what, c, {**det, **d2})
        # ---- B: correspondence ---------------------------------------------------------
        if isinstance(m, tuple):
            disagreements.append({"case": c, "impl_output": iv, "model_output": ("!", m[1])})
            continue
        mv = trees.res_decode(m[1], lambda v: (v[0], unS(v[1])))
        ivc = iv if iv[0] != "ok" else ("ok", (iv[1][0], iv[1][1]))
        if mv != ivc:
            disagreements.append({"case": c, "impl_output": ivc, "model_output": mv})
        # the Coq specification functions agree with the Python transcription of the statement
        if m[2] != resolved:
            spec_bad.append({"case": c, "coq_doc_deps": m[2], "python_spec": resolved})
        if not isinstance(exp, tuple) and m[3] != max(1, parts["n_user_heads"]):
            spec_bad.append({"case": c, "coq_head_count": m[3], "expected": max(1, parts["n_user_heads"])})
    ctx.corr_cases += len(cases)
    ctx.obligation(f"correspondence HTMLDocument.render {name} ({len(cases)} cases)", not disagreements)
    ctx.obligation(f"as_html_tags = metas + links + scripts + head (the parts given to the model) on {name}",
                   not parts_bad)
    ctx.obligation(f"Coq doc_deps / head count = Python transcription of the statement on {name}", not spec_bad)
    for what, l in (("disagree_" + name, disagreements), ("specmismatch_" + name, spec_bad)):
        if l:
            l.sort(key=lambda d: len(json.dumps(d["case"], default=repr)))
            ctx.extra[what] = l[:3]
            if what.startswith("disagree"):
                ctx.extra.setdefault("disagreements", []).extend(l[:2])


def check_head_content(ctx: Ctx, rng, n: int) -> None:
    cases = []
    for _ in range(n):
        safe = rng.random() < 0.5
        cases.append([rand_node(rng, 2, 0, safe, custom=False, deps_ok=False) for _ in range(rng.choice([0, 1, 1, 2, 3]))])
    model = run_model([[2, nodes_sx(a, [])] for a in cases], driver="c11")
    bad = []
    for a, m in zip(cases, model):
        ctx.count(["head_content", a], bool(a), "head_content name")
        d = head_content(*[build_node(x, []) for x in a])
        if isinstance(m, tuple) or m[0] != 0:
            bad.append({"case": a, "model_output": repr(m)[:200]})
            continue
        want = "headcontent_" + hashlib.sha1(unS(m[1]).encode("utf-8")).hexdigest()
        got = (d.name, str(d.version), [enc_live(x) for x in d.as_html_tags()])
        if got != (want, "0.0", nodes_sx(a, [])):
            bad.append({"case": a, "impl_output": repr(got)[:300], "model_output": want})
        # oracle: an ordinary dependency, named by its content, whose markup is the arguments
        if not (d.name.startswith("headcontent_") and len(d.name) == 52 and str(d.version) == "0.0"
                and d.script == [] and d.stylesheet == [] and d.meta == [] and d.source is None
                and d.as_html_tags().get_html_string() == TagList(*[build_node(x, []) for x in a]).get_html_string()):
            ctx.violation("head_content(...) is not a plain dependency carrying exactly its arguments", a,
                          {"impl_output": repr(got)[:300], "expected": "headcontent_<sha1>, 0.0, head=args"})
    ctx.corr_cases += len(cases)
    ctx.obligation(f"correspondence head_content name/markup ({len(cases)} cases)", not bad)
    if bad:
        ctx.extra["disagree_head_content"] = bad[:3]


# ------------------------------------------------------------------------------------
# generators
# ------------------------------------------------------------------------------------
SAFE_CHARS = "abcxyz019"
USER_NAMES = ["div", "p", "span", "b", "section", "title", "ul", "em", "h1"]
ODD_NAMES = ["script", "style", "br", "meta", "link", "head", "body", "html", "HEAD", "Html", "Body", "my-el"]


def txt(rng, safe: bool) -> str:
    if safe:
        n = rng.choice([1, 1, 2, 3, 5])
        return "".join(rng.choice(SAFE_CHARS) for _ in range(n))
    return trees.rand_text(rng, 6)


def rand_attrs(rng, safe: bool) -> list:
    n = rng.choice([0, 0, 0, 1, 1, 2])
    keys = rng.sample(["id", "class", "data-x", "title", "lang"], n)
    return [[k, "S" if safe or rng.random() < 0.75 else "H", txt(rng, safe)] for k in keys]


def rand_node(rng, depth: int, nd: int, safe: bool, custom: bool = True, deps_ok: bool = True,
              lists: bool = True) -> list:
    r = rng.random()
    if depth > 0 and r < 0.32:
        if safe or rng.random() < 0.75:
            name = rng.choice(USER_NAMES)
        else:
            name = rng.choice(ODD_NAMES)
        ws = name not in ("span", "b", "em")
        if rng.random() < 0.12:
            ws = not ws
        return ["G", name, ws, rand_attrs(rng, safe), rand_kids(rng, depth - 1, nd, safe, custom, deps_ok, lists)]
    if lists and depth > 0 and r < 0.40:
        return ["L", rng.choice(["list", "tuple", "taglist"]), rand_kids(rng, depth - 1, nd, safe, custom, deps_ok, lists)]
    if custom and depth > 0 and r < 0.46:
        n = rng.choice([0, 1, 1, 2, 3])
        as_list = n != 1 or rng.random() < 0.6
        exp = [rand_node(rng, depth - 1, nd, safe, False, deps_ok, False) for _ in range(n)]
        return ["C", exp, as_list]
    if deps_ok and nd > 0 and r < 0.80:
        return ["D", rng.randrange(nd)]
    k = rng.choice("TTTHHRN" if not safe else "TTTHN")
    if k == "N":
        return ["N"] if lists else ["T", txt(rng, safe)]
    return [k, txt(rng, safe)]


def rand_kids(rng, depth, nd, safe, custom=True, deps_ok=True, lists=True) -> list:
    return [rand_node(rng, depth, nd, safe, custom, deps_ok, lists) for _ in range(rng.choice([0, 1, 1, 2, 2, 3, 4]))]


def rand_dict(rng, req: list[str], safe: bool, extra: list[str]) -> dict:
    d = {}
    keys = list(req) + [k for k in extra if rng.random() < 0.25]
    rng.shuffle(keys)
    for k in keys:
        v = txt(rng, safe)
        if k in ("src", "href"):
            v = rng.choice(["a.js", "x y.css", "d/e.js", "q?1", "é.js", "a%b"]) if not safe else txt(rng, True) + ".js"
        d[k] = v
    return d


def rand_dep(rng, i: int, safe: bool, nested_from: int | None = None) -> dict:
    if rng.random() < 0.22:
        args = [rand_node(rng, 2, 0, safe, custom=False, deps_ok=False) for _ in range(rng.choice([0, 1, 1, 2]))]
        if nested_from is not None and i > 0:
            args.append(["G", "div", True, [], [["D", rng.randrange(i)]]] if rng.random() < 0.5 else ["D", rng.randrange(i)])
        return {"kind": "hc", "args": args}
    r = rng.random()
    if r < 0.4:
        head = None
    elif r < 0.55:
        head = ["str", "<i>" + txt(rng, True) + "</i>" if safe else txt(rng, False)]
    else:
        nodes = [rand_node(rng, 2, 0, safe, custom=False, deps_ok=False) for _ in range(rng.choice([1, 1, 2, 3]))]
        head = ["nodes", nodes]
    if nested_from is not None and i > 0:
        extra = ["G", rng.choice(["div", "span"]), True, [], [["D", rng.randrange(i)]]] if rng.random() < 0.6 \
            else ["D", rng.randrange(i)]
        head = ["nodes", (head[1] if head and head[0] == "nodes" else []) + [extra]]
    return {"kind": "dep", "name": rng.choice(NAMES), "version": rng.choice(VERSIONS),
            "source": rng.choice(["none", "href", "pkg", "pkg"]),
            "meta": [rand_dict(rng, ["name", "content"], safe, ["x"]) for _ in range(rng.choice([0, 0, 1, 2]))],
            "stylesheet": [rand_dict(rng, ["href"], safe, ["media"]) for _ in range(rng.choice([0, 0, 1, 2]))],
            "script": [rand_dict(rng, ["src"], safe, ["defer", "data-k"]) for _ in range(rng.choice([0, 1, 1, 2]))],
            "head": head}


KW_NAMES = ["lang", "class_", "class", "id", "data_x", "style", "xml__lang", "for_", "_add_ws", "_name"]


def rand_kw(rng, safe: bool) -> list:
    n = rng.choice([0, 0, 1, 1, 2, 3])
    names = rng.sample(KW_NAMES[:8] if rng.random() < 0.9 else KW_NAMES, n)
    out = []
    for k in names:
        r = rng.random()
        if r < 0.5:
            v = ["str", txt(rng, safe)]
        elif r < 0.62:
            v = ["html", txt(rng, safe)]
        elif r < 0.7:
            v = ["none"]
        elif r < 0.8:
            v = ["bool", rng.random() < 0.6]
        elif r < 0.88:
            v = ["int", rng.choice([0, 1, 7, -3])]
        elif r < 0.94:
            v = ["float", rng.choice([0.5, 1.0, 2.25])]
        else:
            v = ["bad", 1]
        out.append([k, v])
    return out


def rand_head(rng, nd, safe, custom: bool = True) -> list:
    kids = rand_kids(rng, 1, nd, safe, custom=custom and rng.random() < 0.3, lists=custom)
    return ["G", "head", rng.random() < 0.9, rand_attrs(rng, safe) if rng.random() < 0.3 else [], kids]


def rand_html(rng, nd, safe) -> list:
    kids = []
    n = rng.choice([0, 1, 2, 2, 3, 3, 4, 5])
    for _ in range(n):
        r = rng.random()
        if r < 0.3:
            kids.append(rand_head(rng, nd, safe))
        elif r < 0.5:
            kids.append(["G", "body", True, rand_attrs(rng, safe), rand_kids(rng, 2, nd, safe)])
        else:
            kids.append(rand_node(rng, 2, nd, safe))
    if rng.random() < 0.12:
        # the head only inside an object's expansion: found after tagify
        kids.insert(rng.randrange(len(kids) + 1), ["C", [rand_head(rng, nd, safe, custom=False)], rng.random() < 0.5])
    return ["G", "html", rng.random() < 0.9, rand_attrs(rng, safe), kids]


def expand_customs(nodes: list) -> list:
    """the same nodes with every tagifiable object replaced by its expansion and wrappers
    flattened (what may sit inside another object's expansion: the tagify() contract)"""
    out = []
    for n in nodes:
        if n[0] == "C":
            out += expand_customs(n[1])
        elif n[0] == "L":
            out += expand_customs(n[2])
        elif n[0] == "N":
            pass
        elif n[0] == "G":
            out.append(["G", n[1], n[2], n[3], expand_customs(n[4])])
        else:
            out.append(n)
    return out


def rand_case(rng, mode: str | None = None, f7: bool = False) -> dict:
    safe = rng.random() < 0.5
    nd = rng.choice([0, 1, 2, 2, 3, 3, 4, 5])
    if f7:
        nd = max(nd, 2)
    deps = [rand_dep(rng, i, safe, nested_from=0 if (f7 and i > 0 and rng.random() < 0.7) else None) for i in range(nd)]
    mode = mode or rng.choice(["fragment", "fragment", "body", "html", "html", "html", "odd"])
    if mode == "fragment":
        args = rand_kids(rng, 3, nd, safe)
    elif mode == "body":
        args = [["G", "body", rng.random() < 0.9, rand_attrs(rng, safe), rand_kids(rng, 3, nd, safe)]]
    elif mode == "html":
        args = [rand_html(rng, nd, safe)]
    else:
        one = rng.choice([rand_html(rng, nd, safe), ["G", "body", True, [], rand_kids(rng, 2, nd, safe)]])
        r = rng.random()
        if r < 0.25:      # wrapped in lists / next to None: still the sole content
            args = [["N"], ["L", rng.choice(["list", "tuple", "taglist"]), [["L", "list", [one]], ["N"]]]]
        elif r < 0.45:    # two of them: a fragment
            args = [one, rng.choice([rand_html(rng, nd, safe), ["G", "body", True, [], []]])]
        elif r < 0.6:     # next to a dependency / text: a fragment
            args = [one, rand_node(rng, 0, nd, safe)]
        elif r < 0.75:    # an object expanding to it: not a Tag, a fragment
            args = [["C", expand_customs([one]), rng.random() < 0.5]]
        elif r < 0.9 and not safe:   # other letter case: an ordinary tag
            one = list(one)
            one[1] = rng.choice(["HTML", "Html", "BODY", "Body"])
            args = [one]
        else:
            args = []
    if rng.random() < 0.2 and nd > 0 and mode != "html":
        args.append(["D", rng.randrange(nd)])
    cuts = []
    if len(args) >= 2 and rng.random() < 0.45:
        k = rng.randrange(0, len(args))
        cuts = [k]
        if k + 1 < len(args) and rng.random() < 0.4:
            cuts.append(rng.randrange(k + 1, len(args)))
    return {"deps": deps, "args": args, "split": cuts, "kw": rand_kw(rng, safe),
            "lib_prefix": rng.choice([None, "lib", "a/b"]), "include_version": rng.random() < 0.5,
            "safe": safe}


def exhaustive_cases(maxlen: int) -> list[dict]:
    """every child sequence of the user's html over a small alphabet (head in any position,
    several heads, dependencies in head / body / directly under html), with and without kw"""
    deps = [{"kind": "dep", "name": "a", "version": "1.9", "source": "pkg", "meta": [], "stylesheet": [],
             "script": [{"src": "a.js"}], "head": None},
            {"kind": "dep", "name": "a", "version": "1.10", "source": "href", "meta": [{"name": "m", "content": "c"}],
             "stylesheet": [{"href": "s.css"}], "script": [], "head": ["str", "<i>1</i>"]},
            {"kind": "hc", "args": [["G", "title", True, [], [["T", "t"]]]]}]
    alpha = [
        ["G", "head", True, [], []],
        ["G", "head", True, [["id", "S", "h"]], [["G", "title", True, [], [["T", "u"]]], ["D", 0]]],
        ["G", "body", True, [], [["D", 1], ["T", "x"], ["D", 2]]],
        ["D", 0],
        ["G", "div", True, [], [["T", "d"]]],
        ["C", [["G", "head", True, [], [["T", "o"]]], ["D", 2]], True],
    ]
    out = []
    for n in range(0, maxlen + 1):
        for seq in itertools.product(range(len(alpha)), repeat=n):
            for kw in ([], [["lang", ["str", "en"]]]):
                out.append({"deps": deps, "args": [["G", "html", True, [["lang", "S", "fr"]], [alpha[i] for i in seq]]],
                            "split": [], "kw": kw, "lib_prefix": "lib", "include_version": True, "safe": True})
    # the same child lists as a fragment and in a lone body
    for n in range(0, min(maxlen, 3) + 1):
        for seq in itertools.product(range(len(alpha)), repeat=n):
            kids = [alpha[i] for i in seq]
            out.append({"deps": deps, "args": kids, "split": [1] if len(kids) > 1 else [], "kw": [],
                        "lib_prefix": None, "include_version": False, "safe": True})
            out.append({"deps": deps, "args": [["G", "body", True, [], kids]], "split": [], "kw": [],
                        "lib_prefix": "a/b", "include_version": True, "safe": True})
    return out


FIXED = [
    # the finding F7 itself
    {"deps": [{"kind": "dep", "name": "b", "version": "1.0", "source": "href", "meta": [], "stylesheet": [],
               "script": [{"src": "b.js"}], "head": None},
              {"kind": "dep", "name": "c", "version": "1.0", "source": "none", "meta": [], "stylesheet": [],
               "script": [], "head": ["nodes", [["G", "div", True, [], [["D", 0]]]]]}],
     "args": [["G", "div", True, [], [["D", 1]]]], "split": [], "kw": [], "lib_prefix": "lib",
     "include_version": True, "safe": True},
    # a user head with children and a dependency inside, body first, a second head
    {"deps": [{"kind": "dep", "name": "a", "version": "1.0", "source": "href", "meta": [], "stylesheet": [],
               "script": [{"src": "a.js"}], "head": None},
              {"kind": "dep", "name": "b", "version": "2", "source": "none", "meta": [], "stylesheet": [],
               "script": [], "head": ["str", "<x></x>"]}],
     "args": [["G", "html", False, [["lang", "S", "fr"]],
               [["G", "body", True, [], [["D", 1], ["T", "x"]]],
                ["G", "head", True, [], [["G", "title", True, [], [["T", "t"]]], ["D", 0]]],
                ["G", "head", True, [], []]]]],
     "split": [], "kw": [["lang", ["str", "en"]], ["class_", ["str", "k"]]], "lib_prefix": None,
     "include_version": True, "safe": True},
]


def load_corpus() -> list[dict]:
    out = []
    for p in sorted(glob.glob(os.path.join(VERIF, "corpus", "C11", "*.json"))):
        with open(p, encoding="utf-8") as f:
            out += json.load(f)
    return out


def coqchk(ctx: Ctx) -> None:
    import subprocess
    from ..common import COQ, Lock
    with Lock():
        try:
            p = subprocess.run(["coqchk", "-silent", "-o", "-Q", ".", "HT", "HT.Properties.C11"], cwd=COQ,
                               stdout=subprocess.PIPE, stderr=subprocess.STDOUT, text=True, timeout=900)
            out, rc = p.stdout, p.returncode
        except subprocess.TimeoutExpired:
            out, rc = "TIMEOUT", 124
    ok = rc == 0 and "* Axioms: <none>" in out
    ctx.obligation("coqchk -o HT.Properties.C11: accepted, no axioms", ok)
    if ok:
        ctx.trusted_base.append("coqchk -o: Axioms: <none>")
    else:
        ctx.extra["coqchk_tail"] = out[-1500:]


def _run_main(ctx: Ctx) -> None:
    rng = ctx.rng
    ctx.rule = ("documents: 0-5 dependency objects (names from a pool of 4 so names collide, versions from {1, 1.0, "
                "1.9, 1.10, 1.10.0, 01.2, 2, 0.0.1}; url / package / no source; 0-2 meta, stylesheet, script dicts "
                "with extra keys and file names that need quoting; head payload absent, a str, or nodes) and "
                "head_content() items, placed in a fragment, a lone body, a lone html (0-5 children: heads with "
                "children and dependencies at any position, several heads, body, dependencies directly under html, a "
                "head that only an object's expansion brings), or odd shapes (sole tag wrapped in lists/None, two "
                "html tags, html next to a dependency, an object expanding to html, other letter case), nested in "
                "tags / list, tuple, TagList wrappers / tagifiable objects; content given at construction or "
                "split over 1-2 append calls; 0-3 html keyword attributes (str, HTML, None, True/False, int, float, a "
                "rejected list, class_ and class together, _add_ws/_name); lib_prefix in {None, lib, a/b}; "
                "include_version on/off; half of the cases use markup-free strings (then the html.parser oracle "
                "runs), half metacharacter-heavy strings; a separate stream puts a dependency inside another "
                "dependency's head payload (finding F7); bounded-exhaustive: every child sequence up to length 3 "
                "(thorough 4) of the user's html over {empty head, head with title+dependency, body with two "
                "dependencies, dependency, div, object expanding to head+dependency}, also as fragment / lone body. "
                "Histories on ONE document object: construction (fragment, lone html/body, empty) then 2-8 operations "
                "from {render(lib_prefix, include_version), append (a dependency only, nested lists/None, a lone "
                "html/body tag that changes the construction case, ordinary children), save_html into a temp dir, "
                "copy.copy(doc)}, 60% containing render / append / render with the same settings; after every render "
                "(document and every copy) and save_html the result is compared with a fresh document built from the "
                "content supplied so far and with the model. "
                "A case is non-trivial when a dependency is placed, keyword attributes are given or the user's own "
                "html is used. distinct = distinct canonical inputs.")
    ctx.assumptions = [
        "the extracted OCaml model behaves as the Gallina model (ExtrOcamlBasic only)",
        "pure tree layer: the content is the item list of doc._content (flattening of arguments is C14's subject); "
        "object identity is observed through a marker attribute that copy() preserves (tagify copies dependencies)",
        "a dependency's markup is a parameter of the model (tags_of); the harness supplies its four parts from "
        "d.as_dict() / d.head (URLs: C12) and checks them against d.as_html_tags() on every case",
        "C11_rest / C11_returned assume the tagify() contract (expansions tagified) and dependency markup free of "
        "tagifiable objects; C11_once / C11_returned assume dependency markup free of dependency objects -- the "
        "excluded case is finding F7 (C11_returned_dep_in_dep_head_refuted)",
        "versions are dotted release numbers: str(Version) is modelled as the numbers joined by dots",
        "tag names compare case-sensitively (Python ==), as the code does; the sha1 of head_content is uninterpreted",
    ]
    ctx.proof()
    if not ctx.quick:
        coqchk(ctx)

    groups = [("fixed+corpus", FIXED + load_corpus()),
              ("random documents", [rand_case(rng) for _ in range(ctx.budget(1600, 45000))]),
              ("dependency inside a dependency's head payload",
               [rand_case(rng, f7=True) for _ in range(ctx.budget(300, 5000))]),
              ("every small html child sequence", exhaustive_cases(ctx.budget(3, 4)))]
    histories = FIXED_HISTORIES + [rand_history(rng) for _ in range(ctx.budget(450, 8000))]
    check_groups(ctx, groups, histories)

    check_head_content(ctx, rng, ctx.budget(400, 5000))


def run(ctx: Ctx) -> None:
    """C11's own steps, then the dependency-markup bridge (coq/Properties/C11_deptags.v: what a
    dependency's as_dict / as_html_tags contribute, at the level of tags and attributes)."""
    _run_main(ctx)
    from . import deptags
    deptags.prove_dep_theorems(ctx)
    deptags.check_dep_markup(ctx)


def replay(ctx: Ctx, path: str) -> None:
    with open(path, encoding="utf-8") as f:
        r = json.load(f)
    print(json.dumps(r, indent=1)[:4000])
    c = r.get("case")
    if isinstance(c, dict) and "ops" in c:
        ctx.rule = "replay of one history on one document object"
        ctx.proof()
        check_groups(ctx, [], [c])
    elif isinstance(c, dict) and "args" in c and "deps" in c:
        ctx.rule = "replay of one document case"
        ctx.proof()
        check_groups(ctx, [("replay", [c])])
    else:
        run(ctx)

"""C13  Serialised dependencies round-trip through HTML text.

Step A  Properties/C13.v (Coq).
Step B  implementation vs extracted model (driver c13): json string literals (dumps/loads),
        the serialised element, extraction, first-occurrence replace.
Step C  oracles on the implementation: (1) an HTML tokenizer's view of the serialised element
        (own transcription of the statement + html.parser) and reconstruction of an equal
        dependency; (2) extraction of interleaved serialised copies; (3) placeholder
        multiplicity; (4) json-mode str() + HTMLTextDocument == direct HTMLDocument rendering.

PUBLIC ENTRY POINTS AND ARGUMENTS THAT REACH WHAT THE STATEMENT DESCRIBES (each is driven below, with
non-default values, and judged by the statement's own oracles):
  serialising   HTMLDependency.serialize_to_script_json(indent=None | int, keyword or positional), on a
                dependency made by the constructor (head = None / str / str subclass / HTML / Tag / TagList /
                list / tuple / nested / holding OTHER dependencies directly or inside tags), by head_content(),
                by copy.copy / copy.deepcopy; while htmltools.html_dependency_render_mode is 'invisible' or
                'json' (set only around the call, or also while the dependency is built); the element's
                markup taken by get_html_string() / str() / repr() / render()['html']; serialising twice,
                the caller changing the returned Tag in between (the dependency must not change).
  json mode     htmltools.html_dependency_render_mode = 'json' with str() / repr() / _repr_html_() / format()
                of a Tag or TagList (Tag.__str__, TagList.__str__, JSXTag.__str__ -> _render_tag_or_taglist);
                trees that are a plain tag, a TagList, an <html> tag with its own <head> and <body>, a lone
                <body>, a tag filled through a with-block (sys.displayhook route), a copy.copy /
                copy.deepcopy of a tree, a JSX component inside ordinary tags, trees with objects that are
                tagifiable and self-rendering, the same dependency object at several places, wide / deep trees;
                str() called twice on the same tree.
  extracting    HTMLTextDocument(html, deps=None | list, deps_replace_pattern=str) (keyword and positional) and
                the static helper _static_extract_serialized_html_deps when it exists (else the public route
                only); htmltools.HTMLTextDocument is the same class (top-level re-export).
  rendering     HTMLTextDocument.render(lib_prefix='lib' | None | '' | nested, include_version=True | False),
                called with defaults, several times on one document with different arguments, the caller
                changing the returned dict / dependency objects in between; placeholders with regex
                metacharacters, empty, overlapping, 0..300 occurrences, first occurrence beyond 70 000
                characters; in 'invisible' and in 'json' mode.
  reference     HTMLDocument(x, **attrs).render(lib_prefix=, include_version=) (lang / class_ / style keyword
                attributes), x as above.
SIZES: numbers of script / stylesheet / meta items, attributes of one item, head children, dependencies in a
document / tree, serialised copies, placeholder occurrences, render() calls in a history: just below, at and
above 8, 16, 32, 64, 128, 256, and 300; nesting depth of head tags / lists / tuples / TagLists / dependencies in
heads and of the tree around a dependency up to 70; strings of 300, 5000, 70 001 (one of 300 017) characters
with the hostile part at the 4 KiB / 64 KiB seams and in the tail; indent up to 300.
"""
from __future__ import annotations

import copy
import itertools
import json
import os
import re
import sys
import time
from html.parser import HTMLParser

from packaging.version import Version

from ..common import Ctx, S, unS, run_model, known_matcher, canon, VERIF, ImplTimeout, time_limit
from .. import trees


def safe_call(f, *a, **kw):
    """Run code of the implementation: ANY exception becomes the value ("exc", type name), which
    is compared with the model / judged by the oracles like any other result.  (The model of C13
    has no error results of its own; where the harness decodes model output with json.loads and
    the HTMLDependency constructor, the same mapping is applied on both sides.)"""
    try:
        with time_limit():
            return ("ok", f(*a, **kw))
    except ImplTimeout:
        htmltools.html_dependency_render_mode = "invisible"
        return ("exc", "did-not-terminate")
    except Exception as e:  # noqa: BLE001
        return ("exc", type(e).__name__)


_EXC: dict[str, list] = {}


def record_exc(ctx, stage: str, case, res) -> None:
    """an exception on a valid input is a violation with that input as the replay (the smallest
    such input per exception type and stage is reported by flush_exc)"""
    _EXC.setdefault(f"valid input raised {res[1]} ({stage})", []).append((case, res))


def flush_exc(ctx) -> None:
    for what, lst in _EXC.items():
        lst.sort(key=lambda x: len(canon(x[0])))
        case, res = lst[0]
        ctx.violation(what, case, {"impl_output": list(res), "expected": "no exception: the input is valid",
                                   "failing_cases_in_this_run": len(lst)})
    ctx.extra["valid_inputs_that_raised"] = {k: len(v) for k, v in _EXC.items()}
    _EXC.clear()


import htmltools
from htmltools import HTML, HTMLDependency, HTMLDocument, HTMLTextDocument, Tag, TagList

try:                                   # JSX components are not re-exported at the top level
    from htmltools._jsx import jsx_tag_create
except Exception:  # noqa: BLE001     (a tree without the experimental module: that kind of tree is left out)
    jsx_tag_create = None

# What the statement calls the serialised element: fixed here, independently of /repo and of
# the regenerated tables (both are compared with it below).
OPEN_TAG = '<script type="application/json" data-html-dependency="">'
CLOSE_TAG = "</script>"
FIELDS = ["name", "version", "source", "script", "stylesheet", "meta", "all_files", "head"]

W_CLOSE = ("serialised element: an end-tag-like '</script' (some letter case) occurs inside the "
           "payload before the element's own closing tag")
W_PARSER = "serialised element: an HTML tokenizer (html.parser) does not give back an equal dependency"
W_JSON = "serialised element: json.loads of the payload does not reconstruct an equal dependency"
W_AGAIN = "serialised element: serialising the recovered dependency again gives a different element"
W_EXTRACT = "extraction: remaining text or recovered dependencies differ from the specification"
W_RENDER = "render: not exactly the first placeholder occurrence replaced by the dependency markup"
W_PIPE = "json-mode str() + HTMLTextDocument differs from direct HTMLDocument rendering"


# ------------------------------------------------------------------------------------------
# generators
# ------------------------------------------------------------------------------------------
def case_variants(word: str):
    for bits in itertools.product([0, 1], repeat=len(word)):
        yield "".join(c.upper() if b else c for c, b in zip(word, bits))


CLOSE_TAILS = [">", " >", "\n>", "/>", "\t>", "\x0c>", "", " x=1>", ">>"]
CLOSERS = ["</script>", "</SCRIPT>", "</Script>", "</sCrIpT>", "</script >", "</script\n>",
           "</script/>", "</SCRIPT\t>", "</script", "</scripT x=1>", "</ script>", "< /script>",
           "<\\/script>", "</scr", "</", "</style>"]
FRAGS = CLOSERS + ["<!--", "-->", "<script>", "<SCRIPT>", "<!--<script>", OPEN_TAG, OPEN_TAG[:-1],
                   '<meta data-foo="">', "##", '"', "\\", "\\\\", "\\/", "\\u003c", "\\n", "\n", "\r\n",
                   "\r", "\t", "\x00", "\x1f", "\x7f", "\x08", "\x0c", "é", " ", " ",
                   "\U0001F600", "퟿", "", "￿", "\U00010000", "\U0010ffff", "<", "/",
                   ">", "&lt;/script&gt;", "&amp;", "]]>", "'", "{", "}", ":", ",", " ", "a", "x.js"]
BACKSLASHES = ["\\\\", "\\n", "\\g<0>", "\\1", "\\d+", "/\\d+/", "'\\n'", "C:\\Users\\x\\lib", "x\\", "\\g<name>",
               "\\\\1", "a\\tb", "\\0", "\\x41"]
FRAGS += BACKSLASHES
VERSIONS = ["1.0", "2.3.4", "0.1", "1.0.0a1", "10", "1.2.post1", "3.0.0.dev2", "1!2.0"]
TAME = ["a", "x.js", "lib-1", "foo bar", "css/site.css", "jquery", "d3"]


def hostile(rng, maxn: int = 4) -> str:
    r = rng.random()
    if r < 0.12:
        return trees.rand_text(rng, 8)
    if r < 0.22:
        return rng.choice(TAME)
    return "".join(rng.choice(FRAGS) if rng.random() < 0.75 else trees.rand_text(rng, 4)
                   for _ in range(rng.randrange(1, maxn + 1)))


def no_nul(s: str) -> str:
    return s.replace("\x00", "0")


# Whitespace a head's markup (or any field) may begin / end with or consist of.  The serialised form
# carries the head as ONE markup string, so the recovered dependency is built from a plain str
# whatever the original head was built from; "head as identical markup" must hold for every way of
# giving a head, in particular where the two constructor routes could treat the text differently
# (edge / interior / only whitespace, empty markup, indentation, line-break styles, entity text).
HEAD_WS = [" ", "\n", "\t", "\r\n", "\r", "\x0c", "\x0b", "\xa0", "\u2028", "\u3000", "\ufeff", "  ", "\n    ", "    ",
           "\x1c", "\x85"]
HEAD_BODIES = ["<title>T</title>", "<style>p{}</style>", "<!-- banner -->", "<meta name='x'>", "x", "", "a  b",
               "&amp;", "&", "<style>\n    p {}\n    q {}\n  </style>", "a\tb", "a\r\nb", "<script>1 && 1</script>",
               "    l1\n    l2", "&#32;", "\\n"]
TITLE = ("G", "title", False, [], [("T", "T")])
INDENTS = [None, None, 0, 2, 4, 1, 3, 8]


def rand_ws(rng) -> str:
    return "".join(rng.choice(HEAD_WS) for _ in range(rng.choice([1, 1, 2, 3])))


def ws_text(rng) -> str:
    r = rng.random()
    if r < 0.2:
        return rand_ws(rng)
    if r < 0.8:
        return (rand_ws(rng) if rng.random() < 0.6 else "") + rng.choice(HEAD_BODIES) + \
               (rand_ws(rng) if rng.random() < 0.6 else "")
    return hostile(rng, 2)


def rand_head_kids(rng, nest: int = 0, renderable: bool = False) -> list:
    """children of a head.  nest > 0: some of them are OTHER dependencies -- directly (as head_content(tag,
    dep) is called), as the child of a tag in the head (a <link> that carries its dependency, as include_css
    style helpers produce) -- which may have such heads themselves (nest - 1 more levels)"""
    kids = []
    for _ in range(rng.choice([0, 1, 1, 2, 2, 3])):
        r = rng.random()
        if r < 0.3:
            kids.append(trees.rand_tree(rng, rng.choice([0, 1]), leaves="TH", names="bisv"))
        else:
            kids.append((rng.choice("TTHHR"), ws_text(rng)))
    if nest > 0:
        for _ in range(rng.choice([1, 1, 2])):
            inner = ("D", rand_dep(rng, renderable=renderable, name=INNER + rng.choice(TAME), nest=nest - 1))
            if rng.random() < 0.5:
                inner = ("W", rng.choice(["link", "div", "script", "span", "style"]), rng.random() < 0.5,
                         [("T", "x")][:rng.randrange(2)] + [inner] + [("H", ws_text(rng))][:rng.randrange(2)])
            kids.insert(rng.randrange(len(kids) + 1), inner)
    return kids


# names of dependencies that occur only inside other dependencies' heads
INNER = "zz-inner-"


HEAD_WRAPS = ["taglist", "pylist", "tuple", "nested", "single"]


def rand_head(rng, nest: int = 0, renderable: bool = False):
    """a head in one of the forms the constructor accepts: nothing, a plain str (or str subclass)
    taken as markup, HTML(), a self-rendering object, a Tag, a TagList / list / tuple / nested TagList
    of text, HTML() and Tag children -- and of other dependencies (nest levels)"""
    r = rng.random()
    if nest > 0 and r < 0.14:
        return ["kids", rng.choice(HEAD_WRAPS), rand_head_kids(rng, nest, renderable)]
    if r < 0.22:
        return None
    if r < 0.42:
        return ["html", hostile(rng, 3)]
    if r < 0.5:
        return [rng.choice(["html", "strsub"]), ws_text(rng)]
    if r < 0.62:
        return ["H", ws_text(rng) if rng.random() < 0.7 else hostile(rng, 3)]
    if r < 0.8:
        return ["kids", rng.choice(HEAD_WRAPS), rand_head_kids(rng)]
    if r < 0.9:
        return ["tree", trees.rand_tree(rng, rng.choice([0, 1, 2]), leaves="TTHR", names="bisc")]
    return ["list", [trees.rand_tree(rng, rng.choice([0, 1]), leaves="TH", names="sbv")
                     for _ in range(rng.randrange(0, 3))]]


def head_family():
    """every edge-whitespace form x every way of giving a head (bounded-exhaustive, small)"""
    body = "<title>T</title>"
    for ws in HEAD_WS:
        for t in (ws + body, body + ws, ws + body + ws, ws):
            yield ["html", t]
            yield ["H", t]
            yield ["kids", "single", [("R", t)]]
            yield ["kids", "taglist", [("T", t)]]
        yield ["kids", "taglist", [("T", ws), TITLE]]
        yield ["kids", "pylist", [TITLE, ("T", ws)]]
        yield ["kids", "tuple", [("H", ws), TITLE, ("H", ws)]]
        yield ["kids", "nested", [("H", ws), ("H", body)]]
        yield ["kids", "nested", [("H", body), TITLE, ("T", ws)]]
    for b in HEAD_BODIES:
        yield ["H", b]
        yield ["kids", "pylist", [("T", b)]]
        yield ["kids", "single", [("R", b)]]
    yield ["html", ""]
    yield ["strsub", ""]
    yield ["strsub", " x "]
    yield ["kids", "taglist", []]
    yield ["kids", "pylist", []]
    yield ["kids", "tuple", []]
    yield ["kids", "nested", []]
    yield ["kids", "taglist", [("T", "")]]
    yield ["kids", "taglist", [("H", ""), ("H", "")]]


def rand_dep(rng, *, renderable: bool = False, name: str | None = None, nest: int = 2) -> dict:
    """A dependency description (plain data).  renderable: as_html_tags() will be called on it
    (source must resolve without touching odd filesystem paths).  nest: how many levels of other
    dependencies its head may hold."""
    h = (lambda n=3: hostile(rng, n))
    r = rng.random()
    if r < 0.3:
        source = None
    elif r < 0.6:
        source = {"href": h()}
    elif r < 0.8:
        source = {"package": "htmltools", "subdir": no_nul(h()) if renderable else h()}
    else:
        source = {"subdir": rng.choice(TAME) if renderable else h()}
    if not renderable and rng.random() < 0.1:
        source = {"href": h(), "subdir": h(), "package": h()}
    scripts = []
    for _ in range(rng.choice([0, 0, 1, 1, 2])):
        d = {"src": h()}
        if rng.random() < 0.4:
            d[rng.choice(["type", "integrity", "data-x", "crossorigin"])] = h(2)
        if rng.random() < 0.2:
            d["defer"] = rng.choice([True, False, None, 3])
        scripts.append(d)
    sheets = []
    for _ in range(rng.choice([0, 0, 1, 1, 2])):
        d = {"href": h()}
        if rng.random() < 0.3:
            d["media"] = h(2)
        if rng.random() < 0.15:
            d["rel"] = rng.choice(["stylesheet", "preload", h(1)])
        sheets.append(d)
    metas = []
    for _ in range(rng.choice([0, 0, 1, 2])):
        d = {"name": h(), "content": h()}
        if rng.random() < 0.2:
            d[rng.choice(["charset", "http-equiv"])] = h(1)
        metas.append(d)
    def shape(l):
        # the constructor takes a list of records, a single record, or nothing
        if len(l) == 1 and rng.random() < 0.35:
            return l[0]
        if not l and rng.random() < 0.3:
            return None
        return l
    d = {"name": name if name is not None else (h() if rng.random() < 0.75 else rng.choice(TAME)),
         "version": rng.choice(VERSIONS), "source": source, "script": shape(scripts),
         "stylesheet": shape(sheets), "meta": shape(metas), "all_files": rng.random() < 0.3,
         "head": rand_head(rng, nest, renderable)}
    if rng.random() < 0.15:
        d["version_obj"] = True          # version given as a packaging Version, not a str
    if name is None and rng.random() < 0.05:
        # made by head_content(*children): the name is derived from the head's markup
        h = d["head"]
        return {"head_content": h[2] if h and h[0] == "kids" else rand_head_kids(rng, nest, renderable)}
    return d


def simple_dep(field: str, s: str) -> dict:
    """the hostile string s placed in one field of an otherwise small dependency"""
    d = {"name": "a", "version": "1.0", "source": None, "script": [], "stylesheet": [], "meta": [],
         "all_files": False, "head": None}
    if field == "name":
        d["name"] = s
    elif field == "src":
        d["script"] = [{"src": s}]
    elif field == "attr":
        d["script"] = [{"src": "a.js", "data-x": s}]
    elif field == "href":
        d["stylesheet"] = [{"href": s}]
    elif field == "meta":
        d["meta"] = [{"name": "n", "content": s}]
    elif field == "source":
        d["source"] = {"href": s}
    elif field == "head":
        d["head"] = ["html", s]
    elif field == "headscript":
        d["head"] = ["tree", ("G", "script", False, [], [("T", s)])]
    return d


SIMPLE_FIELDS = ["name", "src", "attr", "href", "meta", "source", "head", "headscript"]

# ---- sizes ----------------------------------------------------------------------------------
# just below, at and above the powers of two a size-dependent path is likely to switch at, and 300
SIZES = [7, 8, 9, 15, 16, 17, 31, 32, 33, 63, 64, 65, 127, 128, 129, 255, 256, 257, 300]
DEPTHS = [7, 8, 9, 15, 16, 17, 31, 32, 33, 63, 64, 65, 70]
DEP_DEPTHS = [2, 3, 7, 8, 9, 16, 17]      # dependency in the head of a dependency in the head of ...
STRLENS = [300, 5000, 70001]
BIG_INDENTS = [9, 16, 17, 33, 64, 65, 128, 300]
HOT = CLOSERS[:12] + ["<!--", "\\", '"', "\U0001F600", OPEN_TAG, "\r\n", "</SCRIPT>\\"]


def long_string(rng, n: int, hot: str | None = None) -> str:
    """n characters; what matters sits BEYOND every likely block size: across the 256 / 4 KiB / 64 KiB
    seams and at the very end"""
    unit = rng.choice(["lorem ipsum ", "abc \u03b1\u03b2 ", "x", "line one\n", "0123456789abcdef"])
    t = (unit * (n // len(unit) + 1))[:n]
    hot = rng.choice(HOT) if hot is None else hot
    for seam in (256, 4096, 65536):
        a = seam - len(hot) // 2 - 1
        if 0 < a and a + len(hot) < n - len(hot):
            t = t[:a] + hot + t[a + len(hot):]
    return t[:n - len(hot)] + hot


def tiny_dep(name: str, **kw) -> dict:
    d = simple_dep("name", name)
    d.update(kw)
    return d


def chain(kind: str, depth: int, bottom: list) -> tuple:
    """bottom wrapped depth times in tags ("W"), lists / tuples / TagLists ("L")"""
    x = bottom
    for i in range(depth):
        if kind == "W":
            x = [("W", ["div", "span", "section"][i % 3], i % 2 == 0, x)]
        else:
            x = [("L", kind if kind != "mixed" else ["list", "tuple", "taglist"][i % 3], x)]
    return x


def sized_deps(rng, sizes, depths, dep_depths, strlens):
    """(what, dependency description): ONE countable thing of the dependency has the given size, and the
    content that needs neutralising / exact recovery is in its LAST member (deepest level, tail)"""
    hot = lambda: "x" + rng.choice(HOT) + "y"          # noqa: E731
    for n in sizes:
        yield f"{n} script items", tiny_dep("a", script=[{"src": f"s{i}.js"} for i in range(n - 1)] + [{"src": hot()}])
        yield f"{n} stylesheet items", tiny_dep("a", stylesheet=[{"href": f"s{i}.css"} for i in range(n - 1)] + [{"href": hot(), "media": hot()}])
        yield f"{n} meta items", tiny_dep("a", meta=[{"name": f"m{i}", "content": str(i)} for i in range(n - 1)] + [{"name": "last", "content": hot()}])
        yield f"{n} attributes of one item", tiny_dep("a", script=[dict([("src", "a.js")] + [(f"data-a{i}", str(i)) for i in range(n - 2)] + [("data-last", hot())])])
        yield f"{n} head children", tiny_dep("a", head=["kids", rng.choice(HEAD_WRAPS[:4]),
                                                        [("H", f"<i>{i}</i>") for i in range(n - 1)] + [("G", "script", False, [], [("T", hot())])]])
        yield f"{n} dependencies in the head", tiny_dep("a", head=["kids", "taglist", [("D", tiny_dep(f"{INNER}{i}", script=[{"src": "i.js"}])) for i in range(n - 1)] + [("H", hot())]])
        yield f"{n} text pieces in one head element", tiny_dep("a", head=["tree", ("G", "style", False, [], [("T", f"p{i}{{}}") for i in range(n - 1)] + [("T", hot())])])
    for n in depths:
        bottom = [("G", "script", False, [], [("T", hot())]), ("D", tiny_dep(INNER + "deep", head=["html", hot()])), ("H", " " + hot())]
        yield f"head tags nested {n} deep", tiny_dep("a", head=["kids", "taglist", chain("W", n, bottom)])
        for kind in ("list", "tuple", "taglist", "mixed"):
            yield f"head {kind}s nested {n} deep", tiny_dep("a", head=["kids", "pylist", chain(kind, n, bottom)])
    for n in dep_depths:
        d = tiny_dep(INNER + "0", head=["html", hot()])
        for i in range(1, n):
            d = tiny_dep(INNER + str(i), head=["kids", "taglist", [("H", f"<b>{i}</b>"), ("D", d) if i % 2 else ("W", "link", False, [("D", d)])]])
        yield f"dependencies nested {n} deep in heads", tiny_dep("a", head=["kids", "taglist", [("D", d), ("H", hot())]])
    for n in strlens:
        for f in (SIMPLE_FIELDS if n < 20000 else ["head", "headscript", "meta", "name"]):
            yield f"string of {n} characters in {f}", simple_dep(f, long_string(rng, n))


def all_strings(x):
    if isinstance(x, str):
        yield x
    elif isinstance(x, dict):
        for v in x.values():
            yield from all_strings(v)
    elif isinstance(x, (list, tuple)):
        for v in x:
            yield from all_strings(v)


def build_head(h):
    if h is None:
        return None
    if h[0] == "html":
        return h[1]
    if h[0] == "strsub":
        return trees.StrSub(h[1])
    if h[0] == "H":
        return trees.build(("H", h[1]))
    if h[0] == "tree":
        return trees.build(tuplify(h[1]))
    if h[0] == "kids":
        kids = [build_hk(x) for x in h[2]]
        if h[1] == "pylist":
            return kids
        if h[1] == "tuple":
            return tuple(kids)
        if h[1] == "nested":
            return TagList(TagList(*kids[:1]), [kids[1:]])
        if h[1] == "single" and len(kids) == 1:
            return kids[0]
        return TagList(*kids)
    return TagList(*[trees.build(tuplify(x)) for x in h[1]])


def build_hk(x):
    """a child of a head: ("D", dependency description), ("W", tag name, add_ws, children) -- a tag whose
    children may be such nodes again --, ("L", "list" | "tuple" | "taglist", children), or a trees description"""
    if x[0] == "D":
        return build_dep(x[1])
    if x[0] == "W":
        return Tag(x[1], *[build_hk(k) for k in x[3]], _add_ws=bool(x[2]))
    if x[0] == "L":
        kids = [build_hk(k) for k in x[2]]
        return kids if x[1] == "list" else tuple(kids) if x[1] == "tuple" else TagList(*kids)
    return trees.build(tuplify(x))


def tuplify(d):
    """tree descriptions survive a JSON round trip (replay files) as lists"""
    if isinstance(d, (list, tuple)):
        k = d[0]
        if k == "G":
            return ("G", d[1], d[2], [(a[0], tuple(a[1])) for a in d[3]], [tuplify(x) for x in d[4]])
        if k == "C":
            return ("C", d[1], [tuplify(x) for x in d[2]], d[3])
        return tuple(d)
    return d


def build_dep(d: dict) -> HTMLDependency:
    if "head_content" in d:
        return htmltools.head_content(*[build_hk(x) for x in d["head_content"]])
    version = Version(d["version"]) if d.get("version_obj") else d["version"]
    return HTMLDependency(d["name"], version, source=copy.deepcopy(d["source"]),
                          script=copy.deepcopy(d["script"]), stylesheet=copy.deepcopy(d["stylesheet"]),
                          meta=copy.deepcopy(d["meta"]), all_files=d["all_files"],
                          head=build_head(d["head"]))


def dep_canon(dep: HTMLDependency):
    """the observable content the statement lists; head as rendered markup"""
    return {"name": dep.name, "version": str(dep.version), "source": dep.source,
            "script": dep.script, "stylesheet": dep.stylesheet, "meta": dep.meta,
            "all_files": dep.all_files,
            "head": None if dep.head is None else dep.head.get_html_string()}


def dep_from_payload(p: str) -> HTMLDependency:
    return HTMLDependency(**json.loads(p))


# ------------------------------------------------------------------------------------------
# specification transcriptions (of the statement, not of the code)
# ------------------------------------------------------------------------------------------
def ascii_lower(s: str) -> str:
    return "".join(chr(ord(c) + 32) if "A" <= c <= "Z" else c for c in s)


def spec_has_close_tag(s: str) -> bool:
    return "</script" in ascii_lower(s)


def spec_first_occurrences(l: list) -> list:
    out = []
    for x in l:
        if x not in out:
            out.append(x)
    return out


def spec_replace_first(ph: str, markup: str, text: str) -> str:
    i = text.find(ph)
    return text if i < 0 else text[:i] + markup + text[i + len(ph):]


PARSER_DEVIATION = re.compile(r"</\s+script\s*>|</\s*[s\u017f]cript\s*>", re.I)


class Collector(HTMLParser):
    def __init__(self):
        super().__init__(convert_charrefs=True)
        self.events: list = []

    def _data(self, d):
        if self.events and self.events[-1][0] == "data":
            self.events[-1] = ("data", self.events[-1][1] + d)
        else:
            self.events.append(("data", d))

    def handle_starttag(self, tag, attrs):
        self.events.append(("start", tag, list(attrs)))

    def handle_startendtag(self, tag, attrs):
        self.events.append(("startend", tag, list(attrs)))

    def handle_endtag(self, tag):
        self.events.append(("end", tag))

    def handle_data(self, data):
        self._data(data)

    def handle_comment(self, data):
        self.events.append(("comment", data))

    def handle_decl(self, decl):
        self.events.append(("decl", decl))

    def handle_pi(self, data):
        self.events.append(("pi", data))

    def unknown_decl(self, data):
        self.events.append(("unknown", data))


_COLLECTOR = Collector()


def tokenize(s: str) -> list:
    p = _COLLECTOR
    p.reset()
    p.events = []
    p.feed(s)
    p.close()
    return p.events


class Mode:
    """with Mode(on): the block runs with htmltools.html_dependency_render_mode == 'json' when on
    (the default 'invisible' is restored afterwards, whatever happens inside)"""

    def __init__(self, on):
        self.on = bool(on)

    def __enter__(self):
        htmltools.html_dependency_render_mode = "json" if self.on else "invisible"

    def __exit__(self, *a):
        htmltools.html_dependency_render_mode = "invisible"


W_CHANGED = "serialising a dependency changed the dependency (a read-only call modified its argument)"
_NOTES: list = []
SER_MODES = [None, None, None, "json", "json", "json-build"]
SER_MARKUP = ["get_html_string", "get_html_string", "get_html_string", "str", "repr", "render", "taglist"]


def ser_variant(rng, case: dict, mode="?") -> dict:
    """the same dependency serialised another way: render mode (the default, 'json' around the call, 'json'
    also while the dependency is built), indent positional, a copy of the dependency, another way of taking
    the element's markup, serialising twice with the caller changing the first result in between"""
    case["mode"] = rng.choice(SER_MODES) if mode == "?" else mode
    if rng.random() < 0.25:
        case["args"] = "pos"
    if rng.random() < 0.3:
        case["markup"] = rng.choice(SER_MARKUP)
    if rng.random() < 0.15:
        case["via"] = rng.choice(["copy", "deepcopy"])
    if rng.random() < 0.12:
        case["twice"] = True
    return case


def element_markup(tag, how):
    if how == "str":
        return str(tag)
    if how == "repr":
        return repr(tag)
    if how == "render":
        return tag.render()["html"]
    if how == "taglist":
        return TagList(tag).get_html_string()
    return tag.get_html_string()


def ser_dep(dep, case) -> str:
    """dep serialised as the case says (mode, argument style, markup route)"""
    with Mode(case.get("mode")):
        if case.get("args") == "pos":
            tag = dep.serialize_to_script_json(case["indent"])
        elif case["indent"] is None:
            tag = dep.serialize_to_script_json()
        else:
            tag = dep.serialize_to_script_json(indent=case["indent"])
        return element_markup(tag, case.get("markup")), tag


def ser_run(case) -> str:
    """the serialised element of the case's dependency"""
    with Mode(case.get("mode") == "json-build"):
        dep = build_dep(case["dep"])
    if case.get("via") == "copy":
        dep = copy.copy(dep)
    elif case.get("via") == "deepcopy":
        dep = copy.deepcopy(dep)
    if not case.get("twice"):
        return ser_dep(dep, case)[0]
    before = copy.deepcopy(dep_canon(dep))
    first, tag = ser_dep(dep, case)
    # the caller does what it likes with the result ...
    tag.children.clear()
    tag.attrs.clear()
    tag.name = "changed"
    mid = copy.deepcopy(dep_canon(dep))
    second = ser_dep(dep, case)[0]
    after = dep_canon(dep)
    if not (before == mid == after):
        _NOTES.append((W_CHANGED, case, {"impl_output": after if after != before else mid, "expected": before}))
    # ... and the next serialisation is judged like the first
    return second


# ------------------------------------------------------------------------------------------
# oracles
# ------------------------------------------------------------------------------------------
def oracle_element(case, out):
    """case = {kind:'serialise', dep, indent [, mode, args, markup, via, twice]}; out = safe_call result of
    ser_run(case)."""
    if out[0] != "ok":
        return (f"valid input raised {out[1]} (serialize_to_script_json().get_html_string())", None)
    e = out[1]
    if not isinstance(e, str):
        return (W_PARSER, f"the element's markup is a {type(e).__name__}, not a str")
    # the original, built and read in the default mode: name, version, source, script, stylesheet, meta,
    # all_files, and the head's markup
    want = dep_canon(build_dep(case["dep"]))
    if not (e.startswith(OPEN_TAG) and e.endswith(CLOSE_TAG) and len(e) >= len(OPEN_TAG) + len(CLOSE_TAG)):
        return (W_PARSER, "element is not OPEN_TAG + payload + </script>")
    payload = e[len(OPEN_TAG):len(e) - len(CLOSE_TAG)]
    try:
        got = dep_canon(dep_from_payload(payload))
    except Exception as ex:  # noqa: BLE001
        got = f"{type(ex).__name__}: {ex}"
    if got != want:
        return (W_JSON, {"reconstructed": got, "original": want})
    # an equal dependency has the same serialised form (the same fields, serialised the same way)
    again = safe_call(lambda: ser_dep(dep_from_payload(payload), case)[0])
    if again != ("ok", e):
        return (W_AGAIN, {"first": e, "second": again})
    if spec_has_close_tag(payload):
        i = ascii_lower(payload).find("</script")
        return (W_CLOSE, {"at": i, "context": payload[max(0, i - 12):i + 14]})
    ev = tokenize(e)
    ok = (len(ev) == 3 and ev[0] == ("start", "script", [("type", "application/json"), ("data-html-dependency", "")])
          and ev[1] == ("data", payload) and ev[2] == ("end", "script"))
    if not ok:
        if PARSER_DEVIATION.search(payload):
            # html.parser 3.12 ends a script at  </ \s* script \s* >  matched with Unicode case folding;
            # the HTML standard (and the statement) at  </script  in ASCII letter cases only.  A difference
            # that can only come from there is html.parser's, not the serialiser's.
            return ("html.parser-only", None)
        return (W_PARSER, {"events": [list(x) for x in ev[:4]]})
    return None


def make_doc(case):
    """case = {kind:'doc', pool:[dep desc], items:[(pool index, indent)], texts:[...]}"""
    sers = []
    for i, ind in case["items"]:
        sers.append(build_dep(case["pool"][i]).serialize_to_script_json(indent=ind).get_html_string())
    doc = case["texts"][0]
    for s, t in zip(sers, case["texts"][1:]):
        doc += s + t
    return doc, sers


def doc_expected(case):
    doc, sers = make_doc(case)
    order = spec_first_occurrences(sers)
    origin = {}
    for (i, _ind), s in zip(case["items"], sers):
        origin.setdefault(s, i)
    return doc, ("".join(case["texts"]), [dep_canon(build_dep(case["pool"][origin[s]])) for s in order])


def absent_placeholder(doc: str) -> str:
    k = 0
    while f"\x00no such placeholder {k}\x00" in doc:
        k += 1
    return f"\x00no such placeholder {k}\x00"


def run_extract(doc, public: bool = False):
    """(remaining text, recovered dependencies): by the static helper the statement's anchor names when the
    class has it, else (or when asked) by the public route -- a document whose placeholder does not occur"""
    def f():
        st = getattr(HTMLTextDocument, "_static_extract_serialized_html_deps", None)
        if st is not None and not public:
            html, deps = st(doc)
        else:
            r = htmltools.HTMLTextDocument(doc, deps_replace_pattern=absent_placeholder(doc)).render()
            html, deps = r["html"], r["dependencies"]
        return (html, [dep_canon(d) for d in deps])
    return safe_call(f)


def listing_and_tags_markup(deps, lib_prefix, include_version) -> str:
    """what HTMLDocument puts in <head> after its charset meta, for this dependency list
    (names must be distinct so that HTMLDocument's resolution leaves the list alone)"""
    html = HTMLDocument(TagList(*deps)).render(lib_prefix=lib_prefix, include_version=include_version)["html"]
    return head_after_charset(html)


HEAD_OPEN = re.compile(r'<!DOCTYPE html>\n<html( [^\n]*)?>\n  <head>\n    <meta charset="utf-8"/>')


def head_after_charset(html: str, after: str | None = None) -> str:
    """what HTMLDocument put into <head> after its charset meta -- when the document had a <head> of its own:
    after the first occurrence of `after` (the placeholder that head holds)"""
    m = HEAD_OPEN.match(html)
    assert m, html[:80]
    # the real end of <head>: the line that is followed by <body at the same depth (hostile
    # content nested in head or body is indented deeper, so it cannot produce this text)
    j = html.rindex("\n  </head>\n  <body")
    body = html[m.end():j]
    if after is not None:
        body = body[body.index(after) + len(after):]
    return body[1:] if body.startswith("\n") else body


def norm_strict(s: str) -> str:
    return "\n".join(line.lstrip(" ") for line in s.split("\n"))


def norm_lenient(s: str) -> str:
    """every character other than the spaces and line feeds layout consists of, in order"""
    return re.sub(r"[ \n]+", "", s)


class JsonMode:
    def __enter__(self):
        self.old = htmltools.html_dependency_render_mode
        htmltools.html_dependency_render_mode = "json"

    def __exit__(self, *a):
        htmltools.html_dependency_render_mode = "invisible"


# ------------------------------------------------------------------------------------------
class Batch:
    """all model inputs of a run, evaluated by ONE run_model invocation (each invocation takes
    the build lock, runs make and spawns the driver processes)"""

    def __init__(self):
        self.sx: list = []
        self.groups: dict[str, tuple[int, int]] = {}
        self.out: list = []

    def add(self, name: str, sxs: list) -> None:
        self.groups[name] = (len(self.sx), len(sxs))
        self.sx += sxs

    def run(self) -> None:
        # one invocation in the quick tier; the thorough tier is cut into a few slices to bound the
        # size of the text handed to the driver processes.  Equal inputs (the same dependency serialised in
        # several ways has ONE expected element) are evaluated once.
        index, uniq, where = {}, [], []
        for x in self.sx:
            k = repr(x)
            if k not in index:
                index[k] = len(uniq)
                uniq.append(x)
            where.append(index[k])
        res = []
        step = 80000
        for a in range(0, len(uniq), step):
            res += run_model(uniq[a:a + step], nproc=8, driver="c13")
        self.out = [res[i] for i in where]

    def get(self, name: str) -> list:
        a, n = self.groups[name]
        return self.out[a:a + n]


def diff(ctx: Ctx, name, cases, model_out, impl, decode, oracle=None,
         nontrivial=lambda c: True, kind=lambda c: None) -> None:
    """common.differential without its own run_model call"""
    dis = []
    for c, m in zip(cases, model_out):
        ctx.count(c, nontrivial(c), kind(c))
        iv = impl(c)
        if oracle is not None:
            oracle(c, iv)
        mv = ("!", m[1]) if isinstance(m, tuple) else decode(m)
        if mv != iv:
            dis.append({"case": c, "impl_output": iv, "model_output": mv})
    ctx.corr_cases += len(cases)
    ctx.obligation(f"correspondence {name} ({len(cases)} cases)", not dis)
    if dis:
        dis.sort(key=lambda d: len(canon(d["case"])))
        ctx.extra.setdefault("disagreements", []).extend(dis[:3])
        ctx.extra[f"disagree_{name}"] = dis[:3]


def nontriv_s(s: str) -> bool:
    return any(c in '"\\<' or ord(c) < 32 or ord(c) > 126 for c in s)


def py_loads(l):
    try:
        v = json.loads(l)
    except (json.JSONDecodeError, RecursionError):
        return None
    return v if isinstance(v, str) else ["not a str"]


def py_scan(text):
    try:
        v, end = json.decoder.scanstring(text, 1)
    except (json.JSONDecodeError, RecursionError):
        return None
    return (v, text[end:])


def py_raw_decode(text):
    try:
        v, end = json.JSONDecoder().raw_decode(text)
    except (json.JSONDecodeError, RecursionError):
        return None
    if not isinstance(v, dict) or not all(isinstance(x, str) for x in v.values()):
        return None
    return (v, text[end:])


def py_raw_decode_list(text):
    try:
        v, end = json.JSONDecoder().raw_decode(text)
    except (json.JSONDecodeError, RecursionError):
        return None
    if not isinstance(v, list) or not all(isinstance(o, dict) and all(isinstance(x, str) for x in o.values()) for o in v):
        return None
    return (v, text[end:])


def decode_extract(m):
    return safe_call(lambda: (unS(m[0]), [dep_canon(dep_from_payload(unS(p))) for p in m[1]]))


W_EXTRA = "render() changed the dependency objects the caller passed in (a read-only call modified its argument)"


def ren_variant(rng, case: dict) -> dict:
    """the same document through other arguments: positional construction, render() with its defaults, json
    render mode around the whole, a second render() with other arguments on the same document"""
    if rng.random() < 0.25:
        case["args"] = "pos"
    if rng.random() < 0.2:
        case["defaults"] = True
        case["lib_prefix"], case["include_version"] = "lib", True
    if rng.random() < 0.3:
        case["mode"] = "json"
    if rng.random() < 0.3:
        case["calls"] = [[rng.choice(LIB_PREFIXES), rng.random() < 0.5] for _ in range(rng.choice([1, 1, 2]))]
    return case


def render_calls(case) -> list:
    """the render() calls made on the case's ONE document: (lib_prefix, include_version) each"""
    return [[case["lib_prefix"], case["include_version"]]] + [list(c) for c in case.get("calls", [])]


def render_run(case):
    """(safe_call result: one (html, dependencies) per render() call, serialised elements of the document)"""
    doc, sers = make_doc(case)
    extra = [build_dep(d) for d in case["extra"]]

    def f():
        before = copy.deepcopy([dep_canon(d) for d in extra])
        outs = []
        with Mode(case.get("mode")):
            if case.get("args") == "pos":
                td = HTMLTextDocument(doc, list(extra) if extra else None, case["ph"])
            else:
                td = HTMLTextDocument(doc, deps=list(extra) if extra else None, deps_replace_pattern=case["ph"])
            for lp, iv in render_calls(case):
                if case.get("defaults") and lp == "lib" and iv is True:
                    r = td.render()
                else:
                    r = td.render(lib_prefix=lp, include_version=iv)
                outs.append((r["html"], copy.deepcopy([dep_canon(d) for d in r["dependencies"]])))
                # the caller does what it likes with a result: the document's next render() is judged like
                # its first
                for d in r["dependencies"]:
                    d.name = d.name + "~changed"
                    d.script.append({"src": "changed.js"})
                    d.meta.clear()
                    d.head = None
                r["dependencies"].clear()
                r["html"] = ""
        if before != [dep_canon(d) for d in extra]:
            _NOTES.append((W_EXTRA, case, {"impl_output": [dep_canon(d) for d in extra], "expected": before}))
        return outs
    return safe_call(f), sers


def render_expect(case, sers):
    """(remaining text, dependency list, one markup per render() call or None)"""
    origin = {}
    for (i, _ind), s in zip(case["items"], sers):
        origin.setdefault(s, i)
    deps = [build_dep(d) for d in case["extra"]] + \
           [build_dep(case["pool"][origin[s]]) for s in spec_first_occurrences(sers)]
    names = [d.name for d in deps]
    markups = None
    if len(set(names)) == len(names):
        memo = {}
        for lp, iv in render_calls(case):
            if (lp, iv) not in memo:
                memo[(lp, iv)] = listing_and_tags_markup(deps, lp, iv)
        markups = [memo[(lp, iv)] for lp, iv in render_calls(case)]
    return "".join(case["texts"]), deps, markups


def judge_render(ph: str, res, remaining: str, want_deps: list, markup):
    """one render() result (html, dependencies) against the statement: exactly the first occurrence of the
    placeholder in the text left after extraction is replaced, by the markup HTMLDocument would put in <head>;
    everything else is untouched.  -> 'strict' | 'lenient' | 'absent' | 'unjudged markup' | None (wrong)"""
    html, got_deps = res
    if got_deps != want_deps or not isinstance(html, str):
        return None
    i = remaining.find(ph)
    if i < 0:
        return "absent" if html == remaining else None
    before, after = remaining[:i], remaining[i + len(ph):]
    if not (html.startswith(before) and html.endswith(after) and len(html) >= len(before) + len(after)):
        return None
    if markup is None:
        return "unjudged markup"
    mid = html[len(before):len(html) - len(after)]
    if norm_strict(mid) == norm_strict(markup):
        return "strict"
    if norm_lenient(mid) == norm_lenient(markup):
        return "lenient"
    return None


def code_markup(deps, case):
    tl = TagList()
    if deps:
        tl.append(Tag("script", ";".join(d.name + "[" + str(d.version) + "]" for d in deps),
                      type="application/html-dependencies"))
    tl.extend([d.as_html_tags(lib_prefix=case["lib_prefix"], include_version=case["include_version"]) for d in deps])
    return tl.render()["html"]


def run(ctx: Ctx) -> None:
    rng = ctx.rng
    ctx.rule = (
        "strings: code points one at a time (quick: all below 0x500, the blocks around U+2028, the surrogate "
        "borders and U+FFxx, plus random scalar values; thorough: all 1 112 064 scalar values) and hostile strings "
        "drawn from fragments (quotes, backslashes, newlines, controls, "
        "non-ASCII, astral, '</script' in all 64 letter cases with 9 tails, '<!--', '<script>', the opening "
        "tag literal, placeholders); dependencies: random records with such strings in name, source, script / "
        "stylesheet / meta entries and head (given as a plain str / str subclass, HTML(), a self-rendering object, a "
        "Tag, a TagList / list / tuple / nested TagList of text, HTML() and Tag children; markup with leading / "
        "trailing / only / no whitespace of 16 kinds incl. CR LF, form feed, NBSP, U+2028, indentation; empty "
        "markup; every such form x every way of giving a head enumerated), script / stylesheet / meta given as a "
        "list, one record or None, version as str or Version, serialised with indent in "
        "{None,0,1,2,3,4,8}, after the corpus (the '</SCRIPT>' family of fixed finding F3); documents: 0-6 serialised "
        "copies of 1-3 dependencies (duplicates, different indents) "
        "interleaved with hostile text free of the opening tag; placeholders occurring 0-3 times, also "
        "overlapping and empty; pipelines: random tag trees holding dependencies rendered in json mode and "
        "directly; backslash-bearing strings (doubled backslash, backslash-n as two characters, group references, "
        "backslash-d, a Windows path, a trailing backslash) in names, attribute / meta values and head markup of "
        "every scenario, hand-written for render and pipeline. "
        "WIDENED (see the list of entry points at the top of harness/props/C13.py): heads holding other dependencies "
        "(directly, inside tags, up to 17 levels, made by head_content()); every scenario in the default and in the json "
        "render mode (around the call / also while building); indent positional and up to 300; copies of dependencies; "
        "four ways of taking the element's markup; serialising twice with the caller changing the first result; sizes "
        "7..300 around the powers of two for script / stylesheet / meta items, attributes, head children, nested "
        "dependencies, serialised copies, dependencies per document / tree, placeholder occurrences, render() calls on one "
        "document, depth up to 70 for head tags / lists / tuples / TagLists and the tree around a dependency, strings of "
        "300 / 5000 / 70 001 / 300 017 characters with the hostile part at the 256 / 4 KiB / 64 KiB seams and in the tail; "
        "placeholders with regex metacharacters, each with a decoy a regex reading would match earlier; extraction by the "
        "static helper and by the public route; render() with defaults / positional construction / several calls with "
        "different arguments and the caller changing the returned objects in between; sequences of documents in one "
        "process; pipelines through str / repr / _repr_html_ / format / f-string / %s, over a tag, a TagList, an <html> tag "
        "with its own head, a lone <body>, a with-block, copies, a JSX component, tagifiable self-rendering objects, the "
        "same dependency at two places, wide / deep trees. Non-trivial = contains at least one of quote, backslash, '<', control or non-ASCII character "
        "(strings) / at least one serialised copy (documents); distinct = distinct canonical inputs.")
    ctx.assumptions = [
        "the extracted OCaml model behaves as the Gallina model (ExtrOcamlBasic only)",
        "json.dumps/json.loads object structure and the re engine are trusted: modelled at string-literal level "
        "(json) and as repeated first-occurrence search (re), and checked differentially here",
        "Python's html.parser is used as a second HTML tokenizer next to the statement's own '</script' test",
        "strings are sequences of Unicode scalar values (no lone surrogates)",
    ]
    _EXC.clear()
    pr = ctx.proof()

    # T1 at full strength is the theorem C13_no_close_tag_status : C13_T1_holds (the file can only say
    # C13_T1_refuted, and compile, if the replace literals regress to a form that lets a close tag through)
    with open(os.path.join(VERIF, "coq", "Properties", "C13.v"), encoding="utf-8") as f:
        m = re.search(r"^Theorem C13_no_close_tag_status : (\w+)\.", f.read(), re.M)
    status = m.group(1) if m else "?"
    ctx.extra["T1_status_claimed"] = status
    ctx.obligation("theorem C13_no_close_tag (T1 at full strength: for every string s, neutralise s holds no "
                   "'</script' in any letter case) -- Properties/C13.v claims " + status,
                   bool(pr["ok"]) and status == "C13_T1_holds")

    # =========================================================================================
    # generate every input; the model is run once on all of them
    # =========================================================================================
    batch = Batch()
    batch.add("tables", [[7]])
    pr0 = safe_call(lambda: HTMLDependency("p", "1").serialize_to_script_json().get_html_string())
    if pr0[0] != "ok":
        record_exc(ctx, "serialize_to_script_json()", {"kind": "serialise", "dep": simple_dep("name", "p"), "indent": None}, pr0)
    probe = pr0[1] if pr0[0] == "ok" else ""
    lk = safe_call(lambda: list(json.loads(probe[len(OPEN_TAG):-len(CLOSE_TAG)]).keys()))
    live_keys = lk[1] if probe.startswith(OPEN_TAG) and lk[0] == "ok" else []

    # An implementation that has become drastically slower (state piling up from call to call, a quadratic
    # path) must not keep the check busy for hours: past this much CPU time the remaining cases of a step are
    # dropped and the step counts as not done (the unchanged tree needs about a tenth of it).
    cpu0, cpu_limit, cut = time.process_time(), (240 if ctx.quick else 7200), []

    def over_time(stage, done, total) -> bool:
        if time.process_time() - cpu0 <= cpu_limit:
            return False
        if stage not in cut:
            cut.append(stage)
            ctx.obligation(f"{stage}: all {total} cases evaluated (stopped after {done}: more than {cpu_limit} s of CPU "
                           "time used, the implementation is far slower than the unchanged one)", False)
        return True

    def precompute(stage, cases, f):
        """f(case) runs implementation code to prepare a case; a case on which it raises is reported
        (valid input raised ...) and left out of what follows"""
        kept, vals = [], []
        for k, c in enumerate(cases):
            if over_time(stage, k, len(cases)):
                break
            r = safe_call(f, c)
            if r[0] == "ok":
                kept.append(c)
                vals.append(r[1])
            else:
                ctx.count(c, True, "input on which the implementation raised")
                record_exc(ctx, stage, c, r)
        return kept, vals

    # ---- B1: json.dumps(str) ------------------------------------------------------------------
    if ctx.quick:
        cps = list(range(0, 0x500)) + list(range(0x2000, 0x2070)) + list(range(0xD7C0, 0xD800)) + \
              list(range(0xE000, 0xE020)) + list(range(0xFF00, 0x10000)) + list(range(0x10000, 0x10020)) + \
              list(range(0x10FFE0, 0x110000))
        strs = [chr(c) for c in cps] + [trees.rand_char(rng) for _ in range(1200)]
    else:
        strs = [chr(c) for c in range(0, 0x3000) if not 0xD800 <= c <= 0xDFFF]
        cps = [c for c in range(0x3000, 0x110000) if not 0xD800 <= c <= 0xDFFF]
        for i in range(0, len(cps), 64):
            strs.append("".join(chr(c) for c in cps[i:i + 64]))
    strs += [hostile(rng, 5) for _ in range(ctx.budget(1500, 40000))]
    alpha = '</\\"sS>'
    for n in range(0, ctx.budget(3, 5) + 1):
        strs += ["".join(t) for t in itertools.product(alpha, repeat=n)]
    strs += ["퟿", "\U00010000\U0010ffff", "\x7f\x80\xa0"]
    # long strings: what needs escaping sits across the 256 / 4 KiB / 64 KiB seams and in the tail
    strs += [long_string(rng, n, hot) for n in STRLENS for hot in ('"', "\\", "</script>", "\x1f\U0001F600\u2028")]
    batch.add("enc", [[2, S(s)] for s in strs])

    # ---- B2: json.loads(literal), incl. neutralised literals and malformed ones -------------------
    lits = []
    for k, s in enumerate(strs[-ctx.budget(1500, 30000):]):
        d = json.dumps(s)
        lits.append(d.replace("</", "<\\/") if k % 3 else d.replace("</script>", "<\\/script>"))
    lits += [json.dumps(s, ensure_ascii=False) for s in strs[-ctx.budget(500, 1500):]]
    lfr = ['\\u', 'd83d', '\\ude00', 'D800', 'dc00', '\\', '"', '/', 'x', '\\ud83d\\ude00', '\\ud800',
           '\\udc00', '\\u00e9', '\\n', '\\/', '<\\/', '\\u12', 'G', '\x01', 'é', '\\b', '\\f', '\\r', '\\t',
           '\\x', '\\U0001', ' ', '\n', '\\u00E9', '\\uD83D\\uDE00', '\\ud83d\\u0041', '\\ud83d\\ud83d\\ude00']
    for _ in range(ctx.budget(2500, 60000)):
        lits.append('"' + "".join(rng.choice(lfr) for _ in range(rng.randrange(0, 6))) + '"')
    lits += ['"', '""', '"\\', '"\\u', '"\\u00', '"\\ud83d\\ude0', '"\\ud83d\\ude00', 'x', '', '"a"b"']
    batch.add("dec", [[3, S(s)] for s in lits])
    # ---- B2': json.decoder.scanstring at an opening quote, with arbitrary text after the literal ---
    tails = ['', ': "v"}', ', "k": null}', '</script>', '"', '\\', ' ', '<\\/a', ']', '\n  "next": "<\\/script>"']
    scans = [l + rng.choice(tails) for l in lits[::max(1, len(lits) // ctx.budget(1500, 20000))] if l.startswith('"')]
    scans += ['"' + "".join(rng.choice(lfr) for _ in range(rng.randrange(0, 5))) + '"' + hostile(rng, 3)
              for _ in range(ctx.budget(800, 20000))]
    batch.add("scan", [[10, S(s)] for s in scans])
    # ---- B2'': flat objects of string values: json.dumps, and raw_decode of what it wrote (neutralised, with tails)
    pool = strs[-ctx.budget(3000, 30000):]
    objs = [[(rng.choice(pool), rng.choice(pool)) for _ in range(rng.choice([0, 1, 1, 2, 3, 5, 9]))]
            for _ in range(ctx.budget(1200, 20000))]
    objs = [o for o in objs if len({k for k, _ in o}) == len(o)]
    batch.add("objenc", [[11, [[S(k), S(v)] for k, v in o]] for o in objs])
    otexts = []
    for k, o in enumerate(objs):
        d = json.dumps(dict(o))
        d = d.replace("</", "<\\/") if k % 3 else d
        otexts.append(d + rng.choice(tails))
    otexts += [t[:rng.randrange(0, len(t) + 1)] for t in otexts[:ctx.budget(300, 3000)]]       # truncated: errors
    otexts += ['{}', '{', '{"a"}', '{"a": }', '{"a": "b",}', '{"a": "b", }', '{"a": "b"', '{"a":"b"}', '']
    batch.add("objdec", [[12, S(t)] for t in otexts])
    # ---- B2 (lists): lists of flat objects (script / stylesheet / meta as as_dict() hands them to json.dumps)
    olists = [[rng.choice(objs) for _ in range(rng.choice([0, 1, 1, 2, 3, 6]))] for _ in range(ctx.budget(600, 10000))] if objs else []
    batch.add("olenc", [[13, [[[S(k), S(v)] for k, v in o] for o in ol]] for ol in olists])
    oltexts = []
    for k, ol in enumerate(olists):
        d = json.dumps([dict(o) for o in ol])
        d = d.replace("</", "<\\/") if k % 3 else d
        oltexts.append(d + rng.choice(tails))
    oltexts += [t[:rng.randrange(0, len(t) + 1)] for t in oltexts[:ctx.budget(200, 2000)]]
    oltexts += ['[]', '[', '[{}', '[{},]', '[{}, ]', '[{},{}]', '[{}, {}]', '[[]]', ""]
    batch.add("oldec", [[14, S(t)] for t in oltexts])

    # ---- the Coq specification functions used as oracles ---------------------------------------
    probes = [hostile(rng, 4) for _ in range(ctx.budget(500, 10000))] + \
             ["</" + v + t for v in case_variants("script") for t in ("", ">", " >")]
    batch.add("hct", [[6, S(s)] for s in probes])
    ul = [[rng.choice(["a", "b", "", "ab", "a "]) for _ in range(rng.randrange(0, 7))] for _ in range(300)]
    batch.add("uniq", [[9, [S(s) for s in l]] for l in ul])

    # ---- B/C 1: the serialised element ---------------------------------------------------------
    ser_cases = []
    cdir = os.path.join(VERIF, "corpus", "C13")
    for fn in sorted(os.listdir(cdir)) if os.path.isdir(cdir) else []:
        if fn.endswith(".json"):
            with open(os.path.join(cdir, fn), encoding="utf-8") as f:
                ser_cases += [c for c in json.load(f)["cases"] if c.get("kind") == "serialise"]
    n_corpus = len(ser_cases)
    for v in case_variants("script"):
        for t in CLOSE_TAILS:
            f = SIMPLE_FIELDS[(len(ser_cases)) % len(SIMPLE_FIELDS)]
            ser_cases.append({"kind": "serialise", "dep": simple_dep(f, "x</" + v + t + "y"), "indent": None})
    for f in SIMPLE_FIELDS:
        for s in FRAGS:
            ser_cases.append({"kind": "serialise", "dep": simple_dep(f, s), "indent": rng.choice(INDENTS)})
    # edge whitespace in every field, and every way of giving a head x every edge-whitespace form
    for f in SIMPLE_FIELDS:
        for ws in HEAD_WS:
            ser_cases.append({"kind": "serialise", "dep": simple_dep(f, ws + "x" + ws), "indent": rng.choice(INDENTS)})
    for hd in head_family():
        d = simple_dep("name", "a")
        d["head"] = hd
        ser_cases.append({"kind": "serialise", "dep": d, "indent": rng.choice(INDENTS)})
    for _ in range(ctx.budget(800, 25000)):
        ser_cases.append({"kind": "serialise", "dep": rand_dep(rng), "indent": rng.choice(INDENTS)})
    # every way of serialising (render mode, positional indent, copies, markup routes, twice) over the above
    for c in ser_cases[n_corpus:]:
        ser_variant(rng, c)
    # heads that hold other dependencies, in both render modes, in every wrap
    for wrap in HEAD_WRAPS:
        for inner_head in (None, ["html", "<title>i</title>"], ["kids", "taglist", [("D", tiny_dep(INNER + "2", script=[{"src": "j.js"}]))]]):
            inner = tiny_dep(INNER + "1", source={"href": "https://cdn/x"}, script=[{"src": "i.js"}], head=inner_head)
            for kids in ([("D", inner)], [TITLE, ("D", inner)], [("W", "link", False, [("D", inner)])],
                         [("H", " "), ("W", "div", True, [("T", "x"), ("D", inner), TITLE]), ("D", inner)]):
                for mode in (None, "json", "json-build"):
                    ser_cases.append({"kind": "serialise", "dep": tiny_dep("outer", head=["kids", wrap, kids]),
                                      "indent": rng.choice(INDENTS), "mode": mode})
            for mode in (None, "json"):
                ser_cases.append({"kind": "serialise", "dep": {"head_content": [("G", "meta", False, [("name", ("S", "k"))], []), ("D", inner)]},
                                  "indent": rng.choice(INDENTS), "mode": mode})
    # sizes and depths (the content that matters in the last member / deepest level / tail), each in the
    # default and in the json render mode; large indents
    n_sized = 0
    for what, d in sized_deps(rng, SIZES, DEPTHS, DEP_DEPTHS, STRLENS if ctx.quick else STRLENS + [65536, 65537]):
        for mode in (None, "json"):
            n_sized += 1
            c = {"kind": "serialise", "dep": d, "indent": rng.choice(INDENTS + BIG_INDENTS[:3]), "mode": mode, "size": what}
            if rng.random() < 0.3:
                ser_variant(rng, c, mode)
            ser_cases.append(c)
    for ind in BIG_INDENTS + [-1]:
        ser_cases.append(ser_variant(rng, {"kind": "serialise", "dep": rand_dep(rng), "indent": ind}))
        ser_cases.append({"kind": "serialise", "indent": ind,
                          "dep": tiny_dep("a", script=[{"src": "x</script >"}], meta=[{"name": "n", "content": "c"}], head=["html", " <!--x--> "])})
    ctx.extra["sized_serialise_cases"] = n_sized
    if not ctx.quick:
        for n in range(0, 5):
            for t in itertools.product('</\\"sS>', repeat=n):
                ser_cases.append({"kind": "serialise", "dep": simple_dep("name", "".join(t) + "cript>"), "indent": None})

    def dumps_of(case):
        # what the code hands to json.dumps: the dependency's fields in the live key order (that the
        # regenerated key list is this order is an obligation below)
        dep = build_dep(case["dep"])
        vals = dep_canon(dep)
        vals["head"] = TagList(dep.head).get_html_string() if dep.head is not None else None
        return json.dumps({k: vals[k] for k in live_keys}, indent=case["indent"])

    ser_cases, ser_dumps = precompute("building the dependency / rendering its head", ser_cases, dumps_of)
    batch.add("ser", [[8, S(d)] for d in ser_dumps])

    # ---- B/C 2: extraction from documents -------------------------------------------------------
    def rand_text_noopen():
        s = hostile(rng, 3) if rng.random() < 0.8 else ""
        return s.replace(OPEN_TAG, "<script>")

    doc_cases = []
    for _ in range(ctx.budget(600, 15000)):
        pool = [rand_dep(rng) for _ in range(rng.choice([1, 1, 2, 3]))]
        n = rng.choice([0, 1, 2, 2, 3, 4, 6])
        items = [(rng.randrange(len(pool)), rng.choice(INDENTS)) for _ in range(n)]
        doc_cases.append({"kind": "doc", "pool": pool, "items": items,
                          "texts": [rand_text_noopen() for _ in range(n + 1)]})
    # sizes: many serialised copies -- all distinct; one dependency over and over and a new one LAST; a repeat
    # of the first one LAST --, long text between the copies, a long payload
    for n in (SIZES if not ctx.quick else sorted(rng.sample(SIZES[:-1], 7)) + [300]):
        hot = rng.choice(HOT).replace(OPEN_TAG, "<script>")
        pool = [tiny_dep(f"d{i}", script=[{"src": f"s{i}.js"}]) for i in range(n - 1)] + \
               [tiny_dep("last", meta=[{"name": "n", "content": "x" + hot}], head=["html", hot + " "])]
        ind = rng.choice(INDENTS)
        for what, items in (("distinct", [(i, ind) for i in range(n)]),
                            ("new one last", [(0, ind)] * (n - 1) + [(n - 1, ind)]),
                            ("repeat last", [(i, ind) for i in range(n - 1)] + [(0, ind)]),
                            ("other serialisation of the first one last", [(i % 3, None) for i in range(n - 1)] + [(0, 2)])):
            doc_cases.append({"kind": "doc", "pool": pool, "items": items, "size": f"{n} copies, {what}",
                              "texts": [rng.choice(["", "\n", "<p>t</p>", hot]) for _ in range(n)] + ["tail" + hot]})
    for n in STRLENS[1:]:
        pool = [simple_dep("head", long_string(rng, 5000)), rand_dep(rng)]
        doc_cases.append({"kind": "doc", "pool": pool, "items": [(0, None), (1, 2), (0, None), (0, 4)], "size": f"texts of {n} characters",
                          "texts": [long_string(rng, n, "<script"), "", long_string(rng, n, "</script>"), "\n", long_string(rng, n, OPEN_TAG[:-1])]})
    doc_cases, doc_exp = precompute("serialize_to_script_json() while assembling the document", doc_cases,
                                    doc_expected)                 # (document, (remaining, deps))
    batch.add("doc", [[4, S(d)] for d, _ in doc_exp])
    # malformed stream (correspondence only: unterminated openers, stray closers, payloads that are
    # not JSON / not dependency records)
    pieces = [OPEN_TAG, CLOSE_TAG, "<script", "</script", "x", "\n", "\r", '{"a":1}', "[1]", "<", ">",
              OPEN_TAG[:-1], "é", '{"name":"n","version":"1"}', "{", '"s"', "null"]
    mal = ["".join(rng.choice(pieces) for _ in range(rng.randrange(0, 12))) for _ in range(ctx.budget(500, 20000))]
    batch.add("mal", [[4, S(d)] for d in mal])

    # ---- B/C 3: render(): first occurrence of the placeholder only --------------------------------
    PHS = ['<meta data-foo="">', "##", "{{deps}}", "", "</head>", "<!-- deps -->", "a", "\n", "#"]
    # placeholders that mean something else to a regular-expression engine (the placeholder is literal text),
    # each with a text that such a reading would match and that comes BEFORE the first real occurrence
    PH_META = [("a.b", "aXb"), ("<!--deps.here-->", "<!--deps-here-->"), ("<!-- deps? -->", "<!-- dep -->"),
               ("<!-- css|js -->", "<!-- js -->"), ("[[deps]]", "d"), ("x*", "xx"), ("(deps)", "deps"), ("^deps", "deps"),
               ("deps$", "deps"), ("\\d", "5"), ("d{2}", "dd"), ("(?i)deps", "DEPS"), ("<!-- (deps -->", "t"), ("$deps$", "t"),
               ("<?deps*?>", "<deps>"), ("<!-- \\deps -->", "t"), ("[", "t"), ("dep+s", "depps"), ("\\1", "t"), (".", "t")]
    ren_cases = []
    for _ in range(ctx.budget(450, 10000)):
        ph = rng.choice(PHS) if rng.random() < 0.85 else (hostile(rng, 1).replace(OPEN_TAG, "") or "#")
        k = rng.choice([0, 1, 1, 3, 3, 2])
        nd = rng.choice([0, 1, 1, 2, 3])
        pool = [rand_dep(rng, renderable=True, name=f"{rng.choice(TAME)}{i}" if rng.random() < 0.6 else None)
                for i in range(nd)]
        items = [(i, rng.choice([None, 2])) for i in range(nd)]
        if nd and rng.random() < 0.3:
            items.append((0, items[0][1]))            # the same serialisation twice
        if nd and rng.random() < 0.15:
            items.append((0, 4))                      # the same dependency, another serialisation
        rng.shuffle(items)
        texts = [rand_text_noopen() for _ in range(len(items) + 1)]
        for _ in range(k):
            j = rng.randrange(len(texts))
            cut = rng.randrange(len(texts[j]) + 1)
            texts[j] = texts[j][:cut] + ph + texts[j][cut:]
        texts = [t.replace(OPEN_TAG, "<script>") for t in texts]
        # dependencies handed to the constructor: own names, or (half of them) the NAME of a dependency that the text
        # also embeds, with other content / version: both are kept, supplied ones first
        extra = []
        if rng.random() < 0.3:
            nm = pool[0].get("name") if pool and rng.random() < 0.5 else None
            extra = [rand_dep(rng, renderable=True, name=nm or f"extra{rng.randrange(3)}")]
        case = {"kind": "render", "ph": ph, "pool": pool, "items": items, "texts": texts, "extra": extra,
                "lib_prefix": rng.choice(LIB_PREFIXES), "include_version": rng.random() < 0.7}
        if len(ren_cases) > 60:
            ren_variant(rng, case)
        ren_cases.append(case)
    for ph, decoy in PH_META:
        for k in (1, 3):
            pool = [rand_dep(rng, renderable=True, name=f"n{i}") for i in range(2)]
            ren_cases.append(ren_variant(rng, {
                "kind": "render", "ph": ph, "pool": pool, "items": [(0, None), (1, 2), (0, None)],
                "texts": ["<html><head>" + decoy, "<title>" + decoy + "</title>" + ph, "</head><body>" + decoy, (ph + "<p>more</p>") * (k - 1) + "</body></html>"],
                "extra": [], "lib_prefix": rng.choice(LIB_PREFIXES), "include_version": k == 1}))
    # sizes: many dependencies (the one that needs care last), many occurrences of the placeholder, the first
    # occurrence far into the text, a long placeholder, many render() calls on one document
    for n in (SIZES if not ctx.quick else sorted(rng.sample(SIZES[:-1], 4)) + [300]):
        hot = rng.choice(HOT).replace(OPEN_TAG, "<script>")
        pool = [tiny_dep(f"d{i}", source={"subdir": "d3"}, script=[{"src": f"s{i}.js"}]) for i in range(n - 1)] + \
               [tiny_dep("last", source={"href": "u" + hot}, meta=[{"name": "n", "content": "x" + hot}],
                         stylesheet=[{"href": "l.css"}], head=["html", hot + " "])]
        ren_cases.append(ren_variant(rng, {
            "kind": "render", "ph": "{{deps}}", "pool": pool, "items": [(i, None) for i in range(n)], "size": f"{n} dependencies",
            "texts": ["<head>{{deps}}</head>"] + [""] * (n - 1) + ["{{deps}}"], "extra": [],
            "lib_prefix": rng.choice(LIB_PREFIXES), "include_version": rng.random() < 0.5}))
        ph = rng.choice(["##", "{{deps}}", "aa", "<!-- deps -->"])
        ren_cases.append(ren_variant(rng, {
            "kind": "render", "ph": ph, "pool": pool[-2:], "items": [(0, None), (1, None)], "size": f"{n} placeholder occurrences",
            "texts": ["<p>", ph * (n // 2) + "x", ("y" + ph) * (n - n // 2)], "extra": [], "lib_prefix": "lib", "include_version": True}))
    for n in STRLENS:
        pool = [rand_dep(rng, renderable=True, name=f"n{i}") for i in range(2)]
        ren_cases.append(ren_variant(rng, {
            "kind": "render", "ph": "{{deps}}", "pool": pool, "items": [(0, None), (1, 2)], "size": f"first placeholder after {n} characters",
            "texts": [long_string(rng, n, "{{deps}"), long_string(rng, n, "{deps}}") + "{{deps}}", "{{deps}}" + long_string(rng, 300, "{{deps}}")],
            "extra": [], "lib_prefix": "lib", "include_version": True}))
        ph = ("<!-- " + " ".join(str(i * 7919) for i in range(n // 4)))[:n - 5] + "(?) -->"
        ren_cases.append(ren_variant(rng, {
            "kind": "render", "ph": ph, "pool": pool, "items": [(0, None), (1, 2)], "size": f"placeholder of {n} characters",
            "texts": [ph[:-1], ph[1:] + ph, "x" + ph], "extra": [], "lib_prefix": "lib", "include_version": True}))
    for n in sorted(rng.sample(SIZES[:12], ctx.budget(2, 6))) + [300]:
        pool = [rand_dep(rng, renderable=True, name=f"n{i}") for i in range(2)] if n < 300 else [tiny_dep("t", script=[{"src": "t.js"}])]
        ren_cases.append({"kind": "render", "ph": "##", "pool": pool, "items": [(i, None) for i in range(len(pool))],
                          "texts": ["<head>##</head>"] + ["#"] * len(pool), "extra": [], "size": f"{n} render() calls on one document",
                          "lib_prefix": "lib", "include_version": True,
                          "calls": [[LIB_PREFIXES[i % len(LIB_PREFIXES)], i % 3 != 0] for i in range(1, n)]})
    # strings a regex-based replacement would read as escapes, in every place that reaches the markup
    for b in BACKSLASHES:
        for fld in ("name", "attr", "meta", "head", "headscript", "src", "source"):
            ren_cases.append({"kind": "render", "ph": '<meta data-foo="">', "pool": [simple_dep(fld, "a" + b + "z")],
                              "items": [(0, None)], "texts": ['<head><meta data-foo="">', "</head>" + b], "extra": [],
                              "lib_prefix": "lib", "include_version": True})

    def ren_prepare(case):
        out, sers = render_run(case)
        remaining, deps, markup = render_expect(case, sers)
        # the dependencies as HTMLTextDocument holds them (heads are markup strings by then)
        held = [build_dep(d) for d in case["extra"]] + [dep_from_payload(json.dumps(dict(dep_canon(d))))
                                                        for d in deps[len(case["extra"]):]]
        return (out, remaining, deps, markup, code_markup(held, case))

    ren_cases, ren_pre = precompute("preparing the document / HTMLDocument reference rendering", ren_cases, ren_prepare)
    batch.add("ren", [[5, S(c["ph"]), S(p[4]), S(p[1])] for c, p in zip(ren_cases, ren_pre)])

    batch.run()

    # =========================================================================================
    # compare
    # =========================================================================================
    # ---- B0: regenerated literals vs the live implementation -------------------------------------
    tab = batch.get("tables")[0]
    m_from, m_to, m_open, m_close = (unS(tab[i]) for i in range(4))
    m_keys = [unS(k) for k in tab[4]]
    ctx.extra["literals"] = {"neutralise_from": m_from, "neutralise_to": m_to, "neutralise_ok": bool(tab[5]),
                             "neutralise_shape": bool(tab[6])}
    ctx.obligation("regenerated opener/closer are the opening/closing tag the serialiser really emits, and the "
                   "regenerated key list is the live key order",
                   m_open == OPEN_TAG and m_close == CLOSE_TAG and probe.startswith(m_open)
                   and probe.endswith(m_close) and live_keys == m_keys)
    ctx.obligation("html_dependency_render_mode defaults to 'invisible'",
                   htmltools.html_dependency_render_mode == "invisible")
    if set(m_keys) != set(FIELDS):
        # the statement lists the fields that must come back; a serialiser that drops one is
        # caught by the element oracle below, nothing to do here
        ctx.extra["serialised_keys_differ_from_statement"] = m_keys

    diff(ctx, "json.dumps(str) vs json_str_enc", strs, batch.get("enc"),
         impl=lambda s: json.dumps(s), decode=unS, nontrivial=nontriv_s, kind=lambda s: "string for json.dumps")
    diff(ctx, "json.loads(string literal) vs json_str_dec", lits, batch.get("dec"),
         impl=py_loads, decode=lambda m: None if m == [] else unS(m[0]),
         nontrivial=lambda l: "\\" in l, kind=lambda s: "string literal for json.loads")
    diff(ctx, "json.decoder.scanstring(text, 1) vs read_string", scans, batch.get("scan"),
         impl=py_scan, decode=lambda m: None if m == [] else (unS(m[0][0]), unS(m[0][1])),
         nontrivial=lambda l: "\\" in l and not l.endswith('"'), kind=lambda s: "string literal followed by text")
    diff(ctx, "json.dumps(flat dict of str) vs enc_flat_obj", objs, batch.get("objenc"),
         impl=lambda o: json.dumps(dict(o)), decode=unS,
         nontrivial=lambda o: len(o) > 1, kind=lambda o: "flat dict for json.dumps")
    # the model scanner accepts exactly the separators json.dumps writes: where it returns a result, raw_decode
    # must return the same; where raw_decode fails, it must fail (JSON whitespace variants are outside the model)
    obad = []
    n_some = 0
    for t, m in zip(otexts, batch.get("objdec")):
        ctx.count(("objdec", t), "\\" in t, "flat object text for raw_decode")
        pv = py_raw_decode(t)
        mv = None if (isinstance(m, tuple) or m == []) else ([(unS(kv[0]), unS(kv[1])) for kv in m[0][0]], unS(m[0][1]))
        n_some += mv is not None
        if isinstance(m, tuple) or (mv is not None and (pv is None or (dict(mv[0]), mv[1]) != pv)) or (pv is None and mv is not None):
            obad.append({"case": t, "impl_output": repr(pv), "model_output": repr(mv)})
    ctx.corr_cases += len(otexts)
    ctx.obligation(f"correspondence json.JSONDecoder().raw_decode vs dec_flat_obj ({len(otexts)} texts, {n_some} accepted by the model)",
                   not obad and n_some >= len(objs))
    if obad:
        ctx.extra["disagree_objdec"] = obad[:3]
    diff(ctx, "json.dumps(list of flat dicts) vs enc_obj_list", olists, batch.get("olenc"),
         impl=lambda ol: json.dumps([dict(o) for o in ol]), decode=unS,
         nontrivial=lambda ol: len(ol) > 1, kind=lambda ol: "list of flat dicts for json.dumps")
    olbad = []
    n_some = 0
    for t, m in zip(oltexts, batch.get("oldec")):
        ctx.count(("oldec", t), "\\" in t, "list-of-objects text for raw_decode")
        pv = py_raw_decode_list(t)
        mv = None if (isinstance(m, tuple) or m == []) else (
            [[(unS(kv[0]), unS(kv[1])) for kv in o] for o in m[0][0]], unS(m[0][1]))
        n_some += mv is not None
        if isinstance(m, tuple) or (mv is not None and (pv is None or ([dict(o) for o in mv[0]], mv[1]) != pv)):
            olbad.append({"case": t, "impl_output": repr(pv), "model_output": repr(mv)})
    ctx.corr_cases += len(oltexts)
    ctx.obligation(f"correspondence json.JSONDecoder().raw_decode vs dec_obj_list ({len(oltexts)} texts, {n_some} accepted by the model)",
                   not olbad and n_some >= len(olists))
    if olbad:
        ctx.extra["disagree_oldec"] = olbad[:3]
    ctx.obligation(f"Coq has_close_tag == the oracle's '</script' test ({len(probes)} strings)",
                   all(bool(a) == spec_has_close_tag(s) for a, s in zip(batch.get("hct"), probes)))
    ctx.obligation("Coq stable_unique == the oracle's first-occurrences (300 lists)",
                   all([unS(x) for x in m] == spec_first_occurrences(l) for m, l in zip(batch.get("uniq"), ul)))

    # ---- B/C 1 -----------------------------------------------------------------------------------
    fails: dict[str, list] = {}

    def oracle_ser(case, out):
        r = oracle_element(case, out)
        if r is not None:
            fails.setdefault(r[0], []).append((case, out, r[1]))

    diff(ctx, "serialize_to_script_json().get_html_string() vs OPENER ++ neutralise(json.dumps) ++ CLOSER",
         ser_cases, batch.get("ser"),
         impl=lambda c: safe_call(ser_run, c),
         decode=lambda m: ("ok", unS(m)), oracle=oracle_ser,
         nontrivial=lambda c: nontriv_s("".join(all_strings(c["dep"]))),
         kind=lambda c: "dependency to serialise" + (" in json render mode" if c.get("mode") else "")
         + (" (size / depth case)" if c.get("size") else ""))
    # one string beyond 256 KiB (not a multiple of 64 KiB); too long for the extracted model's stack, so the
    # oracle alone judges it
    for f in ("head", "meta"):
        c = {"kind": "serialise", "dep": simple_dep(f, long_string(rng, 300017)), "indent": None, "mode": rng.choice([None, "json"])}
        ctx.count(c, True, "dependency to serialise (size / depth case)")
        oracle_ser(c, safe_call(ser_run, c))
    for what, case, detail in _NOTES:
        ctx.violation(what, case, detail)
    _NOTES.clear()
    ctx.extra["corpus_cases"] = n_corpus
    ctx.extra["element_differences_due_to_html_parser_leniency_only"] = len(fails.pop("html.parser-only", []))
    for what, lst in fails.items():
        lst.sort(key=lambda x: len(canon(x[0])))
        case, out, info = lst[0]
        ctx.violation(what, case, {"impl_output": out, "expected": "payload free of '</script' in any letter case; "
                                   "tokenizer and json.loads give back an equal dependency", "detail": info,
                                   "failing_cases_in_this_run": len(lst)})
    ctx.extra["element_oracle_failures"] = {k: len(v) for k, v in fails.items()}

    # ---- B/C 2 -----------------------------------------------------------------------------------
    bad_docs = []
    exp_of = {id(c): e for c, e in zip(doc_cases, doc_exp)}

    n_public = [0]

    def oracle_doc(case, out):
        if out[0] == "exc":
            record_exc(ctx, "_static_extract_serialized_html_deps", case, out)
        elif out != ("ok", exp_of[id(case)][1]):
            bad_docs.append((case, out))
        elif (case.get("size") or len(canon(case)) % 3 == 0) and \
                not any("\x00" in t for d in case["pool"] for t in all_strings(d.get("source"))):
            # (render() resolves a source directory with os.path.realpath, which rejects NUL: file system paths
            # are C12's subject, such documents go through the static helper only)
            # the public route: HTMLTextDocument(text, deps_replace_pattern=<a text that does not occur>).render()
            n_public[0] += 1
            out2 = run_extract(exp_of[id(case)][0], public=True)
            if out2[0] == "exc":
                record_exc(ctx, "HTMLTextDocument(text, deps_replace_pattern=absent).render()", case, out2)
            elif out2 != ("ok", exp_of[id(case)][1]):
                bad_docs.append((case, out2))

    diff(ctx, "_static_extract_serialized_html_deps vs extract", doc_cases, batch.get("doc"),
         impl=lambda c: run_extract(exp_of[id(c)][0]), decode=decode_extract, oracle=oracle_doc,
         nontrivial=lambda c: len(c["items"]) > 0,
         kind=lambda c: f"document with {min(len(c['items']), 4)}{'+' if len(c['items']) > 4 else ''} serialised copies"
         + (" (size case)" if c.get("size") else ""))
    ctx.extra["documents_also_extracted_by_the_public_route"] = n_public[0]
    if bad_docs:
        bad_docs.sort(key=lambda x: len(canon(x[0])))
        case, out = bad_docs[0]
        ctx.violation(W_EXTRACT, case, {"impl_output": out, "expected": exp_of[id(case)][1],
                                        "document": exp_of[id(case)][0], "failing_cases_in_this_run": len(bad_docs)})
    diff(ctx, "_static_extract_serialized_html_deps vs extract (malformed documents)", mal, batch.get("mal"),
         impl=run_extract, decode=decode_extract,
         nontrivial=lambda d: OPEN_TAG in d, kind=lambda d: "malformed document")

    # ---- B/C 3 -----------------------------------------------------------------------------------
    bad_ren, strict_eq, lenient_only = [], 0, 0
    for case, (out, remaining, deps, markups, _mk) in zip(ren_cases, ren_pre):
        ctx.count(case, case["ph"] in remaining, f"render, placeholder x{min(remaining.count(case['ph']) if case['ph'] else 1, 3)}"
                  + (" (size case)" if case.get("size") else ""))
        want_deps = [dep_canon(d) for d in deps]
        if out[0] == "exc":
            record_exc(ctx, "HTMLTextDocument(...).render()", case, out)
            continue
        calls = render_calls(case)
        ok = len(out[1]) == len(calls)
        for k, res in enumerate(out[1] if ok else []):
            v = judge_render(case["ph"], res, remaining, want_deps, None if markups is None else markups[k])
            if v is None:
                ok = False
                bad_ren.append((case, ("ok", list(res)), {"remaining": remaining, "markup": None if markups is None else markups[k],
                                                          "deps": want_deps, "render_call_number": k + 1,
                                                          "arguments_of_that_call": calls[k]}))
                break
            strict_eq += v == "strict"
            lenient_only += v == "lenient"
    for what, case, detail in _NOTES:
        ctx.violation(what, case, detail)
    _NOTES.clear()
    dis = [(c, p[0], unS(m)) for c, p, m in zip(ren_cases, ren_pre, batch.get("ren"))
           if not (p[0][0] == "ok" and p[0][1] and p[0][1][0][0] == unS(m))]
    ctx.corr_cases += len(ren_cases)
    ctx.obligation(f"correspondence HTMLTextDocument.render()['html'] vs replace_first ({len(ren_cases)} cases)", not dis)
    if dis:
        dis.sort(key=lambda x: len(canon(x[0])))
        ctx.extra["disagree_render"] = [{"case": c, "impl_output": o, "model_output": m} for c, o, m in dis[:2]]
    if bad_ren:
        bad_ren.sort(key=lambda x: len(canon(x[0])))
        case, out, exp = bad_ren[0]
        ctx.violation(W_RENDER, case, {"impl_output": out, "expected": exp, "failing_cases_in_this_run": len(bad_ren)})
    ctx.extra["render_markup_equal_modulo_indent"] = strict_eq
    ctx.extra["render_markup_equal_only_modulo_line_breaks"] = lenient_only
    # outside the statement: no placeholder given at all
    r = safe_call(lambda: HTMLTextDocument("<html></html>").render())
    ctx.extra["note_render_without_pattern"] = f"HTMLTextDocument(html).render() with deps_replace_pattern=None -> {r[0]} {r[1] if r[0] == 'err' else ''} (existing behaviour, outside the statement)"

    # ---- C 3b: several documents, one after the other (state shared between objects of a class) --------
    # each with the constructor's default deps=None or with a list, with or without serialised dependencies,
    # the first text once more at the end; every one is judged as if it were alone
    def small_doc(nd, extra, ph):
        pool = [rand_dep(rng, renderable=True, name=f"{rng.choice(TAME)}{i}") for i in range(nd)]
        return ren_variant(rng, {"kind": "render", "ph": ph, "pool": pool, "items": [(i, rng.choice([None, 2])) for i in range(nd)],
                                 "texts": ["<head>" + ph + "</head>"] + [rand_text_noopen() for _ in range(nd)],
                                 "extra": [rand_dep(rng, renderable=True, name=f"extra{i}") for i in range(extra)],
                                 "lib_prefix": rng.choice(LIB_PREFIXES), "include_version": rng.random() < 0.6})
    bad_seq = []
    for k in range(ctx.budget(40, 600)):
        ph = rng.choice(PIPE_PHS)
        docs = [small_doc(rng.choice([1, 2]), 0, ph), small_doc(rng.choice([0, 0, 1]), 0, ph),
                small_doc(rng.choice([0, 1]), 1, ph), small_doc(0, 0, ph)]
        if k % 2:
            docs.insert(rng.randrange(len(docs)), small_doc(1, 2, ph))
        docs.append(copy.deepcopy(docs[0]))
        case = {"kind": "sequence", "docs": docs}
        if over_time("sequences of documents", k, ctx.budget(40, 600)):
            break
        ctx.count(case, True, f"sequence of {len(docs)} documents")
        r = safe_call(sequence_check, case)
        if r[0] == "exc":
            record_exc(ctx, "a sequence of HTMLTextDocument objects", case, r)
        elif r[1] is not None:
            bad_seq.append((case, r[1]))
    if bad_seq:
        bad_seq.sort(key=lambda x: len(canon(x[0])))
        ctx.violation(bad_seq[0][1][0], bad_seq[0][0], {**bad_seq[0][1][1], "failing_cases_in_this_run": len(bad_seq)})
    for what, case, detail in _NOTES:
        ctx.violation(what, case, detail)
    _NOTES.clear()

    # ---- C 4: json-mode str() + HTMLTextDocument  ==  HTMLDocument ------------------------------
    bad_pipe = []
    n_strict = n_len = 0
    pipe_cases = []
    for k, b in enumerate(BACKSLASHES):
        for fld in ("name", "attr", "meta", "head", "headscript"):
            pipe_cases.append({"kind": "pipeline", "pool": [simple_dep(fld, "a" + b + "z")], "ph": '<meta data-foo="">',
                               "tree": ("G", "div", True, [], [("T", "t" + b)]), "slots": [0.3, 0.6, 0.1, 0.9],
                               "ph_count": 1 + k % 2, "top": "tag" if k % 2 else "list", "lib_prefix": "lib",
                               "include_version": True})
    for _ in range(ctx.budget(300, 6000)):
        nd = rng.choice([0, 1, 2, 2, 3])
        names = [rng.choice(TAME + ["n1", "n2"]) if rng.random() < 0.5 else hostile(rng, 2) for _ in range(nd)]
        pool = [rand_dep(rng, renderable=True, name=names[i]) for i in range(nd)]
        ph = rng.choice(PIPE_PHS)
        tree = trees.rand_tree(rng, rng.choice([1, 2, 3]), leaves="TTHM", names="bbiv")
        pipe_cases.append({"kind": "pipeline", "pool": pool, "ph": ph, "tree": tree, "slots": [rng.random() for _ in range(2 * nd + 3)],
                           "ph_count": rng.choice([1, 1, 2]), "top": rng.choice(["tag", "list"]),
                           "lib_prefix": rng.choice(LIB_PREFIXES), "include_version": rng.random() < 0.7})
    # every route / kind of tree / argument style (the hand-written and the first random cases keep the
    # defaults: str() of a tag or TagList)
    for case in pipe_cases[len(BACKSLASHES) * 5 + 40:]:
        pipe_variant(rng, case)
    # trees with objects that are both tagifiable and self-rendering; dependencies made by head_content()
    for _ in range(ctx.budget(40, 800)):
        pool = [rand_dep(rng, renderable=True, name=f"n{i}") for i in range(rng.choice([1, 2]))] + \
               [{"head_content": rand_head_kids(rng, rng.choice([0, 1]), True)}]
        pipe_cases.append(pipe_variant(rng, {
            "kind": "pipeline", "pool": pool, "ph": rng.choice(PIPE_PHS),
            "tree": trees.rand_tree(rng, rng.choice([1, 2, 3]), leaves="TTHRM", names="bbiv", custom=True),
            "slots": [rng.random() for _ in range(len(pool) * 2 + 3)], "ph_count": rng.choice([1, 1, 2]),
            "top": "tag", "lib_prefix": rng.choice(LIB_PREFIXES), "include_version": rng.random() < 0.6}))
    # sizes: many dependencies (the one that needs care last), dependencies under a deep / in a wide tree, the
    # first placeholder beyond 70 000 characters
    for n in (rng.sample(SIZES[:-1], ctx.budget(4, 12)) + [300]):
        pool = [tiny_dep(f"d{i}", script=[{"src": f"s{i}.js"}]) for i in range(n - 1)] + \
               [tiny_dep("last", source={"href": "u" + rng.choice(HOT)}, meta=[{"name": "n", "content": "x" + rng.choice(HOT)}],
                         script=[{"src": "l.js"}], head=["html", rng.choice(HOT) + " "])]
        pipe_cases.append(pipe_variant(rng, {
            "kind": "pipeline", "pool": pool, "ph": rng.choice(PIPE_PHS), "size": f"{n} dependencies",
            "tree": trees.rand_tree(rng, 2, leaves="TTH", names="bbi"), "slots": [rng.random() for _ in range(2 * n + 3)],
            "ph_count": 1, "top": "tag", "lib_prefix": rng.choice(LIB_PREFIXES), "include_version": rng.random() < 0.6}))
    for n in rng.sample(DEPTHS, ctx.budget(3, 8)) + [70]:
        t = ("G", "span", False, [], [("T", "bottom")])
        for i in range(n):
            t = ("G", "div", True, [], [t] if i % 5 else [("T", f"level {i}"), t])
        pool = [rand_dep(rng, renderable=True, name=f"n{i}") for i in range(3)]
        pipe_cases.append(pipe_variant(rng, {
            "kind": "pipeline", "pool": pool, "ph": rng.choice(PIPE_PHS), "size": f"tree {n} deep", "tree": t,
            "slots": [0.0, 0.001, rng.random(), 0.0, rng.random(), rng.random()], "ph_count": 1, "top": "tag",
            "lib_prefix": rng.choice(LIB_PREFIXES), "include_version": True}, tops=["tag", "list", "copy", "body", "html"]))
    for n in rng.sample(SIZES, ctx.budget(3, 8)) + [300]:
        t = ("G", "div", True, [], [("G", "p", True, [], [("T", f"child {i}")]) if i % 3 else ("T", f"text {i} ") for i in range(n)])
        pool = [rand_dep(rng, renderable=True, name=f"n{i}") for i in range(2)]
        pipe_cases.append(pipe_variant(rng, {
            "kind": "pipeline", "pool": pool, "ph": rng.choice(PIPE_PHS), "size": f"tree {n} wide", "tree": t,
            "slots": [0.9999, 0.99999, 0.99995, rng.random()], "ph_count": 2, "top": "tag",
            "lib_prefix": rng.choice(LIB_PREFIXES), "include_version": True}))
    for n in STRLENS[1:]:
        pool = [rand_dep(rng, renderable=True, name=f"n{i}") for i in range(2)]
        pipe_cases.append({"kind": "pipeline", "pool": pool, "ph": rng.choice(PIPE_PHS), "size": f"{n} characters before the placeholder",
                           "tree": ("G", "div", True, [], [("T", "x")]), "lead": long_string(rng, n, "{{dep"),
                           "slots": [rng.random() for _ in range(4)], "ph_count": 2, "top": "list",
                           "lib_prefix": "lib", "include_version": True})
    for k, case in enumerate(pipe_cases):
        if over_time("json-mode pipeline", k, len(pipe_cases)):
            break
        nd = len(case["pool"])
        r = pipeline_check(case)
        ctx.count(case, nd > 0, f"pipeline with {min(nd, 4)}{'+' if nd > 4 else ''} dependencies"
                  + (f", {case['top']}" if case["top"] not in ("tag", "list") else ""))
        if isinstance(r, str):
            if r == "strict":
                n_strict += 1
            elif r == "lenient":
                n_len += 1
        else:
            bad_pipe.append((case, r))
    for case, r in bad_pipe:
        if "exc" in r:
            record_exc(ctx, "json-mode str() / HTMLTextDocument / HTMLDocument pipeline", case, ("exc", r["exc"]))
    bad_pipe = [x for x in bad_pipe if "exc" not in x[1]]
    if bad_pipe:
        bad_pipe.sort(key=lambda x: len(canon(x[0])))
        case, r = bad_pipe[0]
        ctx.violation(W_PIPE, case, {"impl_output": r.get("got"), "expected": r.get("want"), "what": r.get("what"),
                                     "failing_cases_in_this_run": len(bad_pipe)})
    ctx.extra["pipeline_head_equal_modulo_indent"] = n_strict
    ctx.extra["pipeline_head_equal_only_modulo_line_breaks"] = n_len
    ctx.extra["note_line_breaks"] = (
        "a dependency head given as Tag objects comes back as one markup string, so the line break TagList "
        "rendering puts between it and a neighbouring element can differ (newline vs nothing) between "
        "HTMLTextDocument and HTMLDocument; the markup itself is identical -- counted separately, not a violation")
    flush_exc(ctx)


W_SEQ = ("documents processed one after the other in one process: a document is not rendered as the statement says "
         "(each is judged as if it were the only one)")


def sequence_check(case):
    """case = {kind:'sequence', docs:[render case, ...]}: None, or (what, detail)"""
    for k, c in enumerate(case["docs"]):
        r = render_check(c)
        if r is not None:
            return (W_SEQ, {"document_number": k + 1, "what": r[0], **r[1]})
    return None


def render_check(case):
    """one render case judged on its own (replay): None, or (what, detail)"""
    out, sers = render_run(case)
    if out[0] == "exc":
        return (f"valid input raised {out[1]} (HTMLTextDocument(...).render())", {"impl_output": list(out)})
    remaining, deps, markups = render_expect(case, sers)
    want_deps = [dep_canon(d) for d in deps]
    calls = render_calls(case)
    if len(out[1]) != len(calls):
        return (W_RENDER, {"impl_output": out})
    for k, res in enumerate(out[1]):
        if judge_render(case["ph"], res, remaining, want_deps, None if markups is None else markups[k]) is None:
            return (W_RENDER, {"impl_output": list(res), "expected": {"remaining": remaining, "deps": want_deps,
                                                                      "markup": None if markups is None else markups[k]},
                               "render_call_number": k + 1, "arguments_of_that_call": calls[k]})
    return None


def place(tree, objs, slots):
    """insert the objects as extra children at pseudo-random positions of a built Tag tree"""
    tags_ = []

    def walk(t):
        if isinstance(t, Tag):
            tags_.append(t)
            for c in t.children:
                walk(c)
    walk(tree)
    for o, s in zip(objs, slots):
        t = tags_[int(s * len(tags_)) % len(tags_)]
        t.insert(int(s * 7919) % (len(t.children) + 1), o)


ROUTES = {"str": str, "repr": repr, "_repr_html_": lambda x: x._repr_html_(), "format": lambda x: format(x),
          "fstring": lambda x: f"{x}", "percent": lambda x: "%s" % (x,)}
TOPS = ["tag", "list", "tag", "list", "html", "body", "with", "copy", "deepcopy", "jsx"]
DOC_ATTRS = [None, None, {"lang": "en"}, {"lang": "fr", "class_": "a b"}, {"style": "margin:0"}, {"data_x": "1", "lang": "de"}]


PIPE_PHS = ['<meta data-foo="">', "<!-- deps -->", "{{deps}}", "<!-- head (deps) -->", "[[deps]]", "$deps$",
            "<?deps*?>", "^deps|x^", "<!-- \\deps+ -->"]
LIB_PREFIXES = ["lib", "lib", None, "x/y", "", "a/b/c", "li b"]


def pipe_variant(rng, case: dict, tops=TOPS) -> dict:
    """another public way through the same pipeline: kind of tree, route to the markup, a second call on the
    same tree, positional / default arguments, render mode of the post-processing step, html attributes of
    the reference document, every dependency object at two places"""
    case["top"] = rng.choice(tops)
    if rng.random() < 0.4:
        case["route"] = rng.choice(sorted(ROUTES))
    if rng.random() < 0.2:
        case["repeat"] = True
    if rng.random() < 0.3:
        case["post_args"] = "pos"
    if rng.random() < 0.3:
        case["post_mode"] = "json"
    if rng.random() < 0.3:
        case["doc_attrs"] = rng.choice(DOC_ATTRS)
    if rng.random() < 0.15:
        case["dup"] = True
    if rng.random() < 0.2:
        case["defaults"] = True
        case["lib_prefix"], case["include_version"] = "lib", True
    return case


def pipeline_build(case):
    """the tree of the case, from fresh objects: a random tag tree with the dependencies and the placeholder(s)
    inserted at pseudo-random places, then -- by case['top'] -- as it is, in a TagList (the first dependency
    object a second time), as the <body> of an <html> tag that has its own <head> (holding the first
    placeholder), as a lone <body>, collected through a with-block (sys.displayhook route), copied, or next
    to a JSX component that holds the first dependency"""
    root = trees.build(tuplify(case["tree"]))
    deps = [build_dep(d) for d in case["pool"]]
    ph = HTML(case["ph"])
    objs = deps + [ph] * case["ph_count"]
    if case.get("dup"):
        objs = objs + deps[::-1]            # every dependency object at a second place of the tree
    place(root, objs, case["slots"])
    top = case["top"]
    tags = htmltools.tags
    if top == "tag":
        return root
    if top == "list":
        return TagList(case.get("lead", "lead "), root, deps[:1])
    if top == "html":
        return tags.html(tags.head(tags.title("t"), ph), tags.body(root, deps[:1]))
    if top == "body":
        return tags.body(ph, root, deps[:1])
    if top == "with":
        w = Tag("div", _add_ws=True)
        old = sys.displayhook
        sys.displayhook = lambda v: None
        try:
            with w:
                sys.displayhook(root)
                sys.displayhook("text")
                for d in deps[:1]:
                    sys.displayhook(d)
        finally:
            sys.displayhook = old
        return w
    if top == "copy":
        return copy.copy(root)
    if top == "deepcopy":
        return copy.deepcopy(TagList("lead ", root, deps[:1]))
    if top == "jsx" and jsx_tag_create is None:
        return TagList(ph, root, deps[:1])
    if top == "jsx":
        comp = jsx_tag_create("Foo")
        return TagList(ph, Tag("div", comp(*deps[:1], Tag("b", "c"), "text", n=1, label="l"), root, _add_ws=True))
    raise ValueError(top)


def pipeline_check(case):
    """'strict' / 'lenient' when both routes agree, else a dict describing the difference"""
    kw = {"lib_prefix": case["lib_prefix"], "include_version": case["include_version"]}
    route = ROUTES[case.get("route", "str")]
    ph = case["ph"]
    try:
        with time_limit():
            # directly
            direct = HTMLDocument(pipeline_build(case), **(case.get("doc_attrs") or {})).render(**kw)
            # the markup alone (default mode), then with the serialised dependencies (json mode) ...
            plain = route(pipeline_build(case))
            x = pipeline_build(case)
            with Mode(True):
                s = route(x)
                if case.get("repeat"):
                    s = route(x)                  # a second call on the same tree is worth what the first is
            # ... post-processed
            with Mode(case.get("post_mode")):
                if case.get("post_args") == "pos":
                    td = HTMLTextDocument(s, None, ph)
                else:
                    td = HTMLTextDocument(s, deps_replace_pattern=ph)
                post = td.render(**kw) if kw != {"lib_prefix": "lib", "include_version": True} or not case.get("defaults") \
                    else td.render()
    except ImplTimeout:
        htmltools.html_dependency_render_mode = "invisible"
        return {"what": "valid input: a call did not return within the time limit", "exc": "did-not-terminate"}
    except Exception as ex:  # noqa: BLE001
        htmltools.html_dependency_render_mode = "invisible"
        return {"what": f"valid input raised {type(ex).__name__}: {ex}", "exc": type(ex).__name__}
    # Known finding F7 (C11): HTMLDocument also RETURNS dependencies that sit only inside another dependency's
    # head (it neither lists nor hoists them); they are never serialised by the json-mode route, which walks
    # the tree only.  Exactly those (they carry the INNER name prefix) are left out of the list comparison;
    # the text -- listing and markup -- is compared in full.
    d_deps = [dep_canon(d) for d in direct["dependencies"] if not d.name.startswith(INNER)]
    p_deps = [dep_canon(d) for d in post["dependencies"]]
    if d_deps != p_deps:
        return {"what": "dependency lists differ", "got": p_deps, "want": d_deps}
    if not isinstance(plain, str) or not isinstance(post["html"], str):
        return {"what": "markup is not a str", "got": type(post["html"]).__name__}
    i = plain.find(ph)
    if i < 0:
        return {"what": "placeholder lost", "got": plain}
    # _render_tag_or_taglist joins the serialised elements with a line feed: those separators
    # are ordinary surrounding text and stay
    sep = "\n" * max(0, len(p_deps) - 1)
    before, after = plain[:i], plain[i + len(ph):] + sep
    html = post["html"]
    if not (html.startswith(before) and html.endswith(after) and len(html) >= len(before) + len(after)):
        return {"what": "text around the first placeholder is not the plain rendering", "got": html,
                "want": before + "<markup>" + after}
    mid = html[len(before):len(html) - len(after)]
    want = head_after_charset(direct["html"], ph if case["top"] == "html" else None)
    if norm_strict(mid) == norm_strict(want):
        return "strict"
    if norm_lenient(mid) == norm_lenient(want):
        return "lenient"
    return {"what": "listing + dependency markup differ", "got": mid, "want": want}


@known_matcher("F3")
def _f3(what, case, detail) -> bool:
    """finding F3 (fixed by dfbc841): a close tag in another letter case / with a tail got through"""
    return what in (W_CLOSE, W_PARSER) and isinstance(case, dict) and case.get("kind") == "serialise"


def replay(ctx: Ctx, path: str) -> None:
    with open(path, encoding="utf-8") as f:
        r = json.load(f)
    case = r.get("case")
    print(json.dumps({k: r[k] for k in r if k != "detail"}, indent=1)[:3000])
    kind = case.get("kind") if isinstance(case, dict) else None
    if kind == "serialise":
        out = safe_call(ser_run, case)
        print("element:", str(out)[:3000])
        res = oracle_element(case, out)
        ctx.count(case, True, "replayed dependency")
        if res is not None:
            ctx.violation(res[0], case, {"impl_output": out, "detail": res[1]})
        for what, c, detail in _NOTES:
            ctx.violation(what, c, detail)
        _NOTES.clear()
    elif kind == "doc":
        case["items"] = [tuple(x) for x in case["items"]]
        doc, want = doc_expected(case)
        out = run_extract(doc)
        ctx.count(case, True, "replayed document")
        if out != ("ok", want):
            ctx.violation(W_EXTRACT, case, {"impl_output": out, "expected": want, "document": doc})
    elif kind == "render":
        res = render_check(case)
        print("render case ->", str(res)[:3000])
        ctx.count(case, True, "replayed render case")
        if res is not None:
            ctx.violation(res[0], case, res[1])
        for what, c, detail in _NOTES:
            ctx.violation(what, c, detail)
        _NOTES.clear()
    elif kind == "sequence":
        res = sequence_check(case)
        print("sequence ->", str(res)[:3000])
        ctx.count(case, True, "replayed sequence of documents")
        if res is not None:
            ctx.violation(res[0], case, res[1])
    elif kind == "pipeline":
        res = pipeline_check(case)
        ctx.count(case, True, "replayed pipeline")
        if not isinstance(res, str):
            ctx.violation(W_PIPE, case, {"impl_output": res.get("got"), "expected": res.get("want"), "what": res.get("what")})
    else:
        run(ctx)

"""C13  Serialised dependencies round-trip through HTML text.

Step A  Properties/C13.v (Coq).
Step B  implementation vs extracted model (driver c13): json string literals (dumps/loads),
        the serialised element, extraction, first-occurrence replace.
Step C  oracles on the implementation: (1) an HTML tokenizer's view of the serialised element
        (own transcription of the statement + html.parser) and reconstruction of an equal
        dependency; (2) extraction of interleaved serialised copies; (3) placeholder
        multiplicity; (4) json-mode str() + HTMLTextDocument == direct HTMLDocument rendering.
"""
from __future__ import annotations

import copy
import itertools
import json
import os
import re
from html.parser import HTMLParser

from packaging.version import Version

from ..common import Ctx, S, unS, run_model, known_matcher, canon, VERIF
from .. import trees


def safe_call(f, *a, **kw):
    """Run code of the implementation: ANY exception becomes the value ("exc", type name), which
    is compared with the model / judged by the oracles like any other result.  (The model of C13
    has no error results of its own; where the harness decodes model output with json.loads and
    the HTMLDependency constructor, the same mapping is applied on both sides.)"""
    try:
        return ("ok", f(*a, **kw))
    except Exception as e:  # noqa: BLE001
        return ("exc", type(e).__name__)


_EXC: dict[str, list] = {}


def record_exc(ctx, stage: str, case, res) -> None:
    """an exception on a valid input is a violation with that input as the replay (the smallest
    such input per exception type and stage is reported by flush_exc)"""
    _EXC.setdefault(f"valid input raised {res[1]} ({stage})", []).append((case, res))


def flush_exc(ctx) -> None:
    for what, lst in _EXC.items():
        lst.sort(key=lambda x: len(canon(x[0])))
        case, res = lst[0]
        ctx.violation(what, case, {"impl_output": list(res), "expected": "no exception: the input is valid",
                                   "failing_cases_in_this_run": len(lst)})
    ctx.extra["valid_inputs_that_raised"] = {k: len(v) for k, v in _EXC.items()}
    _EXC.clear()


import htmltools
from htmltools import HTML, HTMLDependency, HTMLDocument, HTMLTextDocument, Tag, TagList

# What the statement calls the serialised element: fixed here, independently of /repo and of
# the regenerated tables (both are compared with it below).
OPEN_TAG = '<script type="application/json" data-html-dependency="">'
CLOSE_TAG = "</script>"
FIELDS = ["name", "version", "source", "script", "stylesheet", "meta", "all_files", "head"]

W_CLOSE = ("serialised element: an end-tag-like '</script' (some letter case) occurs inside the "
           "payload before the element's own closing tag")
W_PARSER = "serialised element: an HTML tokenizer (html.parser) does not give back an equal dependency"
W_JSON = "serialised element: json.loads of the payload does not reconstruct an equal dependency"
W_AGAIN = "serialised element: serialising the recovered dependency again gives a different element"
W_EXTRACT = "extraction: remaining text or recovered dependencies differ from the specification"
W_RENDER = "render: not exactly the first placeholder occurrence replaced by the dependency markup"
W_PIPE = "json-mode str() + HTMLTextDocument differs from direct HTMLDocument rendering"


# ------------------------------------------------------------------------------------------
# generators
# ------------------------------------------------------------------------------------------
def case_variants(word: str):
    for bits in itertools.product([0, 1], repeat=len(word)):
        yield "".join(c.upper() if b else c for c, b in zip(word, bits))


CLOSE_TAILS = [">", " >", "\n>", "/>", "\t>", "\x0c>", "", " x=1>", ">>"]
CLOSERS = ["</script>", "</SCRIPT>", "</Script>", "</sCrIpT>", "</script >", "</script\n>",
           "</script/>", "</SCRIPT\t>", "</script", "</scripT x=1>", "</ script>", "< /script>",
           "<\\/script>", "</scr", "</", "</style>"]
FRAGS = CLOSERS + ["<!--", "-->", "<script>", "<SCRIPT>", "<!--<script>", OPEN_TAG, OPEN_TAG[:-1],
                   '<meta data-foo="">', "##", '"', "\\", "\\\\", "\\/", "\\u003c", "\\n", "\n", "\r\n",
                   "\r", "\t", "\x00", "\x1f", "\x7f", "\x08", "\x0c", "é", " ", " ",
                   "\U0001F600", "퟿", "", "￿", "\U00010000", "\U0010ffff", "<", "/",
                   ">", "&lt;/script&gt;", "&amp;", "]]>", "'", "{", "}", ":", ",", " ", "a", "x.js"]
BACKSLASHES = ["\\\\", "\\n", "\\g<0>", "\\1", "\\d+", "/\\d+/", "'\\n'", "C:\\Users\\x\\lib", "x\\", "\\g<name>",
               "\\\\1", "a\\tb", "\\0", "\\x41"]
FRAGS += BACKSLASHES
VERSIONS = ["1.0", "2.3.4", "0.1", "1.0.0a1", "10", "1.2.post1", "3.0.0.dev2", "1!2.0"]
TAME = ["a", "x.js", "lib-1", "foo bar", "css/site.css", "jquery", "d3"]


def hostile(rng, maxn: int = 4) -> str:
    r = rng.random()
    if r < 0.12:
        return trees.rand_text(rng, 8)
    if r < 0.22:
        return rng.choice(TAME)
    return "".join(rng.choice(FRAGS) if rng.random() < 0.75 else trees.rand_text(rng, 4)
                   for _ in range(rng.randrange(1, maxn + 1)))


def no_nul(s: str) -> str:
    return s.replace("\x00", "0")


# Whitespace a head's markup (or any field) may begin / end with or consist of.  The serialised form
# carries the head as ONE markup string, so the recovered dependency is built from a plain str
# whatever the original head was built from; "head as identical markup" must hold for every way of
# giving a head, in particular where the two constructor routes could treat the text differently
# (edge / interior / only whitespace, empty markup, indentation, line-break styles, entity text).
HEAD_WS = [" ", "\n", "\t", "\r\n", "\r", "\x0c", "\x0b", "\xa0", "\u2028", "\u3000", "\ufeff", "  ", "\n    ", "    ",
           "\x1c", "\x85"]
HEAD_BODIES = ["<title>T</title>", "<style>p{}</style>", "<!-- banner -->", "<meta name='x'>", "x", "", "a  b",
               "&amp;", "&", "<style>\n    p {}\n    q {}\n  </style>", "a\tb", "a\r\nb", "<script>1 && 1</script>",
               "    l1\n    l2", "&#32;", "\\n"]
TITLE = ("G", "title", False, [], [("T", "T")])
INDENTS = [None, None, 0, 2, 4, 1, 3, 8]


def rand_ws(rng) -> str:
    return "".join(rng.choice(HEAD_WS) for _ in range(rng.choice([1, 1, 2, 3])))


def ws_text(rng) -> str:
    r = rng.random()
    if r < 0.2:
        return rand_ws(rng)
    if r < 0.8:
        return (rand_ws(rng) if rng.random() < 0.6 else "") + rng.choice(HEAD_BODIES) + \
               (rand_ws(rng) if rng.random() < 0.6 else "")
    return hostile(rng, 2)


def rand_head_kids(rng) -> list:
    kids = []
    for _ in range(rng.choice([0, 1, 1, 2, 2, 3])):
        r = rng.random()
        if r < 0.3:
            kids.append(trees.rand_tree(rng, rng.choice([0, 1]), leaves="TH", names="bisv"))
        else:
            kids.append((rng.choice("TTHHR"), ws_text(rng)))
    return kids


HEAD_WRAPS = ["taglist", "pylist", "tuple", "nested", "single"]


def rand_head(rng):
    """a head in one of the forms the constructor accepts: nothing, a plain str (or str subclass)
    taken as markup, HTML(), a self-rendering object, a Tag, a TagList / list / tuple / nested TagList
    of text, HTML() and Tag children"""
    r = rng.random()
    if r < 0.22:
        return None
    if r < 0.42:
        return ["html", hostile(rng, 3)]
    if r < 0.5:
        return [rng.choice(["html", "strsub"]), ws_text(rng)]
    if r < 0.62:
        return ["H", ws_text(rng) if rng.random() < 0.7 else hostile(rng, 3)]
    if r < 0.8:
        return ["kids", rng.choice(HEAD_WRAPS), rand_head_kids(rng)]
    if r < 0.9:
        return ["tree", trees.rand_tree(rng, rng.choice([0, 1, 2]), leaves="TTHR", names="bisc")]
    return ["list", [trees.rand_tree(rng, rng.choice([0, 1]), leaves="TH", names="sbv")
                     for _ in range(rng.randrange(0, 3))]]


def head_family():
    """every edge-whitespace form x every way of giving a head (bounded-exhaustive, small)"""
    body = "<title>T</title>"
    for ws in HEAD_WS:
        for t in (ws + body, body + ws, ws + body + ws, ws):
            yield ["html", t]
            yield ["H", t]
            yield ["kids", "single", [("R", t)]]
            yield ["kids", "taglist", [("T", t)]]
        yield ["kids", "taglist", [("T", ws), TITLE]]
        yield ["kids", "pylist", [TITLE, ("T", ws)]]
        yield ["kids", "tuple", [("H", ws), TITLE, ("H", ws)]]
        yield ["kids", "nested", [("H", ws), ("H", body)]]
        yield ["kids", "nested", [("H", body), TITLE, ("T", ws)]]
    for b in HEAD_BODIES:
        yield ["H", b]
        yield ["kids", "pylist", [("T", b)]]
        yield ["kids", "single", [("R", b)]]
    yield ["html", ""]
    yield ["strsub", ""]
    yield ["strsub", " x "]
    yield ["kids", "taglist", []]
    yield ["kids", "pylist", []]
    yield ["kids", "tuple", []]
    yield ["kids", "nested", []]
    yield ["kids", "taglist", [("T", "")]]
    yield ["kids", "taglist", [("H", ""), ("H", "")]]


def rand_dep(rng, *, renderable: bool = False, name: str | None = None) -> dict:
    """A dependency description (plain data).  renderable: as_html_tags() will be called on it
    (source must resolve without touching odd filesystem paths)."""
    h = (lambda n=3: hostile(rng, n))
    r = rng.random()
    if r < 0.3:
        source = None
    elif r < 0.6:
        source = {"href": h()}
    elif r < 0.8:
        source = {"package": "htmltools", "subdir": no_nul(h()) if renderable else h()}
    else:
        source = {"subdir": rng.choice(TAME) if renderable else h()}
    if not renderable and rng.random() < 0.1:
        source = {"href": h(), "subdir": h(), "package": h()}
    scripts = []
    for _ in range(rng.choice([0, 0, 1, 1, 2])):
        d = {"src": h()}
        if rng.random() < 0.4:
            d[rng.choice(["type", "integrity", "data-x", "crossorigin"])] = h(2)
        if rng.random() < 0.2:
            d["defer"] = rng.choice([True, False, None, 3])
        scripts.append(d)
    sheets = []
    for _ in range(rng.choice([0, 0, 1, 1, 2])):
        d = {"href": h()}
        if rng.random() < 0.3:
            d["media"] = h(2)
        if rng.random() < 0.15:
            d["rel"] = rng.choice(["stylesheet", "preload", h(1)])
        sheets.append(d)
    metas = []
    for _ in range(rng.choice([0, 0, 1, 2])):
        d = {"name": h(), "content": h()}
        if rng.random() < 0.2:
            d[rng.choice(["charset", "http-equiv"])] = h(1)
        metas.append(d)
    def shape(l):
        # the constructor takes a list of records, a single record, or nothing
        if len(l) == 1 and rng.random() < 0.35:
            return l[0]
        if not l and rng.random() < 0.3:
            return None
        return l
    d = {"name": name if name is not None else (h() if rng.random() < 0.75 else rng.choice(TAME)),
         "version": rng.choice(VERSIONS), "source": source, "script": shape(scripts),
         "stylesheet": shape(sheets), "meta": shape(metas), "all_files": rng.random() < 0.3,
         "head": rand_head(rng)}
    if rng.random() < 0.15:
        d["version_obj"] = True          # version given as a packaging Version, not a str
    return d


def simple_dep(field: str, s: str) -> dict:
    """the hostile string s placed in one field of an otherwise small dependency"""
    d = {"name": "a", "version": "1.0", "source": None, "script": [], "stylesheet": [], "meta": [],
         "all_files": False, "head": None}
    if field == "name":
        d["name"] = s
    elif field == "src":
        d["script"] = [{"src": s}]
    elif field == "attr":
        d["script"] = [{"src": "a.js", "data-x": s}]
    elif field == "href":
        d["stylesheet"] = [{"href": s}]
    elif field == "meta":
        d["meta"] = [{"name": "n", "content": s}]
    elif field == "source":
        d["source"] = {"href": s}
    elif field == "head":
        d["head"] = ["html", s]
    elif field == "headscript":
        d["head"] = ["tree", ("G", "script", False, [], [("T", s)])]
    return d


SIMPLE_FIELDS = ["name", "src", "attr", "href", "meta", "source", "head", "headscript"]


def all_strings(x):
    if isinstance(x, str):
        yield x
    elif isinstance(x, dict):
        for v in x.values():
            yield from all_strings(v)
    elif isinstance(x, (list, tuple)):
        for v in x:
            yield from all_strings(v)


def build_head(h):
    if h is None:
        return None
    if h[0] == "html":
        return h[1]
    if h[0] == "strsub":
        return trees.StrSub(h[1])
    if h[0] == "H":
        return trees.build(("H", h[1]))
    if h[0] == "tree":
        return trees.build(tuplify(h[1]))
    if h[0] == "kids":
        kids = [trees.build(tuplify(x)) for x in h[2]]
        if h[1] == "pylist":
            return kids
        if h[1] == "tuple":
            return tuple(kids)
        if h[1] == "nested":
            return TagList(TagList(*kids[:1]), [kids[1:]])
        if h[1] == "single" and len(kids) == 1:
            return kids[0]
        return TagList(*kids)
    return TagList(*[trees.build(tuplify(x)) for x in h[1]])


def tuplify(d):
    """tree descriptions survive a JSON round trip (replay files) as lists"""
    if isinstance(d, (list, tuple)):
        k = d[0]
        if k == "G":
            return ("G", d[1], d[2], [(a[0], tuple(a[1])) for a in d[3]], [tuplify(x) for x in d[4]])
        if k == "C":
            return ("C", d[1], [tuplify(x) for x in d[2]], d[3])
        return tuple(d)
    return d


def build_dep(d: dict) -> HTMLDependency:
    version = Version(d["version"]) if d.get("version_obj") else d["version"]
    return HTMLDependency(d["name"], version, source=copy.deepcopy(d["source"]),
                          script=copy.deepcopy(d["script"]), stylesheet=copy.deepcopy(d["stylesheet"]),
                          meta=copy.deepcopy(d["meta"]), all_files=d["all_files"],
                          head=build_head(d["head"]))


def dep_canon(dep: HTMLDependency):
    """the observable content the statement lists; head as rendered markup"""
    return {"name": dep.name, "version": str(dep.version), "source": dep.source,
            "script": dep.script, "stylesheet": dep.stylesheet, "meta": dep.meta,
            "all_files": dep.all_files,
            "head": None if dep.head is None else dep.head.get_html_string()}


def dep_from_payload(p: str) -> HTMLDependency:
    return HTMLDependency(**json.loads(p))


# ------------------------------------------------------------------------------------------
# specification transcriptions (of the statement, not of the code)
# ------------------------------------------------------------------------------------------
def ascii_lower(s: str) -> str:
    return "".join(chr(ord(c) + 32) if "A" <= c <= "Z" else c for c in s)


def spec_has_close_tag(s: str) -> bool:
    return "</script" in ascii_lower(s)


def spec_first_occurrences(l: list) -> list:
    out = []
    for x in l:
        if x not in out:
            out.append(x)
    return out


def spec_replace_first(ph: str, markup: str, text: str) -> str:
    i = text.find(ph)
    return text if i < 0 else text[:i] + markup + text[i + len(ph):]


PARSER_DEVIATION = re.compile(r"</\s+script\s*>|</\s*[s\u017f]cript\s*>", re.I)


class Collector(HTMLParser):
    def __init__(self):
        super().__init__(convert_charrefs=True)
        self.events: list = []

    def _data(self, d):
        if self.events and self.events[-1][0] == "data":
            self.events[-1] = ("data", self.events[-1][1] + d)
        else:
            self.events.append(("data", d))

    def handle_starttag(self, tag, attrs):
        self.events.append(("start", tag, list(attrs)))

    def handle_startendtag(self, tag, attrs):
        self.events.append(("startend", tag, list(attrs)))

    def handle_endtag(self, tag):
        self.events.append(("end", tag))

    def handle_data(self, data):
        self._data(data)

    def handle_comment(self, data):
        self.events.append(("comment", data))

    def handle_decl(self, decl):
        self.events.append(("decl", decl))

    def handle_pi(self, data):
        self.events.append(("pi", data))

    def unknown_decl(self, data):
        self.events.append(("unknown", data))


_COLLECTOR = Collector()


def tokenize(s: str) -> list:
    p = _COLLECTOR
    p.reset()
    p.events = []
    p.feed(s)
    p.close()
    return p.events


# ------------------------------------------------------------------------------------------
# oracles
# ------------------------------------------------------------------------------------------
def oracle_element(case, out):
    """case = {kind:'serialise', dep, indent}; out = safe_call result of get_html_string()."""
    if out[0] != "ok":
        return (f"valid input raised {out[1]} (serialize_to_script_json().get_html_string())", None)
    e = out[1]
    want = dep_canon(build_dep(case["dep"]))
    if not (e.startswith(OPEN_TAG) and e.endswith(CLOSE_TAG) and len(e) >= len(OPEN_TAG) + len(CLOSE_TAG)):
        return (W_PARSER, "element is not OPEN_TAG + payload + </script>")
    payload = e[len(OPEN_TAG):len(e) - len(CLOSE_TAG)]
    try:
        got = dep_canon(dep_from_payload(payload))
    except Exception as ex:  # noqa: BLE001
        got = f"{type(ex).__name__}: {ex}"
    if got != want:
        return (W_JSON, {"reconstructed": got, "original": want})
    # an equal dependency has the same serialised form (the same fields, serialised the same way)
    again = safe_call(lambda: dep_from_payload(payload).serialize_to_script_json(indent=case["indent"]).get_html_string())
    if again != ("ok", e):
        return (W_AGAIN, {"first": e, "second": again})
    if spec_has_close_tag(payload):
        i = ascii_lower(payload).find("</script")
        return (W_CLOSE, {"at": i, "context": payload[max(0, i - 12):i + 14]})
    ev = tokenize(e)
    ok = (len(ev) == 3 and ev[0] == ("start", "script", [("type", "application/json"), ("data-html-dependency", "")])
          and ev[1] == ("data", payload) and ev[2] == ("end", "script"))
    if not ok:
        if PARSER_DEVIATION.search(payload):
            # html.parser 3.12 ends a script at  </ \s* script \s* >  matched with Unicode case folding;
            # the HTML standard (and the statement) at  </script  in ASCII letter cases only.  A difference
            # that can only come from there is html.parser's, not the serialiser's.
            return ("html.parser-only", None)
        return (W_PARSER, {"events": [list(x) for x in ev[:4]]})
    return None


def make_doc(case):
    """case = {kind:'doc', pool:[dep desc], items:[(pool index, indent)], texts:[...]}"""
    sers = []
    for i, ind in case["items"]:
        sers.append(build_dep(case["pool"][i]).serialize_to_script_json(indent=ind).get_html_string())
    doc = case["texts"][0]
    for s, t in zip(sers, case["texts"][1:]):
        doc += s + t
    return doc, sers


def doc_expected(case):
    doc, sers = make_doc(case)
    order = spec_first_occurrences(sers)
    origin = {}
    for (i, _ind), s in zip(case["items"], sers):
        origin.setdefault(s, i)
    return doc, ("".join(case["texts"]), [dep_canon(build_dep(case["pool"][origin[s]])) for s in order])


def run_extract(doc):
    def f():
        html, deps = HTMLTextDocument._static_extract_serialized_html_deps(doc)
        return (html, [dep_canon(d) for d in deps])
    return safe_call(f)


def listing_and_tags_markup(deps, lib_prefix, include_version) -> str:
    """what HTMLDocument puts in <head> after its charset meta, for this dependency list
    (names must be distinct so that HTMLDocument's resolution leaves the list alone)"""
    html = HTMLDocument(TagList(*deps)).render(lib_prefix=lib_prefix, include_version=include_version)["html"]
    return head_after_charset(html)


HEAD_OPEN = '<!DOCTYPE html>\n<html>\n  <head>\n    <meta charset="utf-8"/>'


def head_after_charset(html: str) -> str:
    assert html.startswith(HEAD_OPEN), html[:80]
    # the real end of <head>: the line that is followed by <body at the same depth (hostile
    # content nested in head or body is indented deeper, so it cannot produce this text)
    j = html.rindex("\n  </head>\n  <body")
    body = html[len(HEAD_OPEN):j]
    return body[1:] if body.startswith("\n") else body


def norm_strict(s: str) -> str:
    return "\n".join(line.lstrip(" ") for line in s.split("\n"))


def norm_lenient(s: str) -> str:
    """every character other than the spaces and line feeds layout consists of, in order"""
    return re.sub(r"[ \n]+", "", s)


class JsonMode:
    def __enter__(self):
        self.old = htmltools.html_dependency_render_mode
        htmltools.html_dependency_render_mode = "json"

    def __exit__(self, *a):
        htmltools.html_dependency_render_mode = "invisible"


# ------------------------------------------------------------------------------------------
class Batch:
    """all model inputs of a run, evaluated by ONE run_model invocation (each invocation takes
    the build lock, runs make and spawns the driver processes)"""

    def __init__(self):
        self.sx: list = []
        self.groups: dict[str, tuple[int, int]] = {}
        self.out: list = []

    def add(self, name: str, sxs: list) -> None:
        self.groups[name] = (len(self.sx), len(sxs))
        self.sx += sxs

    def run(self) -> None:
        # one invocation in the quick tier; the thorough tier is cut into a few slices to bound the
        # size of the text handed to the driver processes
        self.out = []
        step = 80000
        for a in range(0, len(self.sx), step):
            self.out += run_model(self.sx[a:a + step], nproc=8, driver="c13")

    def get(self, name: str) -> list:
        a, n = self.groups[name]
        return self.out[a:a + n]


def diff(ctx: Ctx, name, cases, model_out, impl, decode, oracle=None,
         nontrivial=lambda c: True, kind=lambda c: None) -> None:
    """common.differential without its own run_model call"""
    dis = []
    for c, m in zip(cases, model_out):
        ctx.count(c, nontrivial(c), kind(c))
        iv = impl(c)
        if oracle is not None:
            oracle(c, iv)
        mv = ("!", m[1]) if isinstance(m, tuple) else decode(m)
        if mv != iv:
            dis.append({"case": c, "impl_output": iv, "model_output": mv})
    ctx.corr_cases += len(cases)
    ctx.obligation(f"correspondence {name} ({len(cases)} cases)", not dis)
    if dis:
        dis.sort(key=lambda d: len(canon(d["case"])))
        ctx.extra.setdefault("disagreements", []).extend(dis[:3])
        ctx.extra[f"disagree_{name}"] = dis[:3]


def nontriv_s(s: str) -> bool:
    return any(c in '"\\<' or ord(c) < 32 or ord(c) > 126 for c in s)


def py_loads(l):
    try:
        v = json.loads(l)
    except (json.JSONDecodeError, RecursionError):
        return None
    return v if isinstance(v, str) else ["not a str"]


def decode_extract(m):
    return safe_call(lambda: (unS(m[0]), [dep_canon(dep_from_payload(unS(p))) for p in m[1]]))


def render_run(case):
    doc, sers = make_doc(case)
    extra = [build_dep(d) for d in case["extra"]]

    def f():
        r = HTMLTextDocument(doc, deps=list(extra) if extra else None, deps_replace_pattern=case["ph"]) \
            .render(lib_prefix=case["lib_prefix"], include_version=case["include_version"])
        return (r["html"], [dep_canon(d) for d in r["dependencies"]])
    return safe_call(f), sers


def render_expect(case, sers):
    """(remaining text, dependency list, markup or None)"""
    origin = {}
    for (i, _ind), s in zip(case["items"], sers):
        origin.setdefault(s, i)
    deps = [build_dep(d) for d in case["extra"]] + \
           [build_dep(case["pool"][origin[s]]) for s in spec_first_occurrences(sers)]
    names = [d.name for d in deps]
    markup = None
    if len(set(names)) == len(names):
        markup = listing_and_tags_markup(deps, case["lib_prefix"], case["include_version"])
    return "".join(case["texts"]), deps, markup


def code_markup(deps, case):
    tl = TagList()
    if deps:
        tl.append(Tag("script", ";".join(d.name + "[" + str(d.version) + "]" for d in deps),
                      type="application/html-dependencies"))
    tl.extend([d.as_html_tags(lib_prefix=case["lib_prefix"], include_version=case["include_version"]) for d in deps])
    return tl.render()["html"]


def run(ctx: Ctx) -> None:
    rng = ctx.rng
    ctx.rule = (
        "strings: code points one at a time (quick: all below 0x500, the blocks around U+2028, the surrogate "
        "borders and U+FFxx, plus random scalar values; thorough: all 1 112 064 scalar values) and hostile strings "
        "drawn from fragments (quotes, backslashes, newlines, controls, "
        "non-ASCII, astral, '</script' in all 64 letter cases with 9 tails, '<!--', '<script>', the opening "
        "tag literal, placeholders); dependencies: random records with such strings in name, source, script / "
        "stylesheet / meta entries and head (given as a plain str / str subclass, HTML(), a self-rendering object, a "
        "Tag, a TagList / list / tuple / nested TagList of text, HTML() and Tag children; markup with leading / "
        "trailing / only / no whitespace of 16 kinds incl. CR LF, form feed, NBSP, U+2028, indentation; empty "
        "markup; every such form x every way of giving a head enumerated), script / stylesheet / meta given as a "
        "list, one record or None, version as str or Version, serialised with indent in "
        "{None,0,1,2,3,4,8}, after the corpus (the '</SCRIPT>' family of fixed finding F3); documents: 0-6 serialised "
        "copies of 1-3 dependencies (duplicates, different indents) "
        "interleaved with hostile text free of the opening tag; placeholders occurring 0-3 times, also "
        "overlapping and empty; pipelines: random tag trees holding dependencies rendered in json mode and "
        "directly; backslash-bearing strings (doubled backslash, backslash-n as two characters, group references, "
        "backslash-d, a Windows path, a trailing backslash) in names, attribute / meta values and head markup of "
        "every scenario, hand-written for render and pipeline. Non-trivial = contains at least one of quote, backslash, '<', control or non-ASCII character "
        "(strings) / at least one serialised copy (documents); distinct = distinct canonical inputs.")
    ctx.assumptions = [
        "the extracted OCaml model behaves as the Gallina model (ExtrOcamlBasic only)",
        "json.dumps/json.loads object structure and the re engine are trusted: modelled at string-literal level "
        "(json) and as repeated first-occurrence search (re), and checked differentially here",
        "Python's html.parser is used as a second HTML tokenizer next to the statement's own '</script' test",
        "strings are sequences of Unicode scalar values (no lone surrogates)",
    ]
    _EXC.clear()
    pr = ctx.proof()

    # T1 at full strength is the theorem C13_no_close_tag_status : C13_T1_holds (the file can only say
    # C13_T1_refuted, and compile, if the replace literals regress to a form that lets a close tag through)
    with open(os.path.join(VERIF, "coq", "Properties", "C13.v"), encoding="utf-8") as f:
        m = re.search(r"^Theorem C13_no_close_tag_status : (\w+)\.", f.read(), re.M)
    status = m.group(1) if m else "?"
    ctx.extra["T1_status_claimed"] = status
    ctx.obligation("theorem C13_no_close_tag (T1 at full strength: for every string s, neutralise s holds no "
                   "'</script' in any letter case) -- Properties/C13.v claims " + status,
                   bool(pr["ok"]) and status == "C13_T1_holds")

    # =========================================================================================
    # generate every input; the model is run once on all of them
    # =========================================================================================
    batch = Batch()
    batch.add("tables", [[7]])
    pr0 = safe_call(lambda: HTMLDependency("p", "1").serialize_to_script_json().get_html_string())
    if pr0[0] != "ok":
        record_exc(ctx, "serialize_to_script_json()", {"kind": "serialise", "dep": simple_dep("name", "p"), "indent": None}, pr0)
    probe = pr0[1] if pr0[0] == "ok" else ""
    lk = safe_call(lambda: list(json.loads(probe[len(OPEN_TAG):-len(CLOSE_TAG)]).keys()))
    live_keys = lk[1] if probe.startswith(OPEN_TAG) and lk[0] == "ok" else []

    def precompute(stage, cases, f):
        """f(case) runs implementation code to prepare a case; a case on which it raises is reported
        (valid input raised ...) and left out of what follows"""
        kept, vals = [], []
        for c in cases:
            r = safe_call(f, c)
            if r[0] == "ok":
                kept.append(c)
                vals.append(r[1])
            else:
                ctx.count(c, True, "input on which the implementation raised")
                record_exc(ctx, stage, c, r)
        return kept, vals

    # ---- B1: json.dumps(str) ------------------------------------------------------------------
    if ctx.quick:
        cps = list(range(0, 0x500)) + list(range(0x2000, 0x2070)) + list(range(0xD7C0, 0xD800)) + \
              list(range(0xE000, 0xE020)) + list(range(0xFF00, 0x10000)) + list(range(0x10000, 0x10020)) + \
              list(range(0x10FFE0, 0x110000))
        strs = [chr(c) for c in cps] + [trees.rand_char(rng) for _ in range(1200)]
    else:
        strs = [chr(c) for c in range(0, 0x3000) if not 0xD800 <= c <= 0xDFFF]
        cps = [c for c in range(0x3000, 0x110000) if not 0xD800 <= c <= 0xDFFF]
        for i in range(0, len(cps), 64):
            strs.append("".join(chr(c) for c in cps[i:i + 64]))
    strs += [hostile(rng, 5) for _ in range(ctx.budget(1500, 40000))]
    alpha = '</\\"sS>'
    for n in range(0, ctx.budget(3, 5) + 1):
        strs += ["".join(t) for t in itertools.product(alpha, repeat=n)]
    strs += ["퟿", "\U00010000\U0010ffff", "\x7f\x80\xa0"]
    batch.add("enc", [[2, S(s)] for s in strs])

    # ---- B2: json.loads(literal), incl. neutralised literals and malformed ones -------------------
    lits = []
    for k, s in enumerate(strs[-ctx.budget(1500, 30000):]):
        d = json.dumps(s)
        lits.append(d.replace("</", "<\\/") if k % 3 else d.replace("</script>", "<\\/script>"))
    lits += [json.dumps(s, ensure_ascii=False) for s in strs[-ctx.budget(500, 1500):]]
    lfr = ['\\u', 'd83d', '\\ude00', 'D800', 'dc00', '\\', '"', '/', 'x', '\\ud83d\\ude00', '\\ud800',
           '\\udc00', '\\u00e9', '\\n', '\\/', '<\\/', '\\u12', 'G', '\x01', 'é', '\\b', '\\f', '\\r', '\\t',
           '\\x', '\\U0001', ' ', '\n', '\\u00E9', '\\uD83D\\uDE00', '\\ud83d\\u0041', '\\ud83d\\ud83d\\ude00']
    for _ in range(ctx.budget(2500, 60000)):
        lits.append('"' + "".join(rng.choice(lfr) for _ in range(rng.randrange(0, 6))) + '"')
    lits += ['"', '""', '"\\', '"\\u', '"\\u00', '"\\ud83d\\ude0', '"\\ud83d\\ude00', 'x', '', '"a"b"']
    batch.add("dec", [[3, S(s)] for s in lits])

    # ---- the Coq specification functions used as oracles ---------------------------------------
    probes = [hostile(rng, 4) for _ in range(ctx.budget(500, 10000))] + \
             ["</" + v + t for v in case_variants("script") for t in ("", ">", " >")]
    batch.add("hct", [[6, S(s)] for s in probes])
    ul = [[rng.choice(["a", "b", "", "ab", "a "]) for _ in range(rng.randrange(0, 7))] for _ in range(300)]
    batch.add("uniq", [[9, [S(s) for s in l]] for l in ul])

    # ---- B/C 1: the serialised element ---------------------------------------------------------
    ser_cases = []
    cdir = os.path.join(VERIF, "corpus", "C13")
    for fn in sorted(os.listdir(cdir)) if os.path.isdir(cdir) else []:
        if fn.endswith(".json"):
            with open(os.path.join(cdir, fn), encoding="utf-8") as f:
                ser_cases += [c for c in json.load(f)["cases"] if c.get("kind") == "serialise"]
    n_corpus = len(ser_cases)
    for v in case_variants("script"):
        for t in CLOSE_TAILS:
            f = SIMPLE_FIELDS[(len(ser_cases)) % len(SIMPLE_FIELDS)]
            ser_cases.append({"kind": "serialise", "dep": simple_dep(f, "x</" + v + t + "y"), "indent": None})
    for f in SIMPLE_FIELDS:
        for s in FRAGS:
            ser_cases.append({"kind": "serialise", "dep": simple_dep(f, s), "indent": rng.choice(INDENTS)})
    # edge whitespace in every field, and every way of giving a head x every edge-whitespace form
    for f in SIMPLE_FIELDS:
        for ws in HEAD_WS:
            ser_cases.append({"kind": "serialise", "dep": simple_dep(f, ws + "x" + ws), "indent": rng.choice(INDENTS)})
    for hd in head_family():
        d = simple_dep("name", "a")
        d["head"] = hd
        ser_cases.append({"kind": "serialise", "dep": d, "indent": rng.choice(INDENTS)})
    for _ in range(ctx.budget(800, 25000)):
        ser_cases.append({"kind": "serialise", "dep": rand_dep(rng), "indent": rng.choice(INDENTS)})
    if not ctx.quick:
        for n in range(0, 5):
            for t in itertools.product('</\\"sS>', repeat=n):
                ser_cases.append({"kind": "serialise", "dep": simple_dep("name", "".join(t) + "cript>"), "indent": None})

    def dumps_of(case):
        # what the code hands to json.dumps: the dependency's fields in the live key order (that the
        # regenerated key list is this order is an obligation below)
        dep = build_dep(case["dep"])
        vals = dep_canon(dep)
        vals["head"] = TagList(dep.head).get_html_string() if dep.head is not None else None
        return json.dumps({k: vals[k] for k in live_keys}, indent=case["indent"])

    ser_cases, ser_dumps = precompute("building the dependency / rendering its head", ser_cases, dumps_of)
    batch.add("ser", [[8, S(d)] for d in ser_dumps])

    # ---- B/C 2: extraction from documents -------------------------------------------------------
    def rand_text_noopen():
        s = hostile(rng, 3) if rng.random() < 0.8 else ""
        return s.replace(OPEN_TAG, "<script>")

    doc_cases = []
    for _ in range(ctx.budget(600, 15000)):
        pool = [rand_dep(rng) for _ in range(rng.choice([1, 1, 2, 3]))]
        n = rng.choice([0, 1, 2, 2, 3, 4, 6])
        items = [(rng.randrange(len(pool)), rng.choice(INDENTS)) for _ in range(n)]
        doc_cases.append({"kind": "doc", "pool": pool, "items": items,
                          "texts": [rand_text_noopen() for _ in range(n + 1)]})
    doc_cases, doc_exp = precompute("serialize_to_script_json() while assembling the document", doc_cases,
                                    doc_expected)                 # (document, (remaining, deps))
    batch.add("doc", [[4, S(d)] for d, _ in doc_exp])
    # malformed stream (correspondence only: unterminated openers, stray closers, payloads that are
    # not JSON / not dependency records)
    pieces = [OPEN_TAG, CLOSE_TAG, "<script", "</script", "x", "\n", "\r", '{"a":1}', "[1]", "<", ">",
              OPEN_TAG[:-1], "é", '{"name":"n","version":"1"}', "{", '"s"', "null"]
    mal = ["".join(rng.choice(pieces) for _ in range(rng.randrange(0, 12))) for _ in range(ctx.budget(500, 20000))]
    batch.add("mal", [[4, S(d)] for d in mal])

    # ---- B/C 3: render(): first occurrence of the placeholder only --------------------------------
    PHS = ['<meta data-foo="">', "##", "{{deps}}", "", "</head>", "<!-- deps -->", "a", "\n", "#"]
    ren_cases = []
    for _ in range(ctx.budget(450, 10000)):
        ph = rng.choice(PHS) if rng.random() < 0.85 else (hostile(rng, 1).replace(OPEN_TAG, "") or "#")
        k = rng.choice([0, 1, 1, 3, 3, 2])
        nd = rng.choice([0, 1, 1, 2, 3])
        pool = [rand_dep(rng, renderable=True, name=f"{rng.choice(TAME)}{i}" if rng.random() < 0.6 else None)
                for i in range(nd)]
        items = [(i, rng.choice([None, 2])) for i in range(nd)]
        if nd and rng.random() < 0.3:
            items.append((0, items[0][1]))            # the same serialisation twice
        if nd and rng.random() < 0.15:
            items.append((0, 4))                      # the same dependency, another serialisation
        rng.shuffle(items)
        texts = [rand_text_noopen() for _ in range(len(items) + 1)]
        for _ in range(k):
            j = rng.randrange(len(texts))
            cut = rng.randrange(len(texts[j]) + 1)
            texts[j] = texts[j][:cut] + ph + texts[j][cut:]
        texts = [t.replace(OPEN_TAG, "<script>") for t in texts]
        extra = [rand_dep(rng, renderable=True, name=f"extra{rng.randrange(3)}")] if rng.random() < 0.2 else []
        ren_cases.append({"kind": "render", "ph": ph, "pool": pool, "items": items, "texts": texts, "extra": extra,
                          "lib_prefix": rng.choice(["lib", "lib", None, "x/y", ""]),
                          "include_version": rng.random() < 0.7})
    # strings a regex-based replacement would read as escapes, in every place that reaches the markup
    for b in BACKSLASHES:
        for fld in ("name", "attr", "meta", "head", "headscript", "src", "source"):
            ren_cases.append({"kind": "render", "ph": '<meta data-foo="">', "pool": [simple_dep(fld, "a" + b + "z")],
                              "items": [(0, None)], "texts": ['<head><meta data-foo="">', "</head>" + b], "extra": [],
                              "lib_prefix": "lib", "include_version": True})

    def ren_prepare(case):
        out, sers = render_run(case)
        remaining, deps, markup = render_expect(case, sers)
        # the dependencies as HTMLTextDocument holds them (heads are markup strings by then)
        held = [build_dep(d) for d in case["extra"]] + [dep_from_payload(json.dumps(dict(dep_canon(d))))
                                                        for d in deps[len(case["extra"]):]]
        return (out, remaining, deps, markup, code_markup(held, case))

    ren_cases, ren_pre = precompute("preparing the document / HTMLDocument reference rendering", ren_cases, ren_prepare)
    batch.add("ren", [[5, S(c["ph"]), S(p[4]), S(p[1])] for c, p in zip(ren_cases, ren_pre)])

    batch.run()

    # =========================================================================================
    # compare
    # =========================================================================================
    # ---- B0: regenerated literals vs the live implementation -------------------------------------
    tab = batch.get("tables")[0]
    m_from, m_to, m_open, m_close = (unS(tab[i]) for i in range(4))
    m_keys = [unS(k) for k in tab[4]]
    ctx.extra["literals"] = {"neutralise_from": m_from, "neutralise_to": m_to, "neutralise_ok": bool(tab[5]),
                             "neutralise_shape": bool(tab[6])}
    ctx.obligation("regenerated opener/closer are the opening/closing tag the serialiser really emits, and the "
                   "regenerated key list is the live key order",
                   m_open == OPEN_TAG and m_close == CLOSE_TAG and probe.startswith(m_open)
                   and probe.endswith(m_close) and live_keys == m_keys)
    ctx.obligation("html_dependency_render_mode defaults to 'invisible'",
                   htmltools.html_dependency_render_mode == "invisible")
    if set(m_keys) != set(FIELDS):
        # the statement lists the fields that must come back; a serialiser that drops one is
        # caught by the element oracle below, nothing to do here
        ctx.extra["serialised_keys_differ_from_statement"] = m_keys

    diff(ctx, "json.dumps(str) vs json_str_enc", strs, batch.get("enc"),
         impl=lambda s: json.dumps(s), decode=unS, nontrivial=nontriv_s, kind=lambda s: "string for json.dumps")
    diff(ctx, "json.loads(string literal) vs json_str_dec", lits, batch.get("dec"),
         impl=py_loads, decode=lambda m: None if m == [] else unS(m[0]),
         nontrivial=lambda l: "\\" in l, kind=lambda s: "string literal for json.loads")
    ctx.obligation(f"Coq has_close_tag == the oracle's '</script' test ({len(probes)} strings)",
                   all(bool(a) == spec_has_close_tag(s) for a, s in zip(batch.get("hct"), probes)))
    ctx.obligation("Coq stable_unique == the oracle's first-occurrences (300 lists)",
                   all([unS(x) for x in m] == spec_first_occurrences(l) for m, l in zip(batch.get("uniq"), ul)))

    # ---- B/C 1 -----------------------------------------------------------------------------------
    fails: dict[str, list] = {}

    def oracle_ser(case, out):
        r = oracle_element(case, out)
        if r is not None:
            fails.setdefault(r[0], []).append((case, out, r[1]))

    diff(ctx, "serialize_to_script_json().get_html_string() vs OPENER ++ neutralise(json.dumps) ++ CLOSER",
         ser_cases, batch.get("ser"),
         impl=lambda c: safe_call(lambda: build_dep(c["dep"]).serialize_to_script_json(indent=c["indent"]).get_html_string()),
         decode=lambda m: ("ok", unS(m)), oracle=oracle_ser,
         nontrivial=lambda c: nontriv_s("".join(all_strings(c["dep"]))),
         kind=lambda c: "dependency to serialise")
    ctx.extra["corpus_cases"] = n_corpus
    ctx.extra["element_differences_due_to_html_parser_leniency_only"] = len(fails.pop("html.parser-only", []))
    for what, lst in fails.items():
        lst.sort(key=lambda x: len(canon(x[0])))
        case, out, info = lst[0]
        ctx.violation(what, case, {"impl_output": out, "expected": "payload free of '</script' in any letter case; "
                                   "tokenizer and json.loads give back an equal dependency", "detail": info,
                                   "failing_cases_in_this_run": len(lst)})
    ctx.extra["element_oracle_failures"] = {k: len(v) for k, v in fails.items()}

    # ---- B/C 2 -----------------------------------------------------------------------------------
    bad_docs = []
    exp_of = {id(c): e for c, e in zip(doc_cases, doc_exp)}

    def oracle_doc(case, out):
        if out[0] == "exc":
            record_exc(ctx, "_static_extract_serialized_html_deps", case, out)
        elif out != ("ok", exp_of[id(case)][1]):
            bad_docs.append((case, out))

    diff(ctx, "_static_extract_serialized_html_deps vs extract", doc_cases, batch.get("doc"),
         impl=lambda c: run_extract(exp_of[id(c)][0]), decode=decode_extract, oracle=oracle_doc,
         nontrivial=lambda c: len(c["items"]) > 0,
         kind=lambda c: f"document with {min(len(c['items']), 4)}{'+' if len(c['items']) > 4 else ''} serialised copies")
    if bad_docs:
        bad_docs.sort(key=lambda x: len(canon(x[0])))
        case, out = bad_docs[0]
        ctx.violation(W_EXTRACT, case, {"impl_output": out, "expected": exp_of[id(case)][1],
                                        "document": exp_of[id(case)][0], "failing_cases_in_this_run": len(bad_docs)})
    diff(ctx, "_static_extract_serialized_html_deps vs extract (malformed documents)", mal, batch.get("mal"),
         impl=run_extract, decode=decode_extract,
         nontrivial=lambda d: OPEN_TAG in d, kind=lambda d: "malformed document")

    # ---- B/C 3 -----------------------------------------------------------------------------------
    bad_ren, strict_eq, lenient_only = [], 0, 0
    for case, (out, remaining, deps, markup, _mk) in zip(ren_cases, ren_pre):
        ctx.count(case, case["ph"] in remaining, f"render, placeholder x{min(remaining.count(case['ph']) if case['ph'] else 1, 3)}")
        want_deps = [dep_canon(d) for d in deps]
        if out[0] == "exc":
            record_exc(ctx, "HTMLTextDocument(...).render()", case, out)
            continue
        ok = out[0] == "ok" and out[1][1] == want_deps
        if ok:
            html = out[1][0]
            i = remaining.find(case["ph"])
            if i < 0:
                ok = html == remaining
            else:
                before, after = remaining[:i], remaining[i + len(case["ph"]):]
                ok = html.startswith(before) and html.endswith(after) and len(html) >= len(before) + len(after)
                if ok and markup is not None:
                    mid = html[len(before):len(html) - len(after)]
                    if norm_strict(mid) == norm_strict(markup):
                        strict_eq += 1
                    elif norm_lenient(mid) == norm_lenient(markup):
                        lenient_only += 1
                    else:
                        ok = False
        if not ok:
            bad_ren.append((case, out, {"remaining": remaining, "markup": markup, "deps": want_deps}))
    dis = [(c, p[0], unS(m)) for c, p, m in zip(ren_cases, ren_pre, batch.get("ren"))
           if not (p[0][0] == "ok" and p[0][1][0] == unS(m))]
    ctx.corr_cases += len(ren_cases)
    ctx.obligation(f"correspondence HTMLTextDocument.render()['html'] vs replace_first ({len(ren_cases)} cases)", not dis)
    if dis:
        dis.sort(key=lambda x: len(canon(x[0])))
        ctx.extra["disagree_render"] = [{"case": c, "impl_output": o, "model_output": m} for c, o, m in dis[:2]]
    if bad_ren:
        bad_ren.sort(key=lambda x: len(canon(x[0])))
        case, out, exp = bad_ren[0]
        ctx.violation(W_RENDER, case, {"impl_output": out, "expected": exp, "failing_cases_in_this_run": len(bad_ren)})
    ctx.extra["render_markup_equal_modulo_indent"] = strict_eq
    ctx.extra["render_markup_equal_only_modulo_line_breaks"] = lenient_only
    # outside the statement: no placeholder given at all
    r = safe_call(lambda: HTMLTextDocument("<html></html>").render())
    ctx.extra["note_render_without_pattern"] = f"HTMLTextDocument(html).render() with deps_replace_pattern=None -> {r[0]} {r[1] if r[0] == 'err' else ''} (existing behaviour, outside the statement)"

    # ---- C 4: json-mode str() + HTMLTextDocument  ==  HTMLDocument ------------------------------
    bad_pipe = []
    n_strict = n_len = 0
    pipe_cases = []
    for k, b in enumerate(BACKSLASHES):
        for fld in ("name", "attr", "meta", "head", "headscript"):
            pipe_cases.append({"kind": "pipeline", "pool": [simple_dep(fld, "a" + b + "z")], "ph": '<meta data-foo="">',
                               "tree": ("G", "div", True, [], [("T", "t" + b)]), "slots": [0.3, 0.6, 0.1, 0.9],
                               "ph_count": 1 + k % 2, "top": "tag" if k % 2 else "list", "lib_prefix": "lib",
                               "include_version": True})
    for _ in range(ctx.budget(300, 6000)):
        nd = rng.choice([0, 1, 2, 2, 3])
        names = [rng.choice(TAME + ["n1", "n2"]) if rng.random() < 0.5 else hostile(rng, 2) for _ in range(nd)]
        pool = [rand_dep(rng, renderable=True, name=names[i]) for i in range(nd)]
        ph = rng.choice(['<meta data-foo="">', "<!-- deps -->", "{{deps}}"])
        tree = trees.rand_tree(rng, rng.choice([1, 2, 3]), leaves="TTHM", names="bbiv")
        pipe_cases.append({"kind": "pipeline", "pool": pool, "ph": ph, "tree": tree, "slots": [rng.random() for _ in range(nd + 3)],
                           "ph_count": rng.choice([1, 1, 2]), "top": rng.choice(["tag", "list"]),
                           "lib_prefix": rng.choice(["lib", None, "x/y"]), "include_version": rng.random() < 0.7})
    for case in pipe_cases:
        nd = len(case["pool"])
        r = pipeline_check(case)
        ctx.count(case, nd > 0, f"pipeline with {nd} dependencies")
        if isinstance(r, str):
            if r == "strict":
                n_strict += 1
            elif r == "lenient":
                n_len += 1
        else:
            bad_pipe.append((case, r))
    for case, r in bad_pipe:
        if "exc" in r:
            record_exc(ctx, "json-mode str() / HTMLTextDocument / HTMLDocument pipeline", case, ("exc", r["exc"]))
    bad_pipe = [x for x in bad_pipe if "exc" not in x[1]]
    if bad_pipe:
        bad_pipe.sort(key=lambda x: len(canon(x[0])))
        case, r = bad_pipe[0]
        ctx.violation(W_PIPE, case, {"impl_output": r.get("got"), "expected": r.get("want"), "what": r.get("what"),
                                     "failing_cases_in_this_run": len(bad_pipe)})
    ctx.extra["pipeline_head_equal_modulo_indent"] = n_strict
    ctx.extra["pipeline_head_equal_only_modulo_line_breaks"] = n_len
    ctx.extra["note_line_breaks"] = (
        "a dependency head given as Tag objects comes back as one markup string, so the line break TagList "
        "rendering puts between it and a neighbouring element can differ (newline vs nothing) between "
        "HTMLTextDocument and HTMLDocument; the markup itself is identical -- counted separately, not a violation")
    flush_exc(ctx)


def render_once(case):
    doc, _ = make_doc(case)
    extra = [build_dep(d) for d in case["extra"]]
    return safe_call(lambda: HTMLTextDocument(doc, deps=list(extra) if extra else None,
                                              deps_replace_pattern=case["ph"])
                     .render(lib_prefix=case["lib_prefix"], include_version=case["include_version"])["html"])


def place(tree, objs, slots):
    """insert the objects as extra children at pseudo-random positions of a built Tag tree"""
    tags_ = []

    def walk(t):
        if isinstance(t, Tag):
            tags_.append(t)
            for c in t.children:
                walk(c)
    walk(tree)
    for o, s in zip(objs, slots):
        t = tags_[int(s * len(tags_)) % len(tags_)]
        t.insert(int(s * 7919) % (len(t.children) + 1), o)


def pipeline_check(case):
    """'strict' / 'lenient' when both routes agree, else a dict describing the difference"""
    def build_x():
        root = trees.build(tuplify(case["tree"]))
        deps = [build_dep(d) for d in case["pool"]]
        objs = deps + [HTML(case["ph"])] * case["ph_count"]
        place(root, objs, case["slots"])
        return root if case["top"] == "tag" else TagList("lead ", root, deps[:1])

    kw = {"lib_prefix": case["lib_prefix"], "include_version": case["include_version"]}
    try:
        direct = HTMLDocument(build_x()).render(**kw)
        plain = str(build_x())
        with JsonMode():
            s = str(build_x())
        post = HTMLTextDocument(s, deps_replace_pattern=case["ph"]).render(**kw)
    except Exception as ex:  # noqa: BLE001
        htmltools.html_dependency_render_mode = "invisible"
        return {"what": f"valid input raised {type(ex).__name__}: {ex}", "exc": type(ex).__name__}
    d_deps = [dep_canon(d) for d in direct["dependencies"]]
    p_deps = [dep_canon(d) for d in post["dependencies"]]
    if d_deps != p_deps:
        return {"what": "dependency lists differ", "got": p_deps, "want": d_deps}
    i = plain.find(case["ph"])
    if i < 0:
        return {"what": "placeholder lost", "got": plain}
    # _render_tag_or_taglist joins the serialised elements with a line feed: those separators
    # are ordinary surrounding text and stay
    sep = "\n" * max(0, len(d_deps) - 1)
    before, after = plain[:i], plain[i + len(case["ph"]):] + sep
    html = post["html"]
    if not (html.startswith(before) and html.endswith(after) and len(html) >= len(before) + len(after)):
        return {"what": "text around the first placeholder is not the plain rendering", "got": html,
                "want": before + "<markup>" + after}
    mid = html[len(before):len(html) - len(after)]
    want = head_after_charset(direct["html"])
    if norm_strict(mid) == norm_strict(want):
        return "strict"
    if norm_lenient(mid) == norm_lenient(want):
        return "lenient"
    return {"what": "listing + dependency markup differ", "got": mid, "want": want}


@known_matcher("F3")
def _f3(what, case, detail) -> bool:
    """finding F3 (fixed by dfbc841): a close tag in another letter case / with a tail got through"""
    return what in (W_CLOSE, W_PARSER) and isinstance(case, dict) and case.get("kind") == "serialise"


def replay(ctx: Ctx, path: str) -> None:
    with open(path, encoding="utf-8") as f:
        r = json.load(f)
    case = r.get("case")
    print(json.dumps({k: r[k] for k in r if k != "detail"}, indent=1)[:3000])
    kind = case.get("kind") if isinstance(case, dict) else None
    if kind == "serialise":
        out = safe_call(lambda: build_dep(case["dep"]).serialize_to_script_json(indent=case["indent"]).get_html_string())
        print("element:", out)
        res = oracle_element(case, out)
        ctx.count(case, True, "replayed dependency")
        if res is not None:
            ctx.violation(res[0], case, {"impl_output": out, "detail": res[1]})
    elif kind == "doc":
        case["items"] = [tuple(x) for x in case["items"]]
        doc, want = doc_expected(case)
        out = run_extract(doc)
        ctx.count(case, True, "replayed document")
        if out != ("ok", want):
            ctx.violation(W_EXTRACT, case, {"impl_output": out, "expected": want, "document": doc})
    elif kind == "render":
        print("render() ->", render_once(case))
        ctx.count(case, True, "replayed render case")
        run(ctx)
    elif kind == "pipeline":
        res = pipeline_check(case)
        ctx.count(case, True, "replayed pipeline")
        if not isinstance(res, str):
            ctx.violation(W_PIPE, case, {"impl_output": res.get("got"), "expected": res.get("want"), "what": res.get("what")})
    else:
        run(ctx)

"""C04  Trusted markup is emitted verbatim and escaping happens exactly once.

Every public entry point / keyword argument through which the behaviour the statement describes
(HTML() / _repr_html_() / script-style text emitted byte for byte, as a child and as an attribute value;
plain text escaped exactly once; + / += / reflected + of HTML and str) can be reached, and where this
file exercises it ("programs" = the API-program stream of api_programs()):

  the concatenation algebra
    HTML.__add__ / HTML.__radd__ / += / operator.add, str / HTML / str-subclass / HTML-subclass / foreign
    operands, any grouping                                   differential (model) + chains of 7..300 operands, operands
                                                             of >= 300 / 5000 / 70000 characters; sums as children and
                                                             attribute values inside programs ('E' leaves)
  markup of a tree
    Tag.get_html_string(indent, eol)                         differential (model; indent 0..3, eol \n \r\n '' ' '), wide / deep /
                                                             many-attribute / long-string trees; programs (indent 0..5, odd eol)
    TagList.get_html_string(indent, eol, add_ws=)            differential (model), programs (add_ws False and True)
    Tag.tagify() / TagList.tagify() + get_html_string        programs
    Tag.render()['html'], TagList.render()['html']           programs
    str() / repr() / _repr_html_() of Tag and TagList        programs
    htmltools.html_dependency_render_mode = 'json' + str()   programs (markup part), and the whole text fed into
    HTMLTextDocument(text, deps=, deps_replace_pattern=<with regex metacharacters>).render(lib_prefix=, include_version=)
                                                             programs
  documents
    HTMLDocument(*content, lang= / class_= / style= / data_x= ... plain and HTML() values)
        .render(lib_prefix='lib' | None | 'a/b', include_version=True | False)      programs
    HTMLDocument.append(); copy.copy(document)               programs
    content that is a lone <html> tag (own <head>/<body>, own class / style colliding with the document's), a
    lone <body> tag; head_content(...) and dependencies with head= markup anywhere in the content      programs
    HTMLDocument.save_html(file, libdir='lib' | None | nested, include_version=), Tag.save_html(), TagList.save_html()
                                                             programs (the file on disk is read back)
  ways of putting a child / an attribute value into a tree
    Tag(...) / tags.<name>(...) / htmltools.<name>(...) (top-level re-exports); nested lists / tuples / TagLists
    (nesting depth up to 70); Tag.append / insert / extend; children.append / children += ; TagList + / reflected + /
    += / append / insert / extend; `with tag:` + sys.displayhook (wrap_displayhook_handler), nested with-blocks;
    objects with tagify(), objects with tagify() AND _repr_html_(); JSX components as siblings;
    attribute dicts, several dicts for one name (merged values), keyword arguments, attrs[k] = v, attrs.update,
    another tag's .attrs passed as attribute dict, consolidate_attrs(...) -> Tag(name, attrs, *children),
    Tag.add_class(v, prepend=) / Tag.add_style(v, prepend=) and those followed by consolidate_attrs       programs
    (Tag.remove_class is NOT exercised on HTML() class values: it rebuilds the value from its tokens as a plain str,
    Tag('div', class_=HTML('a&b c')).remove_class('c') renders class="a&amp;b" -- reported, same family as the known
    finding C16-html-class-merge; the class-list operations are C16's subject)
  copies and shared objects
    copy.copy / copy.deepcopy / tagify() of the tree before rendering; a tag that was used as a context manager and is
    then copied / compared (==, as an operation only) / rendered; one object placed in two parents; every
    caller-supplied HTML() / self-rendering object checked unmodified afterwards; a second identically built
    object must render like the first                        programs
"""
from __future__ import annotations

import copy as _copy
import operator
import os
import random
import re
import sys
import tempfile

from ..common import Ctx, S, unS, differential, run_model, canon
from .. import trees
from ..trees import build, to_sx, safe_call, res_decode, ReprObj

import htmltools
from htmltools import HTML, HTMLDocument, HTMLTextDocument, Tag, TagList

SPEC_TEXT = {"&": "&amp;", "<": "&lt;", ">": "&gt;"}


def spec_escape(s: str) -> str:
    return "".join(SPEC_TEXT.get(c, c) for c in s)


class Other:
    """an object with str() and no __add__/__radd__"""
    def __init__(self, s):
        self.s = s

    def __str__(self):
        return self.s


# sizes just below, at and above the powers of two from 8 to 256, and one around 300
SIZES = [7, 8, 9, 15, 16, 17, 31, 32, 33, 63, 64, 65, 127, 128, 129, 255, 256, 257, 300]
DEPTHS = [7, 8, 9, 15, 16, 17, 31, 32, 33, 63, 64, 65, 70]
SPICE = ['<b>&amp;"q"</b>', "a<b&c>d", "&lt;&", "</script>'x'", "\"&'<>\n\r;", "&&amp;amp;<"]
LENGTHS = [300, 5000, 70000]


def tail_string(n: int, spice: str) -> str:
    """>= n characters; the interesting content sits at the very end and (for strings longer than 64 KiB)
    across the 64 KiB seam -- never within the first n characters' beginning"""
    block = "plain words without any markup; "
    s = (block * (n // len(block) + 1))[:n]
    if n > 65536:
        s = s[:65533] + spice + s[65533 + len(spice):]
    return s + spice


def rand_expr(rng, depth, need_valid=True):
    if depth <= 0 or rng.random() < 0.3:
        k = rng.choice([0, 0, 1, 1, 2] if not need_valid else [0, 0, 1, 1])
        return [0, k, trees.rand_text(rng, 5)]
    return [1, rand_expr(rng, depth - 1, need_valid), rand_expr(rng, depth - 1, need_valid)]


def chain_expr(leaves: list, shape: int):
    """a + expression over the given leaves: 0 left-nested ((a+b)+c)..., 1 right-nested, 2 balanced"""
    if len(leaves) == 1:
        return leaves[0]
    if shape == 0:
        e = leaves[0]
        for l in leaves[1:]:
            e = [1, e, l]
        return e
    if shape == 1:
        e = leaves[-1]
        for l in reversed(leaves[:-1]):
            e = [1, l, e]
        return e
    m = len(leaves) // 2
    return [1, chain_expr(leaves[:m], 2), chain_expr(leaves[m:], 2)]


def expr_sx(e):
    return [0, e[1], S(e[2])] if e[0] == 0 else [1, expr_sx(e[1]), expr_sx(e[2])]


def expr_leaves(e):
    # iterative: chains of several hundred operands are as deep as they are long
    out, stack = [], [e]
    while stack:
        x = stack.pop()
        if x[0] == 0:
            out.append(x)
        else:
            stack.append(x[2])
            stack.append(x[1])
    return out


def eval_py(e, rng_ops, leaves_out=None):
    """evaluate with the real operators; inner nodes choose between a + b, operator.add,
    and a += b.  leaves_out collects (operand object, its text) so that the caller can check
    that no operand object was modified (x += y must rebind, not mutate, an HTML() that may be
    referenced elsewhere)"""
    if e[0] == 0:
        o = [trees.mk_text, trees.mk_html, Other][e[1]](e[2])   # incl. str / HTML subclass instances
        if leaves_out is not None:
            leaves_out.append((o, e[2]))
        return o
    a = eval_py(e[1], rng_ops, leaves_out)
    b = eval_py(e[2], rng_ops, leaves_out)
    how = rng_ops.pop() if rng_ops else 0
    if how == 0:
        return a + b
    if how == 1:
        return operator.add(a, b)
    a += b
    return a


def count_ops(e):
    return len(expr_leaves(e)) - 1


def sized_exprs(rng) -> list:
    """chains of 7..300 operands in the three groupings, the interesting operands LAST (and first), and
    operands of >= 300 / 5000 / 70000 characters with their metacharacters at the tail"""
    out = []
    for j, n in enumerate(SIZES):
        for shape in ([j % 3] if n not in (64, 256, 300) else [0, 1, 2]):
            lv = [[0, 1 if (i * 7 + j) % 3 == 0 else 0, "w%d " % i] for i in range(n)]
            # make sure both kinds occur, and that the last two operands are a plain and a trusted one with metacharacters
            lv[0] = [0, 1, "<i>"]
            lv[-2] = [0, j % 2, rng.choice(SPICE)]
            lv[-1] = [0, 1 - j % 2, rng.choice(SPICE)]
            e = chain_expr(lv, shape)
            out.append((e, [rng.choice([0, 1, 2]) for _ in range(n - 1)]))
    for n in LENGTHS:
        for kind in (0, 1):
            big = [0, kind, tail_string(n, rng.choice(SPICE))]
            small = [0, 1 - kind, rng.choice(SPICE)]
            for e in ([1, big, small], [1, small, big], [1, [1, small, big], [0, 0, "<t&"]]):
                out.append((e, [rng.choice([0, 1, 2]) for _ in range(count_ops(e))]))
    return out


def sized_trees(rng) -> list:
    """descriptions (trees.py format) that are wide / deep / have many attributes / hold long strings, the trusted
    content with metacharacters in the LAST child / attribute / at the bottom / in the tail"""
    out = []
    for j, n in enumerate(SIZES):
        sp = rng.choice(SPICE)
        last = [("H", sp), ("R", sp), ("T", sp)][j % 3]
        # children of mixed kinds
        kids = [[("T", "t%d<" % i), ("H", "<u>%d</u>" % i), ("R", "r&%d" % i), ("M", None),
                 ("G", "span", False, [], [("H", "&%d" % i)])][(i + j) % 5] for i in range(n - 1)] + [last]
        out.append(("G", ["div", "span", "p"][j % 3], j % 2 == 0, [], kids))
        # siblings of one kind (all HTML / all self-rendering / all text inside script or style)
        one = [("H", "R", "T")[j % 3]] * (n - 1)
        name = ["div", "span", "script", "style"][j % 4] if j % 3 != 2 else ["script", "style"][j % 2]
        out.append(("G", name, j % 2 == 1, [], [(k, "<%d&>" % i) for i, k in enumerate(one)] + [(one[0], sp)]))
        # attributes: the trusted value is the last one
        attrs = [("data-a%d" % i, ("H" if (i + j) % 4 == 0 else "S", "v<%d>&" % i)) for i in range(n - 1)] + [("data-last", ("H", sp))]
        out.append(("G", "div", True, attrs, [("T", "x")]))
    for j, n in enumerate(DEPTHS):
        sp = rng.choice(SPICE)
        d = [("H", sp), ("R", sp), ("G", "script", True, [], [("T", sp), ("T", sp)]), ("G", "i", False, [("title", ("H", sp))], [])][j % 4]
        for i in range(n):
            name, ws = [("div", True), ("span", False), ("section", True), ("b", False)][(i + j) % 4]
            d = ("G", name, ws, [], [d] if (i + j) % 3 else [("T", "&"), d, ("H", "<hr>")])
        out.append(d)
    for n in LENGTHS:
        for j, sp in enumerate(SPICE[:3]):
            s = tail_string(n, sp)
            out.append(("G", "div", True, [], [("T", "a<"), [("H", s), ("R", s), ("T", s)][j], ("M", None)]))
            if j == 0:
                out.append(("G", "style", True, [], [("T", s), ("H", "<&>")]))
                out.append(("G", "script", False, [], [("T", s)]))
                out.append(("G", "a", False, [("href", ("S", "u&v")), ("title", ("H", s))], [("H", sp)]))
    return out


def iterating_entry_points(ctx: Ctx) -> None:
    """HTML() handed to the entry points that ITERATE their argument (extend, +, +=, reflected +, star
    arguments): however the pieces are cut, their concatenated rendering is the trusted string, byte
    for byte (the unchanged library makes one HTML child per character)."""
    rng = ctx.rng
    marks = ["<b>&amp;</b>", "a<b", "&", "<!-- x -->", "x>y<z", "<i>\u00e9</i>&nbsp;"] + \
            [m for m in (trees.rand_text(rng, 8) for _ in range(ctx.budget(40, 400))) if m]
    for m in marks:
        h = HTML(m)
        routes = {
            "TagList().extend(HTML)": lambda: (lambda t: (t.extend(h), t)[1])(TagList()),
            "TagList('x') + HTML": lambda: TagList() + h,
            "TagList += HTML": lambda: (lambda t: t.__iadd__(h))(TagList()),
            "Tag.extend(HTML)": lambda: (lambda t: (t.extend(h), t.children)[1])(Tag("div")),
            "Tag(*HTML)": lambda: Tag("div", *h).children,
            "TagList(*HTML)": lambda: TagList(*h),
            "TagList(list(HTML))": lambda: TagList(list(h)),
        }
        for name, f in routes.items():
            ctx.count(("iterating", name, m), any(c in m for c in "&<>"), "HTML() through an iterating entry point")
            r = safe_call(lambda: f().get_html_string(add_ws=False) if isinstance(f(), TagList) else None)
            if r[0] == "ok" and r[1] is not None and r[1].replace("\n", "") != m.replace("\n", ""):
                ctx.violation("HTML() handed to an entry point that iterates its argument (extend / + / += / star arguments) is "
                              "not emitted byte for byte", {"route": name, "markup": m},
                              {"impl_output": r[1], "expected": m})


def run(ctx: Ctx) -> None:
    rng = ctx.rng
    ctx.rule = ("(1) random + expressions (depth <= 5) over str / HTML() / other objects with metacharacter-heavy "
                "operands, evaluated with real +, operator.add and +=, rendered as only child, among siblings and "
                "inside script, plus chains of 7..300 operands in three groupings and operands of 300 / 5000 / 70000 "
                "characters; (2) random trees with HTML(), _repr_html_ objects and script/style text in every child "
                "position and HTML() attribute values, plus trees with 7..300 children / same-kind siblings / "
                "attributes, nesting depth 7..70 and strings of 300 / 5000 / 70000 characters (trusted content last / "
                "at the bottom / in the tail); (3) API programs: the same kinds of trees (also with sums, head_content, "
                "dependencies, tagifiable and tagifiable+self-rendering objects, JSX siblings, merged attribute values) "
                "built through every public construction route and observed through every public rendering route with "
                "non-default arguments. Non-trivial = expression mixes str and HTML operands / tree has "
                "a raw leaf containing a metacharacter; distinct = canonical input.")
    ctx.assumptions = ["UserString methods other than + (join, format, %) are outside the statement and not checked",
                       "API programs judge each route against itself run on the same tree with every trusted / plain string "
                       "replaced by an inert alphanumeric token: the statement (byte for byte, in every position, on every "
                       "path) makes the output a function of the tree shape into which the strings are substituted; "
                       "JSX components are opaque siblings (their own serialisation is C20's subject)"]
    ctx.proof()
    iterating_entry_points(ctx)

    # ---- concatenation algebra -------------------------------------------------------
    exprs = []
    for _ in range(ctx.budget(4000, 60000)):
        e = rand_expr(rng, rng.choice([1, 2, 3, 4, 5]), need_valid=rng.random() < 0.8)
        ops = [rng.choice([0, 1, 2]) for _ in range(count_ops(e))]
        exprs.append((e, ops))
    exprs.append(([1, [0, 0, "&"], [1, [0, 1, "&"], [0, 0, "<"]]], [0, 0]))
    exprs += sized_exprs(rng)

    def impl(c):
        e, ops = c
        lv_objs = []
        r = safe_call(lambda: eval_py(e, list(ops), lv_objs))
        for o, txt in lv_objs:
            if str(o) != txt:
                ctx.violation("an operand object of + / += was modified in place (it no longer renders verbatim where "
                              "else it is used)", c, {"operand_now": str(o), "operand_before": txt})
        if r[0] != "ok":
            return ("typeerror",) if r == ("err", 3) else r
        v = r[1]
        kind = 1 if isinstance(v, HTML) else 0 if isinstance(v, str) else 2
        if kind == 2:
            return ("val", 2, str(v), None)
        rendered = safe_call(lambda: Tag("div", v).get_html_string())
        inner = rendered[1][5:-6] if rendered[0] == "ok" else rendered
        return ("val", kind, str(v), inner)

    def decode(m):
        if m[0] == 0:
            return ("typeerror",)
        return ("val", m[1][0], unS(m[1][1]), None if m[1][0] == 2 else unS(m[2]))

    def oracle(c, out):
        e, ops = c
        lv = expr_leaves(e)
        if out[0] != "val":
            return None
        if all(l[1] in (0, 1) for l in lv) and any(l[1] == 1 for l in lv):
            if out[1] != 1:
                return "concatenation involving HTML() did not yield HTML()"
        if out[1] == 2:
            return None
        want = "".join(l[2] if l[1] == 1 else spec_escape(l[2]) for l in lv)
        if out[3] != want:
            return "rendering of the sum differs from rendering the operands as adjacent children (escaped once / never)"
        # rendering the operands as separate adjacent children, on the implementation
        kids = [HTML(l[2]) if l[1] == 1 else l[2] for l in lv]
        sep = safe_call(lambda: Tag("span", *kids, _add_ws=False).get_html_string())
        if sep != ("ok", "<span>" + want + "</span>"):
            return "operands as adjacent children do not render as the concatenation of their forms"
        return None

    differential(ctx, "HTML.__add__/__radd__/+= expressions", exprs,
                 to_sx=lambda c: [7, expr_sx(c[0])], impl=impl, decode=decode, oracle=oracle,
                 nontrivial=lambda c: len({l[1] for l in expr_leaves(c[0])}) > 1,
                 kind=lambda c: f"{min(len(expr_leaves(c[0])), 9)} operands")

    # ---- verbatim emission in trees ----------------------------------------------------
    from .C02 import text_to_html
    cases = []
    for _ in range(ctx.budget(2500, 40000)):
        d = trees.rand_tree(rng, rng.choice([1, 2, 3, 4]), leaves="THHRRM", names="bivsssckk")
        cases.append((d, rng.randrange(0, 4), rng.choice(["\n", "\r\n", "", " "])))
    for d in sized_trees(rng):
        cases.append((d, rng.randrange(0, 4), rng.choice(["\n", "\r\n", "", " "])))

    def raw_leaves(d, under_noesc=False, acc=None):
        acc = [] if acc is None else acc
        k = d[0]
        if k in ("H", "R"):
            acc.append(d[1])
        elif k == "T" and under_noesc:
            acc.append(d[1])
        elif k == "G":
            for key, (m, v) in d[3]:
                if m == "H":
                    acc.append(f' {key}="{v}"')
            for x in d[4]:
                raw_leaves(x, d[1] in ("script", "style"), acc)
        return acc

    def oracle_tree(c, out):
        if out[0] != "ok":
            return None
        # every trusted string appears byte for byte, in document order
        pos = 0
        order = []
        d = c[0]

        def walk(x, noesc):
            if x[0] == "G":
                for key, (m, v) in x[3]:
                    if m == "H":
                        order.append(f' {key}="{v}"')
                for y in x[4]:
                    walk(y, x[1] in ("script", "style"))
            elif x[0] in ("H", "R") or (x[0] == "T" and noesc):
                order.append(x[1])
        walk(d, False)
        for s in order:
            j = out[1].find(s, pos)
            if j < 0:
                return f"trusted markup {s[-60:]!r} is not emitted verbatim (in document order)"
            pos = j + len(s)
        # plain text escaped exactly once: the same tree with each text child given as HTML(its escaped form)
        want = safe_call(lambda: build(text_to_html(d)).get_html_string(c[1], c[2]))
        if out != want:
            return "plain text is not escaped exactly once next to trusted markup"
        return None

    differential(ctx, "Tag.get_html_string (trusted markup)", cases,
                 to_sx=lambda c: [2, to_sx(c[0]), c[1], S(c[2])],
                 impl=lambda c: safe_call(lambda: build(c[0]).get_html_string(c[1], c[2])),
                 decode=lambda m: res_decode(m, unS), oracle=oracle_tree,
                 nontrivial=lambda c: any(any(ch in s for ch in "&<>\"'") for s in raw_leaves(c[0])),
                 kind=lambda c: "tree")
    list_level(ctx)
    api_programs(ctx)


def list_level(ctx: Ctx) -> None:
    """top-level TagList rendering (no enclosing tag): trusted markup verbatim, plain text escaped
    exactly once, in every position"""
    from .C02 import text_to_html
    rng = ctx.rng
    lcases = []
    for _ in range(ctx.budget(1200, 15000)):
        items = [trees.rand_child(rng, rng.choice([0, 1, 2]), leaves="TTHHRM", names="bivssck")
                 for _ in range(rng.choice([1, 2, 3, 4]))]
        lcases.append((items, rng.randrange(0, 3), rng.choice(["\n", "", "\r\n"]), rng.random() < 0.5))
    # long top-level lists, the interesting items last
    for j, n in enumerate(SIZES):
        sp = rng.choice(SPICE)
        items = [[("T", "t%d<" % i), ("H", "<u>%d</u>" % i), ("R", "r&%d" % i), ("G", "b", False, [], [("T", "&")])][(i + j) % 4]
                 for i in range(n - 2)] + [("T", sp), [("H", sp), ("R", sp)][j % 2]]
        lcases.append((items, j % 3, ["\n", "", "\r\n"][j % 3], j % 2 == 0))

    def impl(c):
        return safe_call(lambda: TagList(*[build(d) for d in c[0]]).get_html_string(c[1], c[2], add_ws=c[3]))

    def oracle(c, out):
        want = safe_call(lambda: TagList(*[build(text_to_html(d)) for d in c[0]]).get_html_string(c[1], c[2], add_ws=c[3]))
        if out != want:
            return "in a top-level list, plain text is not escaped exactly once / trusted markup is not verbatim"
        return None

    differential(ctx, "TagList.get_html_string (trusted markup and text at top level)", lcases,
                 to_sx=lambda c: [3, [to_sx(d) for d in c[0]], c[1], S(c[2]), 1 if c[3] else 0, 1],
                 impl=impl, decode=lambda m: res_decode(m, unS), oracle=oracle,
                 nontrivial=lambda c: any(d[0] in "TH" for d in c[0]), kind=lambda c: "list")


# =========================================================================================
# API programs: every construction route x every rendering route, judged by substitution
# =========================================================================================
# Program descriptions (lists, JSON-able):
#   ["T", s] ["H", s] ["R", s]             plain text / HTML(s) / object whose _repr_html_() is s
#   ["E", [[kind, s], ...], [how, ...]]    HTML built by + / operator.add / += from the operands (kind 0 plain, 1 HTML)
#   ["M", None | {name, version, head}]    MetadataNode / HTMLDependency whose head= markup is s
#   ["K", [desc, ...]]                     head_content(*children)
#   ["J"]                                  a JSX component with fixed content (opaque sibling)
#   ["C", self_html | None, [desc, ...], as_list]   object with tagify() (and, with self_html, also _repr_html_())
#   ["G", name, ws, [[key, [[m, v], ...]], ...], [desc, ...]]   Tag; several values of one key are merged by the library
#
# The statement says that trusted strings go into the output byte for byte and plain text escaped exactly once, in
# every position and on every path.  So for ANY way of building the tree and ANY way of rendering it, the output must
# be the output of the SAME program run with every such string replaced by an inert token (alphanumeric: nothing to
# escape), with each token then replaced by the string's due form: the string itself (trusted) or its per-character
# escaped form (plain text child).  Both runs take the same construction and rendering route (drawn from a PRNG
# seeded by the case, never from the content).  Plain attribute values are the same in both runs (their form is
# C03's subject).  In addition, in the token run every token that the route must show has to be there, children in
# document order.
TOKEN_RE = re.compile(r"TOK(\d+)KOT")
HASHNAME_RE = re.compile(r"headcontent_[0-9a-f]{40}")
PROGRAMS = "API programs (construction route x rendering route)"
PLACEHOLDERS = ["<!--HEAD.*(PLACE)+[HOLDER]$-->", "{{ head|^\\d+? }}", "<meta name=\"deps\" content=\"a|b\\1\">"]
NOESC = ("script", "style")
KW_NAMES = {"class": "class_", "style": "style", "id": "id", "title": "title", "href": "href", "lang": "lang",
            "data-x": "data_x", "onclick": "onclick", "viewBox": "viewBox"}
CHILD_MODES = ["ctor", "ctor", "nested", "deepnest", "append", "append_pairs", "extend", "insert", "iadd",
               "children_append", "taglist_add", "with", "with", "fn"]
ATTR_MODES = ["dicts", "dict1", "kwargs", "other_attrs", "consolidate", "setitem", "update", "helpers",
              "helpers_consolidate"]
LIST_MODES = ["ctor", "add", "radd", "iadd", "append", "insert", "extend"]
ATTR_CLASS = {"body": "attr", "head": "head", "opt": "opt", "attr": "attr"}
POSTS = ["none", "none", "none", "copy", "deepcopy", "tagify", "eq", "twice", "entered", "noise"]


SAVE = {"dir": None, "n": 0}
ROUTE_NAMES = [n for n, _ in trees.render_routes(None)]


def _sink(value) -> None:
    return None


class Sub:
    """the strings of a run: themselves (real run) or tokens (reference run).  One token per due output form, so
    that two strings emitted alike get the same token (content-keyed behaviour such as the name of a head_content
    item is then the same in both runs)"""

    def __init__(self, tokens: bool):
        self.tokens = tokens
        self.ids: dict = {}
        self.back: list = []

    def tok(self, emitted: str) -> str:
        i = self.ids.get(emitted)
        if i is None:
            i = self.ids[emitted] = len(self.back)
            self.back.append(emitted)
        return f"TOK{i}KOT"

    def raw(self, s: str) -> str:
        return self.tok(s) if self.tokens else s

    def esc(self, s: str) -> str:
        return self.tok(spec_escape(s)) if self.tokens else s

    def expand(self, out: str) -> str:
        return TOKEN_RE.sub(lambda m: self.back[int(m.group(1))], out)


class Builder:
    def __init__(self, tokens: bool, case: dict):
        self.sub = Sub(tokens)
        self.case = case
        self.prng = random.Random(case["seed"])
        self.force = list(case.get("force") or [])
        self.seq: list = []       # tokens of children that every rendering shows, in document order
        self.head: list = []      # tokens shown by document routes only (head_content / dependency head markup)
        self.attr: list = []      # tokens of HTML() attribute values
        self.objs: list = []      # (caller-supplied object, its text)
        self.how: list = []       # routes taken (for the report)
        self.memo: dict = {}
        self.hmemo: dict = {}
        self.in_with = 0
        self.in_expansion = 0
        self.obs_notes = None
        self.obs_exclude: list = []
        self.root_attr_tokens: dict = {}     # attribute name -> tokens, of the root tag when that is an <html> tag

    # ---- strings -------------------------------------------------------------------------
    def note(self, t: str, cls: str) -> None:
        if self.sub.tokens:
            if self.obs_notes is not None:      # strings supplied while rendering (document attributes ...): this route only
                if cls in ("head", "attr"):
                    self.obs_notes.append(t)
                return
            {"body": self.seq, "head": self.head, "attr": self.attr}.get(cls, []).append(t)

    def raw(self, s, cls):
        t = self.sub.raw(s)
        self.note(t, cls)
        return t

    def esc(self, s, cls):
        t = self.sub.esc(s)
        self.note(t, cls)
        return t

    def html(self, text: str):
        """an HTML() for the text: HTML / a user subclass / a copy / HTML(HTML(..)); sometimes THE SAME object as used
        before for this text (as a child, an attribute value, an operand): nothing may modify it"""
        v = self.prng.randrange(8)
        share = self.prng.random() < 0.35
        if share and text in self.hmemo:
            return self.hmemo[text]
        o = (trees.HtmlSub(text) if v == 0 else _copy.copy(HTML(text)) if v == 1 else _copy.deepcopy(HTML(text)) if v == 2
             else HTML(HTML(text)) if v == 3 else HTML(text))
        self.objs.append((o, text))
        self.hmemo.setdefault(text, o)
        return o

    # ---- nodes ---------------------------------------------------------------------------
    def build(self, d, noesc=False, cls="body"):
        k = d[0]
        if k == "T":
            v = self.prng.randrange(5)
            s = d[1]
            txt = self.raw(s, cls) if noesc else self.esc(s, cls)
            if not self.sub.tokens and v == 0 and s in trees.NUMERIC and str(trees.NUMERIC[s]) == s and not self.in_expansion:
                return trees.NUMERIC[s]          # the number itself (stored as its str() text)
            return trees.StrSub(txt) if v == 1 else txt
        share = self.prng.random() < 0.5
        key = None
        if k in "GHR" and self.in_with == 0:
            key = canon([d, noesc, cls])
            if share and key in self.memo:
                return self.memo[key]            # one object at two places
        if k == "H":
            o = self.html(self.raw(d[1], cls))
        elif k == "R":
            v = self.prng.randrange(4)
            txt = self.raw(d[1], cls)
            o = trees.ReprObjWs(txt) if v == 0 else trees.ReprObjHtml(txt) if (v == 1 and trees.REPR_RETURNS_HTML) else ReprObj(txt)
            self.objs.append((o, txt))
        elif k == "E":
            o = self.build_sum(d, cls)
        elif k == "M":
            if d[1] is None:
                return htmltools.MetadataNode()
            p = dict(d[1])
            if p.get("head") is not None:
                # (whether THIS dependency's markup shows is decided by name / version resolution: C12's subject)
                p["head"] = self.raw(p["head"], "opt")
            return htmltools.HTMLDependency(**p)
        elif k == "K":
            return htmltools.head_content(*[self.build(x, False, "head" if cls != "opt" else "opt") for x in d[1]])
        elif k == "J":
            from htmltools._jsx import jsx_tag_create
            return jsx_tag_create("Widget")("static text", Tag("b", "bold"), size=3, label="plain")
        elif k == "C":
            _, sh, exp, as_list = d[:4]
            inner = "opt" if sh is not None else cls      # tagifiable AND self-rendering: which of the two shows depends on the route
            self.in_expansion += 1         # (what tagify() returns must be nodes: no raw numbers there)
            try:
                exp_b = [self.build(x, noesc, inner) for x in exp]
            finally:
                self.in_expansion -= 1
            if sh is None:
                return trees.CustomObj(exp_b, as_list)
            return trees.CustomReprObj(exp_b, as_list, self.raw(sh, "opt"))
        elif k == "G":
            o = self.build_tag(d, cls)
        else:
            raise ValueError(d)
        if key is not None:
            self.memo.setdefault(key, o)
        return o

    def build_sum(self, d, cls):
        """an HTML() made by concatenation: each plain operand escaped exactly once, HTML operands never -- whatever
        the parent (the sum is trusted markup)"""
        _, parts, hows = d[:3]
        ops = []
        for kind, s in parts:
            ops.append(self.html(self.raw(s, cls)) if kind == 1 else self.esc(s, cls))
        acc = ops[0]
        for i, o in enumerate(ops[1:]):
            how = hows[i % len(hows)] if hows else 0
            if how == 0:
                acc = acc + o
            elif how == 1:
                acc = operator.add(acc, o)
            else:
                acc += o
        if not isinstance(acc, HTML):
            # plain operands only so far: the statement's subject is a sum involving HTML()
            acc = HTML("") + acc if self.prng.random() < 0.5 else acc + HTML("")
        return acc

    def attr_values(self, attrs, cls):
        """[(key, [(m, text)])]: HTML values tokenised, plain values as they are"""
        out = []
        for key, vals in attrs:
            out.append((key, [(m, self.raw(v, ATTR_CLASS[cls]) if m == "H" else v) for m, v in vals]))
        return out

    def val(self, m, text, suffix=""):
        return self.html(text + suffix) if m == "H" else text + suffix

    def new_tag(self, name, ws, av, amode, kb, fn=None):
        """the tag with its attributes (attribute route amode) and constructor children kb"""
        mk = fn if fn is not None else (lambda *a, **kw: Tag(name, *a, **kw))
        dicts = [{key: self.val(m, t)} for key, vals in av for m, t in vals]
        if amode in ("dicts", "dict1", "kwargs"):
            if amode == "dict1":
                first = {key: self.val(*vals[0]) for key, vals in av}
                dicts = ([first] if first else []) + [{key: self.val(m, t)} for key, vals in av for m, t in vals[1:]]
            kw = {}
            if amode == "kwargs":
                dicts = []
                for key, vals in av:
                    for i, (m, t) in enumerate(vals):
                        if i == 0 and key in KW_NAMES:
                            kw[KW_NAMES[key]] = self.val(m, t)
                        else:
                            dicts.append({key: self.val(m, t)})
            return mk(*dicts, *kb, _add_ws=ws, **kw)
        if amode == "other_attrs":
            src = Tag("span", *dicts)
            return mk(src.attrs, *kb, _add_ws=ws)
        if amode == "consolidate":
            a, k2 = htmltools.consolidate_attrs(*dicts, *kb)
            return mk(a, *k2, _add_ws=ws)
        if amode == "helpers_consolidate":
            t0 = Tag("div")
            self.apply_attrs(t0, av, "helpers")
            a, k2 = htmltools.consolidate_attrs(t0.attrs, *kb)
            return mk(a, *k2, _add_ws=ws)
        t = mk(*kb, _add_ws=ws)
        self.apply_attrs(t, av, amode)
        return t

    def apply_attrs(self, t, av, amode):
        for key, vals in av:
            for i, (m, text) in enumerate(vals):
                pre = self.prng.random() < 0.4
                if amode == "helpers" and key == "class":
                    t.add_class(self.val(m, text), prepend=pre)
                elif amode == "helpers" and key == "style":
                    t.add_style(self.val(m, text, ";"), prepend=pre)
                elif i == 0:
                    if amode == "update":
                        t.attrs.update({key: self.val(m, text)})
                    else:
                        t.attrs[key] = self.val(m, text)
                else:
                    t.attrs.update({key: t.attrs.get(key)}, {key: self.val(m, text)})

    def build_tag(self, d, cls, auto_append=False):
        _, name, ws, attrs, kids = d[:5]
        raw = name in NOESC
        mode = self.force.pop(0) if self.force else self.prng.choice(CHILD_MODES)
        amode = self.prng.choice(ATTR_MODES)
        if auto_append:
            mode = "with"
        av = self.attr_values(attrs, cls)
        if self.sub.tokens and name == "html" and d is self.case["tree"]:
            self.root_attr_tokens = {key: [t for m, t in vals if m == "H"] for key, vals in av}
        fn = None
        if mode == "fn":
            fn = getattr(htmltools, name, None) if self.prng.random() < 0.5 else None
            if not callable(fn) or isinstance(fn, type):
                fn = getattr(htmltools.tags, name, None)
            if not callable(fn) or isinstance(fn, type):
                fn, mode = None, "ctor"
        self.how.append(f"<{name}>: children via {mode}, attributes via {amode}")
        if mode == "with":
            t = self.new_tag(name, ws, av, amode, [])
            saved = sys.displayhook
            if not auto_append:
                sys.displayhook = _sink        # on leaving the block the tag is displayed: to nobody
            self.in_with += 1
            try:
                with t:
                    for kd in kids:
                        if kd[0] == "G" and self.prng.random() < 0.5:
                            self.build_tag(kd, cls, auto_append=True)     # a nested with-block: displays itself on exit
                        else:
                            sys.displayhook(self.build(kd, raw, cls))
            finally:
                self.in_with -= 1
                sys.displayhook = saved
            return t
        kb = [self.build(kd, raw, cls) for kd in kids]
        if mode in ("ctor", "fn"):
            return self.new_tag(name, ws, av, amode, kb, fn)
        if mode == "nested":
            return self.new_tag(name, ws, av, amode, [[kb[:1], (kb[1:],)], None])
        if mode == "deepnest":
            x = kb
            depth = self.prng.choice(DEPTHS)
            for i in range(self.case.get("nest_depth") or depth):
                x = [x] if i % 3 == 0 else (x,) if i % 3 == 1 else [None, TagList(x)]
            return self.new_tag(name, ws, av, amode, [x])
        t = self.new_tag(name, ws, av, amode, [])
        if mode == "append":
            for k in kb:
                t.append(k)
        elif mode == "append_pairs":
            for j in range(0, len(kb), 2):
                t.append(*kb[j:j + 2])
        elif mode == "extend":
            t.extend(kb)
        elif mode == "insert":
            for k in reversed(kb[:1] + kb[2:]):
                t.insert(0, k)
            if len(kb) > 1:
                t.insert(1, kb[1])             # in the middle
        elif mode == "iadd":
            for k in kb:
                t.children += [k]
        elif mode == "children_append":
            for k in kb:
                t.children.append(k)
        elif mode == "taglist_add":
            if kb:
                rest = TagList() + kb[1:-1] if len(kb) > 1 else TagList()
                if len(kb) > 1:
                    rest = rest + kb[-1] if isinstance(kb[-1], str) else rest + [kb[-1]]      # TagList + str: one text item
                t.children = kb[0] + rest if isinstance(kb[0], str) else [kb[0]] + rest         # str + TagList (reflected)
        else:
            raise ValueError(mode)
        return t

    def build_top(self):
        case = self.case
        if case["top"] == "tag":
            x = self.build(case["tree"])
        else:
            items = [self.build(d) for d in case["tree"]]
            mode = self.prng.choice(LIST_MODES)
            self.how.append(f"top-level TagList via {mode}")
            if mode == "ctor":
                x = TagList(*items)
            elif mode == "add":
                x = TagList(*items[:1]) + items[1:-1] if len(items) > 1 else TagList(*items)
                if len(items) > 1:
                    x = x + items[-1] if isinstance(items[-1], str) else x + [items[-1]]
            elif mode == "radd":
                x = (items[0] + TagList(*items[1:]) if isinstance(items[0], str) else items[:1] + TagList(*items[1:])) if items else TagList()
            elif mode == "iadd":
                x = TagList()
                x += items
            elif mode == "append":
                x = TagList()
                x.append(*items) if items else None
            elif mode == "insert":
                x = TagList()
                for k in reversed(items[:1] + items[2:]):
                    x.insert(0, k)
                if len(items) > 1:
                    x.insert(1, items[1])
            else:
                x = TagList()
                x.extend(items)
        post = case["post"]
        if post == "copy":
            x = _copy.copy(x)
        elif post == "deepcopy":
            x = _copy.deepcopy(x)
        elif post == "tagify":
            x = x.tagify()
        elif post == "eq":
            _ = (x == _copy.copy(x))           # an operation only: the statement says nothing about its value
        elif post == "twice":
            x = TagList(x, Tag("section", Tag("span", x, _add_ws=False))) if self.prng.random() < 0.5 else Tag("div", x, x)
        elif post == "entered" and isinstance(x, Tag) and x.prev_displayhook is None:
            saved = sys.displayhook
            sys.displayhook = _sink
            try:
                with x:
                    pass
            finally:
                sys.displayhook = saved
            y = _copy.copy(x)
            _ = (x == y)
            x = y if self.prng.random() < 0.5 else x
        elif post == "noise":
            x.get_dependencies(dedup=False)
            x.get_dependencies()
            _ = (x == x)
            repr(x)
        return x

    # ---- rendering routes ------------------------------------------------------------------
    def doc_kw(self, which="doc_attrs"):
        kw = {}
        for key, vals in self.attr_values(self.case.get(which) or [], "attr"):
            m, t = vals[0]
            kw[KW_NAMES[key]] = self.val(m, t)
        return kw

    def document(self, x, variant):
        kw = self.doc_kw()
        if variant in ("plain", "append", "copy"):
            # content that is itself a lone <html> tag: the document's attributes REPLACE the tag's own ones of the
            # same name (C11 / C15), so those need not show
            for k in kw:
                self.obs_exclude += self.root_attr_tokens.get({v: a for a, v in KW_NAMES.items()}[k], [])
        if variant == "plain":
            return HTMLDocument(x, **kw)
        if variant == "append":
            doc = HTMLDocument(**kw)
            doc.append(x)
            return doc
        if variant == "copy":
            return _copy.copy(HTMLDocument(x, **kw))
        if variant == "body":
            return HTMLDocument(Tag("body", x, {"data-b": "1"}), **kw)
        # own attributes whose name the document's attributes also use are replaced: their tokens need not show
        keep = list(self.obs_notes) if self.obs_notes is not None else None
        own = self.doc_kw("own_attrs")
        if keep is not None:
            self.obs_notes[:] = keep + [str(v) for k, v in own.items() if isinstance(v, HTML) and k not in kw]
        if variant == "html":
            return HTMLDocument(Tag("html", Tag("head", Tag("title", "t")), Tag("body", x), **own), **kw)
        if variant == "html_nohead":
            return HTMLDocument(Tag("html", Tag("body", x), **own), **kw)
        raise ValueError(variant)

    def observe(self, x, o):
        what = o[0]
        if what == "ghs":
            if isinstance(x, TagList):
                return x.get_html_string(o[1], o[2], add_ws=o[3])
            return x.get_html_string(o[1], o[2])
        if what == "tagify_ghs":
            y = x.tagify()
            if isinstance(y, TagList):
                return y.get_html_string(o[1], o[2], add_ws=o[3])
            return y.get_html_string(indent=o[1], eol=o[2])
        if what == "route":
            return trees.render_routes(x)[o[1]][1]()
        if what == "doc":
            return self.document(x, o[1]).render(lib_prefix=o[2], include_version=o[3])["html"]
        if what == "save":
            # one scratch directory per run (creating one per call is what costs time); a new file name per call
            SAVE["n"] += 1
            f = os.path.join(SAVE["dir"], "page%d.html" % SAVE["n"])
            try:
                if o[1] == "self":
                    x.save_html(f, libdir=o[2], include_version=o[3])
                else:
                    self.document(x, o[1]).save_html(f, libdir=o[2], include_version=o[3])
                with open(f, encoding="utf-8", newline="") as fh:
                    return fh.read()
            finally:
                if os.path.exists(f):
                    os.unlink(f)
        if what == "text":
            ph = PLACEHOLDERS[o[1]]
            old = htmltools.html_dependency_render_mode
            try:
                htmltools.html_dependency_render_mode = "json"
                s = str(x)
            finally:
                htmltools.html_dependency_render_mode = old
            text = "<!DOCTYPE html>\n<html><head>" + ph + "</head><body>\n" + s + "\n<!-- " + ph + " --></body></html>"
            extra = [htmltools.HTMLDependency("extra", "1.1", head=self.raw("<meta name='e' content='&<>'>", "head"))] if o[4] else None
            return HTMLTextDocument(text, deps=extra, deps_replace_pattern=ph).render(lib_prefix=o[2], include_version=o[3])["html"]
        raise ValueError(o)


def rand_obs(rng, top: str) -> list:
    r = rng.random()
    lib = rng.choice(["lib", None, "a/b"])
    incl = rng.random() < 0.5
    if r < 0.22:
        return ["ghs", rng.choice([0, 1, 2, 3, 5]), rng.choice(["\n", "\r\n", "", " ", "\t\n"]), rng.random() < 0.5]
    if r < 0.34:
        return ["tagify_ghs", rng.choice([0, 1, 2, 4]), rng.choice(["\n", "\r\n", "", "\n\n"]), rng.random() < 0.5]
    if r < 0.56:
        return ["route", rng.randrange(0, 7)]
    if r < 0.78:
        return ["doc", rng.choice(["plain", "append", "copy", "body", "html", "html", "html_nohead"]), lib, incl]
    if r < 0.9:
        return ["save", rng.choice(["self", "plain", "html", "body"]), lib, incl]
    return ["text", rng.randrange(0, len(PLACEHOLDERS)), lib, incl, rng.random() < 0.3]


def prog_of(d, rng):
    """trees.py description -> program description (lists; attributes get value lists, sometimes merged values;
    some leaves become sums)"""
    k = d[0]
    if k in "THR":
        if k != "R" and rng.random() < 0.06:
            e = rand_expr(rng, rng.choice([1, 2, 3]))
            lv = expr_leaves(e)
            return ["E", [[l[1], l[2]] for l in lv], [rng.choice([0, 1, 2]) for _ in lv]]
        return [k, d[1]]
    if k == "M":
        return ["M", d[1]]
    if k == "C":
        return ["C", d[1], [prog_of(x, rng) for x in d[2]], d[3]]
    _, name, ws, attrs, kids = d
    av = []
    for key, (m, v) in attrs:
        vals = [[m, v]]
        while rng.random() < 0.3:
            vals.append(["H" if rng.random() < 0.5 else "S", trees.rand_text(rng, 6)])
        av.append([key, vals])
    return ["G", name, ws, av, [prog_of(x, rng) for x in kids]]


def tag_nodes(p, acc=None):
    acc = [] if acc is None else acc
    if p[0] == "G":
        acc.append(p)
        for x in p[4]:
            tag_nodes(x, acc)
    return acc


def doc_attr_list(rng) -> list:
    keys = rng.sample(["class", "style", "lang", "data-x", "id", "title"], rng.choice([0, 1, 1, 2, 3]))
    return [[k, [["H" if rng.random() < 0.5 else "S", trees.rand_text(rng, 6) if k != "lang" else "en"]]] for k in keys]


def rand_program(rng) -> dict:
    top = "tag" if rng.random() < 0.7 else "list"
    kw = dict(leaves="TTHHHRRMD", names="bbiivsssckk", custom=True)
    if top == "tag":
        tree = prog_of(trees.rand_tree(rng, rng.choice([1, 2, 2, 3, 4]), **kw), rng)
    else:
        tree = [prog_of(trees.rand_child(rng, rng.choice([0, 1, 2]), **kw), rng) for _ in range(rng.choice([1, 2, 3, 4]))]
    # two features together: head content / a JSX sibling somewhere inside (not inside script / style, whose
    # children are text)
    hosts = [g for t in ([tree] if top == "tag" else tree) for g in tag_nodes(t) if g[1] not in NOESC and g[1] not in trees.VOID_NAMES]
    if hosts and rng.random() < 0.3:
        hk = [prog_of(trees.rand_child(rng, rng.choice([0, 0, 1]), leaves="THHRD", names="bis"), rng) for _ in range(rng.choice([1, 2, 3]))]
        h = rng.choice(hosts)
        h[4].insert(rng.randrange(0, len(h[4]) + 1), ["K", hk])
    if hosts and rng.random() < 0.08:
        h = rng.choice(hosts)
        h[4].insert(rng.randrange(0, len(h[4]) + 1), ["J"])
    return {"top": top, "tree": tree, "seed": rng.randrange(1 << 30), "post": rng.choice(POSTS),
            "doc_attrs": doc_attr_list(rng), "own_attrs": doc_attr_list(rng),
            "obs": [rand_obs(rng, top) for _ in range(3)]}


def sized_programs(rng) -> list:
    """sizes around the powers of two for every countable thing, through forced construction routes"""
    out = []

    def case(tree, force, obs=None, top="tag", post="none", **more):
        return {"top": top, "tree": tree, "seed": rng.randrange(1 << 30), "post": post, "force": force,
                "doc_attrs": doc_attr_list(rng), "own_attrs": doc_attr_list(rng),
                "obs": obs or [rand_obs(rng, top) for _ in range(2)], **more}
    modes = ["with", "append", "ctor", "deepnest", "insert", "extend", "iadd", "append_pairs", "taglist_add", "children_append", "nested", "fn"]
    for j, n in enumerate(SIZES):
        sp = rng.choice(SPICE)
        # children / operations in a history: n children through one route; the trusted ones last
        kids = [[["T", "t%d<" % i], ["H", "<u>%d</u>" % i], ["R", "r&%d" % i]][(i + j) % 3] for i in range(n - 2)] + [["R", sp], ["H", sp]]
        out.append(case(["G", "div", True, [], kids], [modes[j % len(modes)]]))
        if n in (65, 129, 257, 300):
            for mo in modes:               # every route beyond every threshold
                if mo != modes[j % len(modes)]:
                    out.append(case(["G", "div", mo != "fn", [], kids], [mo], obs=[rand_obs(rng, "tag")]))
        out.append(case(["G", ["span", "script", "style"][j % 3], j % 2 == 0, [], [[["R", "H", "T"][(j // 3) % 3], "<%d&>" % i] for i in range(n - 1)] + [["H", sp]]],
                        [modes[(j + 1) % 3]]))
        # attributes; values merged into one attribute (class tokens), the trusted one last or first
        attrs = [["data-a%d" % i, [["H" if (i + j) % 4 == 0 else "S", "v<%d>&" % i]]] for i in range(n - 1)] + [["data-last", [["H", sp]]]]
        out.append(case(["G", "div", True, attrs, [["T", "x"]]], ["ctor"]))
        vals = [["S", "c%d" % i] for i in range(n - 1)]
        vals.insert(len(vals) if j % 2 else 0, ["H", sp])
        out.append(case(["G", "p", True, [[["class", "style", "title"][j % 3], vals]], [["H", sp]]], ["ctor"]))
        # a sum of n operands as a child and as an attribute value
        parts = [[1 if (i + j) % 3 == 0 else 0, "o%d&" % i] for i in range(n - 1)] + [[j % 2, sp]]
        out.append(case(["G", "div", False, [["title", [["H", "k"]]]], [["T", "<"], ["E", parts, [0, 1, 2, 2, 0]]]], ["ctor"]))
        # a top-level list of n items
        out.append(case(kids, [], top="list"))
    for j, n in enumerate(DEPTHS):
        sp = rng.choice(SPICE)
        d = [["H", sp], ["R", sp], ["G", "style", True, [], [["T", sp], ["T", sp]]], ["G", "i", False, [["title", [["H", sp]]]], []]][j % 4]
        for i in range(n):
            name, ws = [("div", True), ("span", False), ("section", True), ("b", False)][(i + j) % 4]
            d = ["G", name, ws, [], [d] if (i + j) % 3 else [["T", "&"], d, ["H", "<hr>"]]]
        # the whole chain through nested with-blocks / through mixed routes
        out.append(case(d, ["with"] * (n + 1) if j % 2 == 0 else []))
        # tagifiable objects nested n deep, the trusted leaf at the bottom
        c = ["H", sp]
        for i in range(n):
            c = ["C", None, [c], i % 2 == 0] if i % 2 == 0 else ["G", "div", True, [], [c]]
        out.append(case(["G", "div", True, [], [c]], [], obs=[["tagify_ghs", 1, "\n", True], ["route", 2], ["doc", "html", None, False]]))
    for j, n in enumerate(DEPTHS):
        # lists / tuples / TagLists nested n deep around the children
        out.append(case(["G", "div", True, [], [["T", "a<"], ["R", rng.choice(SPICE)], ["H", rng.choice(SPICE)]]], ["deepnest"], nest_depth=n))
    for n in LENGTHS:
        sp = rng.choice(SPICE)
        s = tail_string(n, sp)
        # long values merged into one attribute, through the helpers
        out.append(case(["G", "div", True, [["class", [["S", "a"], ["H", s], ["S", "b<"]]], ["style", [["H", s], ["H", "k:v"]]]], [["H", sp]]], ["ctor"]))
        for j, sp in enumerate(SPICE[:4]):
            s = tail_string(n, sp)
            kid = [["H", s], ["R", s], ["T", s], ["E", [[1, "<i>"], [0, s], [1, s]], [0, 2]]][j]
            tree = ["G", "div", True, [["title", [["H", s]]]] if j == 0 else [], [["T", "a<"], kid, ["G", "script", True, [], [["T", s], ["T", "&"]]] if j == 1 else ["M", None]]]
            if j == 2:
                tree[4].append(["K", [["H", s]]])
            out.append(case(tree, [["with", "ctor", "append", "fn"][j]],
                            obs=[["ghs", 1, "\n", True], ["doc", ["html", "plain", "body", "append"][j], [None, "lib", "a/b", "lib"][j], j % 2 == 0],
                                 ["save", ["plain", "self", "html", "self"][j], [None, "lib", "x/y", None][j], j % 2 == 1], ["text", j % 3, "lib", True, j == 0]]))
    return out


def required_tokens(b: Builder, o, obs_notes: list):
    """(ordered child tokens, unordered tokens) that the route must show: children and attribute values always; what
    goes into <head> (head_content) on document routes; strings handed to the route itself (document attributes)"""
    unordered = list(b.attr) + list(obs_notes[0])
    if o[0] in ("doc", "save", "text"):
        unordered += b.head
    return b.seq, [t for t in unordered if t not in obs_notes[1]]


def is_subsequence(need: list, have: list) -> str | None:
    it = iter(have)
    for t in need:
        for h in it:
            if h == t:
                break
        else:
            return t
    return None


def run_program(case: dict, tokens: bool):
    b = Builder(tokens, case)
    r = safe_call(b.build_top)
    if r[0] != "ok":
        return b, None, r, [r for _ in case["obs"]], r
    x = r[1]
    base0 = safe_call(lambda: x.tagify().get_html_string())
    outs = []
    b.notes_per_obs = []
    for o in case["obs"]:
        b.obs_notes, b.obs_exclude = [], []
        out = safe_call(lambda: b.observe(x, o))
        if out[0] == "ok":
            out = ("ok", HASHNAME_RE.sub("headcontent_#", out[1]))
        outs.append(out)
        b.notes_per_obs.append((b.obs_notes, b.obs_exclude))
    b.obs_notes = None
    base1 = safe_call(lambda: x.tagify().get_html_string())
    return b, x, base0, outs, base1


def clip(s, n=1500):
    if isinstance(s, tuple) and len(s) == 2 and isinstance(s[1], str):
        s = s[1]
    if isinstance(s, str) and len(s) > n:
        return s[:n // 2] + f" ...[{len(s) - n} characters]... " + s[-n // 2:]
    return s


def first_diff(a: str, b: str) -> dict:
    i = 0
    n = min(len(a), len(b))
    while i < n and a[i] == b[i]:
        i += 1
    return {"at": i, "impl": a[max(0, i - 60):i + 120], "expected": b[max(0, i - 60):i + 120]}


def api_programs(ctx: Ctx) -> None:
    rng = ctx.rng
    progs = [rand_program(rng) for _ in range(ctx.budget(900, 15000))]
    progs += sized_programs(rng)
    progs = ctx.select(PROGRAMS, progs)
    saved_hook = sys.displayhook
    with tempfile.TemporaryDirectory(prefix="c04-") as tmp:
        SAVE["dir"], SAVE["n"] = tmp, 0
        for case in progs:
            try:
                judge_program(ctx, case)
            finally:
                sys.displayhook = saved_hook
                htmltools.html_dependency_render_mode = "invisible"
    ctx.obligation(f"{PROGRAMS}: {len(progs)} programs, each route agrees with itself run on inert strings",
                   not any(v["what"].startswith(PROGRAMS) for v in ctx.violations))


def judge_program(ctx: Ctx, case: dict) -> None:
    def report(msg, detail):
        ctx.violation(f"{PROGRAMS}: {msg}", case, detail)

    tb, tx, tbase0, touts, tbase1 = run_program(case, True)
    rb, rx, rbase0, routs, rbase1 = run_program(case, False)
    nontrivial = any(any(ch in s for ch in "&<>\"'") for s in tb.sub.back)
    for j, (o, tout, rout) in enumerate(zip(case["obs"], touts, routs)):
        ctx.count([case, o], nontrivial, "program: " + str(o[0]) + ("" if o[0] != "route" else " " + ROUTE_NAMES[o[1]]))
        route = {"route": o, "construction": rb.how[:12]}
        label = ROUTE_NAMES[o[1]] if o[0] == "route" else {"ghs": "get_html_string", "tagify_ghs": "tagify().get_html_string", "doc": "HTMLDocument.render",
                                                            "save": "save_html", "text": "json mode + HTMLTextDocument"}[o[0]]
        if tout[0] == "ok":
            want = tb.sub.expand(tout[1])
            if rout[0] != "ok":
                report("a rendering route that works for inert strings raises / does not return for some markup strings",
                       {**route, "impl_output": rout, "expected": clip(want)})
            elif rout[1] != want:
                report("trusted markup is not emitted byte for byte / plain text is not escaped exactly once "
                       f"[route: {label}]", {**route, **first_diff(rout[1], want), "impl_output": clip(rout[1])})
            have = TOKEN_RE.findall(tout[1])
            have = [f"TOK{i}KOT" for i in have]
            ordered, unordered = required_tokens(tb, o, tb.notes_per_obs[j] if tx is not None else ([], []))
            miss = is_subsequence(ordered, have)
            if miss is None:
                hs = set(have)
                miss = next((t for t in unordered if t not in hs), None)
            if miss is not None:
                report("trusted markup / text given as a child or attribute value does not appear in the output (children in "
                       f"document order) [route: {label}]",
                       {**route, "missing": tb.sub.back[int(miss[3:-3])][-200:], "impl_output": clip(rout)})
        elif rout != tout:
            report("a rendering route fails for inert strings but behaves differently for other markup strings",
                   {**route, "impl_output": clip(rout), "with_inert_strings": tout})
    # state: read-only routes must not change what the object renders; caller-supplied objects keep their text
    for b, base0, base1 in ((tb, tbase0, tbase1), (rb, rbase0, rbase1)):
        if base0 != base1:
            report("rendering routes changed what the object renders afterwards", {"before": clip(base0), "after": clip(base1),
                                                                                  "construction": b.how[:12]})
        for obj, text in b.objs:
            now = obj.data if isinstance(obj, HTML) else obj.s
            if now != text or (isinstance(obj, HTML) and str(obj) != text):
                report("a caller-supplied HTML() / self-rendering object was modified (it no longer renders verbatim where else "
                       "it is used)", {"now": clip(now), "before": clip(text), "construction": b.how[:12]})
                break
    # a second, identically built object must not be influenced by the first
    rb2, rx2, rbase2, _, _ = run_program({**case, "obs": []}, False)
    if rbase2 != rbase0:
        report("a second identically built object renders differently from the first (state shared between objects or calls)",
               {"first": clip(rbase0), "second": clip(rbase2), "construction": rb.how[:12]})


def replay(ctx: Ctx, path: str) -> None:
    """re-run the recorded input (the step that reported it runs that single case)"""
    ctx.load_replay(path)
    run(ctx)

"""C04  Trusted markup is emitted verbatim and escaping happens exactly once."""
from __future__ import annotations

import operator

from ..common import Ctx, S, unS, differential, run_model
from .. import trees
from ..trees import build, to_sx, safe_call, res_decode, ReprObj

import htmltools
from htmltools import HTML, Tag, TagList

SPEC_TEXT = {"&": "&amp;", "<": "&lt;", ">": "&gt;"}


def spec_escape(s: str) -> str:
    return "".join(SPEC_TEXT.get(c, c) for c in s)


class Other:
    """an object with str() and no __add__/__radd__"""
    def __init__(self, s):
        self.s = s

    def __str__(self):
        return self.s


def rand_expr(rng, depth, need_valid=True):
    if depth <= 0 or rng.random() < 0.3:
        k = rng.choice([0, 0, 1, 1, 2] if not need_valid else [0, 0, 1, 1])
        return [0, k, trees.rand_text(rng, 5)]
    return [1, rand_expr(rng, depth - 1, need_valid), rand_expr(rng, depth - 1, need_valid)]


def expr_sx(e):
    return [0, e[1], S(e[2])] if e[0] == 0 else [1, expr_sx(e[1]), expr_sx(e[2])]


def expr_leaves(e):
    return [e] if e[0] == 0 else expr_leaves(e[1]) + expr_leaves(e[2])


def eval_py(e, rng_ops, leaves_out=None):
    """evaluate with the real operators; inner nodes choose between a + b, operator.add,
    and a += b.  leaves_out collects (operand object, its text) so that the caller can check
    that no operand object was modified (x += y must rebind, not mutate, an HTML() that may be
    referenced elsewhere)"""
    if e[0] == 0:
        o = [trees.mk_text, trees.mk_html, Other][e[1]](e[2])   # incl. str / HTML subclass instances
        if leaves_out is not None:
            leaves_out.append((o, e[2]))
        return o
    a = eval_py(e[1], rng_ops, leaves_out)
    b = eval_py(e[2], rng_ops, leaves_out)
    how = rng_ops.pop() if rng_ops else 0
    if how == 0:
        return a + b
    if how == 1:
        return operator.add(a, b)
    a += b
    return a


def count_ops(e):
    return 0 if e[0] == 0 else 1 + count_ops(e[1]) + count_ops(e[2])


def run(ctx: Ctx) -> None:
    rng = ctx.rng
    ctx.rule = ("(1) random + expressions (depth <= 5) over str / HTML() / other objects with metacharacter-heavy "
                "operands, evaluated with real +, operator.add and +=, rendered as only child, among siblings and "
                "inside script; (2) random trees with HTML(), _repr_html_ objects and script/style text in every child "
                "position and HTML() attribute values. Non-trivial = expression mixes str and HTML operands / tree has "
                "a raw leaf containing a metacharacter; distinct = canonical input.")
    ctx.assumptions = ["UserString methods other than + (join, format, %) are outside the statement and not checked"]
    ctx.proof()

    # ---- concatenation algebra -------------------------------------------------------
    exprs = []
    for _ in range(ctx.budget(4000, 60000)):
        e = rand_expr(rng, rng.choice([1, 2, 3, 4, 5]), need_valid=rng.random() < 0.8)
        ops = [rng.choice([0, 1, 2]) for _ in range(count_ops(e))]
        exprs.append((e, ops))
    exprs.append(([1, [0, 0, "&"], [1, [0, 1, "&"], [0, 0, "<"]]], [0, 0]))

    def impl(c):
        e, ops = c
        lv_objs = []
        r = safe_call(lambda: eval_py(e, list(ops), lv_objs))
        for o, txt in lv_objs:
            if str(o) != txt:
                ctx.violation("an operand object of + / += was modified in place (it no longer renders verbatim where "
                              "else it is used)", c, {"operand_now": str(o), "operand_before": txt})
        if r[0] != "ok":
            return ("typeerror",) if r == ("err", 3) else r
        v = r[1]
        kind = 1 if isinstance(v, HTML) else 0 if isinstance(v, str) else 2
        if kind == 2:
            return ("val", 2, str(v), None)
        rendered = safe_call(lambda: Tag("div", v).get_html_string())
        inner = rendered[1][5:-6] if rendered[0] == "ok" else rendered
        return ("val", kind, str(v), inner)

    def decode(m):
        if m[0] == 0:
            return ("typeerror",)
        return ("val", m[1][0], unS(m[1][1]), None if m[1][0] == 2 else unS(m[2]))

    def oracle(c, out):
        e, ops = c
        lv = expr_leaves(e)
        if out[0] != "val":
            return None
        if all(l[1] in (0, 1) for l in lv) and any(l[1] == 1 for l in lv):
            if out[1] != 1:
                return "concatenation involving HTML() did not yield HTML()"
        if out[1] == 2:
            return None
        want = "".join(l[2] if l[1] == 1 else spec_escape(l[2]) for l in lv)
        if out[3] != want:
            return "rendering of the sum differs from rendering the operands as adjacent children (escaped once / never)"
        # rendering the operands as separate adjacent children, on the implementation
        kids = [HTML(l[2]) if l[1] == 1 else l[2] for l in lv]
        sep = safe_call(lambda: Tag("span", *kids, _add_ws=False).get_html_string())
        if sep != ("ok", "<span>" + want + "</span>"):
            return "operands as adjacent children do not render as the concatenation of their forms"
        return None

    differential(ctx, "HTML.__add__/__radd__/+= expressions", exprs,
                 to_sx=lambda c: [7, expr_sx(c[0])], impl=impl, decode=decode, oracle=oracle,
                 nontrivial=lambda c: len({l[1] for l in expr_leaves(c[0])}) > 1,
                 kind=lambda c: f"{min(len(expr_leaves(c[0])), 9)} operands")

    # ---- verbatim emission in trees ----------------------------------------------------
    cases = []
    for _ in range(ctx.budget(2500, 40000)):
        d = trees.rand_tree(rng, rng.choice([1, 2, 3, 4]), leaves="THHRRM", names="bivsssckk")
        cases.append((d, rng.randrange(0, 4), rng.choice(["\n", "\r\n", "", " "])))

    def raw_leaves(d, under_noesc=False, acc=None):
        acc = [] if acc is None else acc
        k = d[0]
        if k in ("H", "R"):
            acc.append(d[1])
        elif k == "T" and under_noesc:
            acc.append(d[1])
        elif k == "G":
            for key, (m, v) in d[3]:
                if m == "H":
                    acc.append(f' {key}="{v}"')
            for x in d[4]:
                raw_leaves(x, d[1] in ("script", "style"), acc)
        return acc

    def oracle_tree(c, out):
        if out[0] != "ok":
            return None
        # every trusted string appears byte for byte, in document order
        pos = 0
        order = []
        d = c[0]

        def walk(x, noesc):
            if x[0] == "G":
                for key, (m, v) in x[3]:
                    if m == "H":
                        order.append(f' {key}="{v}"')
                for y in x[4]:
                    walk(y, x[1] in ("script", "style"))
            elif x[0] in ("H", "R") or (x[0] == "T" and noesc):
                order.append(x[1])
        walk(d, False)
        for s in order:
            j = out[1].find(s, pos)
            if j < 0:
                return f"trusted markup {s!r} is not emitted verbatim (in document order)"
            pos = j + len(s)
        return None

    differential(ctx, "Tag.get_html_string (trusted markup)", cases,
                 to_sx=lambda c: [2, to_sx(c[0]), c[1], S(c[2])],
                 impl=lambda c: safe_call(lambda: build(c[0]).get_html_string(c[1], c[2])),
                 decode=lambda m: res_decode(m, unS), oracle=oracle_tree,
                 nontrivial=lambda c: any(any(ch in s for ch in "&<>\"'") for s in raw_leaves(c[0])),
                 kind=lambda c: "tree")
    list_level(ctx)


def list_level(ctx: Ctx) -> None:
    """top-level TagList rendering (no enclosing tag): trusted markup verbatim, plain text escaped
    exactly once, in every position"""
    from .C02 import text_to_html
    rng = ctx.rng
    lcases = []
    for _ in range(ctx.budget(1200, 15000)):
        items = [trees.rand_child(rng, rng.choice([0, 1, 2]), leaves="TTHHRM", names="bivssck")
                 for _ in range(rng.choice([1, 2, 3, 4]))]
        lcases.append((items, rng.randrange(0, 3), rng.choice(["\n", "", "\r\n"]), rng.random() < 0.5))

    def impl(c):
        return safe_call(lambda: TagList(*[build(d) for d in c[0]]).get_html_string(c[1], c[2], add_ws=c[3]))

    def oracle(c, out):
        want = safe_call(lambda: TagList(*[build(text_to_html(d)) for d in c[0]]).get_html_string(c[1], c[2], add_ws=c[3]))
        if out != want:
            return "in a top-level list, plain text is not escaped exactly once / trusted markup is not verbatim"
        return None

    differential(ctx, "TagList.get_html_string (trusted markup and text at top level)", lcases,
                 to_sx=lambda c: [3, [to_sx(d) for d in c[0]], c[1], S(c[2]), 1 if c[3] else 0, 1],
                 impl=impl, decode=lambda m: res_decode(m, unS), oracle=oracle,
                 nontrivial=lambda c: any(d[0] in "TH" for d in c[0]), kind=lambda c: "list")


def replay(ctx: Ctx, path: str) -> None:
    """re-run the recorded input (the step that reported it runs that single case)"""
    ctx.load_replay(path)
    run(ctx)

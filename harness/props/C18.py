"""C18  Output is deterministic across processes and independent of history.

Step A  Properties/C18.v (Coq): head_content names are a function of the rendered content;
        equal content occupies one resolved entry; under an injective content hash different
        content is never merged; metadata nodes do not reach the name.
Step B  implementation vs extracted model (driver c18): head_content (rendered content,
        name = 'headcontent_' + sha1(model content), version, payload length), TagList.render()
        (markup and resolved dependency order by object identity), _resolve_dependencies.
Step C  THE PROPERTY IS OBSERVED HERE: a fixed battery plus random batteries are built and
        rendered by harness/c18_worker.py in 8 (thorough 64) interpreter processes started with
        distinct PYTHONHASHSEED values (0, 1, random, ...) and distinct processing orders; every
        digest / dependency order / head_content name must be identical in all of them and equal
        to the in-process reference.  Further oracles (independent of the model): each
        head_content name is 'headcontent_' + hashlib.sha1(rendered content); over all pairs of
        the battery equal content <=> equal name; a document includes equal content once and
        different content separately, in first-occurrence order; extracted serialised
        dependencies come in first-occurrence order of their distinct payload strings; every item
        re-rendered at the end of the in-process run equals its first rendering and the rendering
        obtained without any history (isolated child / fresh interpreter); the URLs written for a
        package-sourced dependency are <lib_prefix>/<name>[-<version>]/<file> of that dependency.
        Items of kind "prog" are small PROGRAMS over the public construction / mutation API (Tag, the
        tags / svg functions, JSX components, TagList, attrs[...] / update / del, add_class / remove_class /
        has_class / add_style, append / extend / insert / +=, copy / deepcopy / tagify, css, consolidate_attrs)
        whose arguments come from pools of values that are equal under == / hash but of different types
        (True / 1 / 1.0, False / 0 / 0.0 / -0.0, text as str / str subclass / HTML / HTML subclass, -1 / -2),
        attribute names that meet after normalisation, class tokens that are prefixes / substrings / repeats
        of one another with several tokens per argument, dependencies with typed script / stylesheet / meta
        attribute values, and values of unsupported types (fault paths; the program goes on).  Only
        determinism is asked of them: same observation (texts, dependency order, query results, error
        classes) in every process, after every history, and when built again.
        After a difference has been seen (never on a clean run) the first report of each kind is explained:
        the texts instead of digests, whether the item alone differs between two hash seeds, and otherwise
        which single earlier item (found by halving the history in fresh interpreters) changes it.

PUBLIC ENTRY POINTS AND KEYWORD ARGUMENTS THAT REACH WHAT C18 TALKS ABOUT (bytes of the markup, dependency
order, head_content names) -- each is driven by the worker (harness/c18_worker.py: observe_object /
observe_routes / Prog) with default AND non-default values; `opts` of an item carries the non-default ones:
  construction   Tag(name, *children, _add_ws=, **attrs) . tags.<fn> / svg.<fn> . TagList(*children) . Python lists
                 (nested) as children . HTML / str / str subclass / numbers . objects with tagify() and / or
                 _repr_html_() . head_content(*children) . HTMLDependency(name, version, source=, script=,
                 stylesheet=, meta=, head=, all_files=) . MetadataNode() . JSX components (jsx_tag_create) .
                 consolidate_attrs(*args, **kw) . css(collapse_=, **kw) . another tag's .attrs given as a dict
  mutation       Tag.append / extend / insert . TagList.append / extend / insert / + / radd / += . attrs[...] = /
                 update(*dicts, **kw) / del . add_class(prepend=) / remove_class / add_style(prepend=) .
                 HTMLDocument.append
  copies         copy.copy / copy.deepcopy of Tag, TagList, HTMLDocument . tagify() (once and twice) . == on the copies
  markup         Tag.get_html_string(indent, eol) . TagList.get_html_string(indent, eol, add_ws=) . render() .
                 str / repr / _repr_html_ (in both values of htmltools.html_dependency_render_mode) . the with-block
                 (sys.displayhook) route, the tag then copied / compared / rendered
  dependencies   Tag / TagList .get_dependencies(dedup=True|False) . _resolve_dependencies . render()["dependencies"]
  documents      HTMLDocument(*children, lang= / class_ / style / data_* ...).render(lib_prefix= None | "" | nested,
                 include_version=) . Tag / TagList / HTMLDocument .save_html(file, libdir= None | nested,
                 include_version=) . HTMLTextDocument(html, deps=, deps_replace_pattern= with regex metacharacters)
                 .render(lib_prefix=, include_version=) fed with the json-mode text of the object (and rendered in
                 json mode too) . HTMLDependency.source_path_map / as_html_tags / serialize_to_script_json
  top level      everything is taken from the top-level package (`htmltools.X`), tags / svg from their modules
The results are judged by the property's own oracles: identical in every process / after every history / when made
again (digests), head_content names = 'headcontent_' + sha1(content), and -- for every document-like result of an
item whose head_content contents are known ("hcdoc") -- each distinct content exactly once, names in
first-occurrence order.

SIZES.  Every countable thing of the property reaches, sparsely, 7..9, 15..17, 31..33, 63..65, 127..129, 255..257, 300
in the quick tier (head_content nodes per document, dependencies / versions of one name per document and per
_resolve_dependencies call, serialised dependencies per text, values given to unique(), attributes per tag, class
tokens per value, dicts merged into one attribute, children, nesting depth of tags / lists / tagifiable objects
(<= 70), steps of a program on one object) and strings reach 300 / 5000 / 70000 / 140000 characters, with the
part that matters beyond the threshold: head_content payload FAMILIES share all but a marker placed at the
head, the middle, a 2^k seam (one before / at / after) or the tail, in several payload forms (text, HTML, style,
script, title, attribute value), multi-byte units included.

STATE SHARED BETWEEN OBJECTS AND CALLS.  Besides the histories (every item after every other, in 8 orders), on one object:
str(x) in json dependency mode (the markup and every dependency written out in full) is taken before and after all other
entry points were used on x and must not change; the lists handed out by render() / get_dependencies() are changed by
the caller and the next render() must give what the first gave; every HTMLDependency (items with opts) and every
head_content is made a second time from the very same argument objects and must come out the same; a document made
twice from the same object, a text document made twice from equal arguments, are the same.  Items of kind
"sharedlist" build two or three HTMLTextDocument objects from the SAME `deps` list object (texts with and without
serialised dependencies, in both orders; all constructed first, or each rendered before the next is constructed): every
document renders as the same text does alone with a list of its own, the first document's later renderings do not
change, and the caller's list is what it was after every construction and after rendering (finding F13, repaired).
"""
from __future__ import annotations

import glob
import hashlib
import json
import os
import subprocess
from concurrent.futures import ThreadPoolExecutor

from ..common import Ctx, S, unS, VERIF, REPO, PY, run_model, canon
from .. import trees
from .. import c18_worker as W

WORKER = os.path.join(VERIF, "harness", "c18_worker.py")
HC = W.HC_PREFIX
OPEN_TAG = '<script type="application/json" data-html-dependency="">'
CLOSE_TAG = "</script>"

V_PROC = "output differs between interpreter processes (hash seed / processing order)"
V_AGAIN = "rendering the same object again in the same process gives a different result"
V_NAME = "head_content name is not 'headcontent_' + sha1(rendered content)"
V_MERGE = "different head_content content got the same name"
V_SPLIT = "equal head_content content got different names"
V_DOC = "document does not include equal head_content once / different content separately in first-occurrence order"
V_EXTRACT = "extracted serialised dependencies are not in first-occurrence order of their distinct payloads"
V_UNIQUE = "unique() is not first-occurrence order"
V_HISTORY = "rendering depends on what was built or rendered earlier in the process"
V_SECOND = "a second object built from the very same arguments differs from the first"
V_SHARED = ("HTMLTextDocument objects built from the same deps list object: a document does not render as it does alone, "
            "an earlier document's rendering changes, or the caller's list is changed")
V_URL = "a dependency's URLs in the document are not <lib_prefix>/<name>[-<version>]/<file> of that dependency"

MODEL_MAX = 40000          # characters of an item's description beyond which it is not sent to the extracted model
ERR_NAME = {1: "RuntimeError", 2: "TypeError", 3: "TypeError", 4: "KeyError", 5: "ValueError",
            6: "RuntimeError", 7: "RecursionError"}


def jl(x):
    """tuples -> lists, the way the battery travels"""
    return json.loads(json.dumps(x))


def sha1(s: str) -> str:
    return hashlib.sha1(s.encode("utf-8")).hexdigest()


# ------------------------------------------------------------------------------------------
# hand-written head_content payloads with the content they must render to (written from the
# rendering rules, not computed)
# ------------------------------------------------------------------------------------------
NESTED_DEP = {"name": "nested", "version": "1", "script": {"src": "n.js"}}
HC_POOL = [
    ([["G", "meta", False, [["name", ["S", "m01"]]], []]], '<meta name="m01"/>'),
    ([["G", "meta", False, [["name", ["S", "m01"]]], []], ["M", None]], '<meta name="m01"/>'),
    ([["T", "<m03"]], "&lt;m03"),
    ([["H", "&lt;m03"]], "&lt;m03"),
    ([["H", "<m05>"]], "<m05>"),
    ([["G", "title", True, [], [["T", "m06"]]]], "<title>m06</title>"),
    ([["M", None], ["G", "title", True, [], [["T", "m06"]]], ["M", NESTED_DEP]], "<title>m06</title>"),
    ([["G", "script", True, [], [["T", "m08<&"]]],
      ["G", "link", False, [["rel", ["S", "x"]], ["href", ["H", "m08&amp;"]]], []]],
     '<script>m08<&</script>\n<link rel="x" href="m08&amp;"/>'),
    ([["R", "<m09/>"]], "<m09/>"),
    ([], ""),
    ([["M", None]], ""),
    ([["M", {"name": "only-a-dep", "version": "2.0"}]], ""),
    ([["T", "m11"], ["T", "b"]], "m11b"),
    ([["T", "m11b"]], "m11b"),
    ([["G", "style", True, [], [["T", "m12"], ["H", ">"]]]], "<style>\n  m12>\n</style>"),
    ([["G", "meta", False, [["name", ["S", "m16"]], ["content", ["S", "c"]]], []]], '<meta name="m16" content="c"/>'),
    ([["G", "meta", False, [["content", ["S", "c"]], ["name", ["S", "m16"]]], []]], '<meta content="c" name="m16"/>'),
]
MARKED = [c for _, c in HC_POOL if c]


def dep(name, version, **kw):
    return ["M", {"name": name, "version": version, **kw}]


def hc(i):
    return ["M", {"hc": HC_POOL[i][0]}]


def G(name, ws, attrs, kids):
    return ["G", name, ws, attrs, kids]


def ser(payload: dict) -> str:
    return OPEN_TAG + json.dumps(payload) + CLOSE_TAG


def text_item(iid: str, payloads: list[dict], given: list[dict], fillers: list[str]) -> dict:
    body = ""
    for i, p in enumerate(payloads):
        body += fillers[i % len(fillers)] + ser(p)
    text = "<html><head>@@HEAD@@</head><body>" + body + fillers[-1] + "@@HEAD@@</body></html>"
    return {"id": iid, "kind": "text", "text": text, "deps": given, "pattern": "@@HEAD@@",
            "_payloads": [ser(p) for p in payloads]}


# ------------------------------------------------------------------------------------------
# the fixed battery
# ------------------------------------------------------------------------------------------
def fixed_battery() -> list[dict]:
    items: list[dict] = [{"id": f"expr:{n}", "kind": "expr", "name": n} for n in W.EXPRS]
    # many dependencies with colliding names, at several depths
    coll = [("q", "1"), ("p", "2.0"), ("q", "1.0"), ("r", "3"), ("p", "2"), ("q", "0.9"), ("s", "1"),
            ("r", "3.0.1"), ("a", "1"), ("p", "10"), ("Q", "1"), ("s", "1.0.0"), ("zz", "0.0.1"), ("b", "1")]
    deps = [dep(n, v, script={"src": f"{n}-{v}.js"}, stylesheet=[{"href": f"{n}.css", "media": "all"}])
            for n, v in coll]
    items.append({"id": "fix:collide-flat", "kind": "tree", "descs": deps + [["T", "t"]], "doc_kw": []})
    items.append({"id": "fix:collide-nested", "kind": "tree", "doc_kw": [["lang", "en"], ["class", "c"]], "descs": [
        G("div", True, [], [deps[0], G("span", False, [], [deps[1], deps[2], ["T", "x"]]), deps[3],
                            G("p", True, [], [deps[4], G("b", False, [], [deps[5], deps[6]])]), deps[7]]),
        deps[8], G("ul", True, [], [G("li", True, [], [d]) for d in deps[9:]])]})
    items.append({"id": "fix:collide-reversed", "kind": "tree", "descs": list(reversed(deps)), "doc_kw": []})
    items.append({"id": "fix:collide-custom", "kind": "tree", "doc_kw": [], "descs": [
        ["C", None, [deps[9], G("div", True, [], [deps[2]])], True], deps[0], ["C", "<self/>", [deps[4]], False],
        G("div", True, [], [["C", None, [deps[1], ["T", "in"]], True], deps[5]])]})
    # head_content: equal / different / metadata-only-different content
    items.append({"id": "fix:hc-all", "kind": "tree", "doc_kw": [],
                  "descs": [G("body", True, [], [hc(i) for i in range(len(HC_POOL))])]})
    items.append({"id": "fix:hc-all-reversed", "kind": "tree", "doc_kw": [],
                  "descs": [G("div", True, [], [hc(i)]) for i in reversed(range(len(HC_POOL)))]})
    items.append({"id": "fix:hc-twice", "kind": "tree", "doc_kw": [["lang", "en"]],
                  "descs": [hc(0), G("div", True, [], [hc(0), ["T", "body text"], hc(5)]), hc(5), hc(0)]})
    items.append({"id": "fix:hc-with-deps", "kind": "tree", "doc_kw": [],
                  "descs": [deps[0], hc(6), deps[2], hc(5), G("p", True, [], [hc(7), deps[1]]), hc(11)]})
    items.append({"id": "fix:hc-html-root", "kind": "tree", "doc_kw": [["lang", "fr"]],
                  "descs": [G("html", True, [["data-a", ["S", "1"]]],
                              [G("head", True, [], [G("title", True, [], [["T", "T"]])]),
                               G("body", True, [], [hc(2), hc(3), hc(4), deps[3]])])]})
    # attributes in various orders
    a6 = [["id", ["S", "i"]], ["class", ["S", "a b"]], ["href", ["H", "?a=1&amp;b=2"]], ["data-x", ["S", "<&>\"'"]],
          ["title", ["S", "t\n"]], ["style", ["S", "s"]], ["a:b", ["S", ""]], ["viewBox", ["S", "0 0"]]]
    perms = [a6, list(reversed(a6)), a6[3:] + a6[:3], sorted(a6), a6[1::2] + a6[0::2]]
    for k, p in enumerate(perms):
        items.append({"id": f"fix:attrs-{k}", "kind": "tree", "doc_kw": [],
                      "descs": [G("a", False, p, [["T", "k"], G("img", False, list(reversed(p)), [])])]})
    items.append({"id": "fix:attr-dicts", "kind": "tree", "doc_kw": [], "descs": [
        ["K", "div", [{"id": "a", "class": "k1", "data-b": "b"}, {"class": "k2", "data-a": "a", "data-c": "c"}],
         [["class_", "k3"], ["data_z", "z"], ["aria_label", "L"], ["hidden", True], ["skip", None]], [["T", "x"]]],
        ["K", "span", [{f"data-{c}": c for c in "hgfedcba"}], [[f"x{c}", c] for c in "qponmlk"], []]]})
    # class / style values merged from several sources with REPEATED tokens (a set()-based
    # de-duplication would order them by hash)
    items.append({"id": "fix:attr-merge-repeats", "kind": "tree", "doc_kw": [["class", "r1 r2 r1 r3"]], "descs": [
        ["K", "div", [{"class": "b a b c", "style": "x:1; x:1;"}, {"class": "a d zeta alpha", "style": "y:2;"}],
         [["class_", "b e a omega"], ["style_", "x:1;"]], [["T", "x"]]],
        ["K", "p", [{"class": "k k k j"}, {"class_": "j i k"}, {"class": "h"}], [["class_", "k"]], []],
        ["K", "span", [{"class": " ".join(f"c{i % 7}" for i in range(20))}], [["class_", "c3 c9 c1"]], []]]})
    # texts with several serialised dependencies (the 0.6.0 ordering bug)
    P = [{"name": "zeta", "version": "1.0", "script": {"src": "z.js"}},
         {"name": "alpha", "version": "2.1", "stylesheet": [{"href": "a.css"}], "head": "<meta name='h'>"},
         {"name": "mid", "version": "1.10", "source": {"href": "https://x.example/mid"}, "script": [{"src": "m.js"}]},
         {"name": "zeta", "version": "2.0", "script": {"src": "z2.js"}},
         {"name": "beta", "version": "0.1", "meta": [{"name": "n", "content": "c"}], "all_files": False},
         {"name": "omega", "version": "3.0"}, {"name": "b", "version": "1.0"}, {"name": "a", "version": "1.0"},
         {"name": "c", "version": "1.0"}, {"name": "B", "version": "1.0"}, {"name": "10", "version": "1.0"}]
    items.append(text_item("fix:text-distinct", P, [], ["", "<p>x</p>", "\n"]))
    items.append(text_item("fix:text-dups", [P[0], P[1], P[0], P[2], P[1], P[3], P[0], P[4], P[5], P[5], P[2]],
                           [{"name": "given", "version": "1.0"}, {"name": "zeta", "version": "0.5"}],
                           ["<div>", "</div>", "text", ""]))
    items.append(text_item("fix:text-reversed", list(reversed(P)) + P, [], [" "]))
    items.append(text_item("fix:text-none", [], [{"name": "given", "version": "1.0"}], ["<p>no deps</p>"]))
    items.extend(pkg_battery())
    items.extend(fixed_progs())
    # every other entry point, with non-default arguments, on the fixed constructions
    k = 0
    for it in items:
        if it["kind"] in ("tree", "expr", "prog") and (it["kind"] != "prog" or k % 3 == 0 or "opts" in it):
            it.setdefault("opts", fixed_opts(k))
        k += 1
    items.extend(fixed_long_items())
    items.extend(fixed_sharedlist_items())
    items.append({"id": "fix:resolve", "kind": "resolve",
                  "deps": [{"name": n, "version": v} for n, v in coll + list(reversed(coll))]})
    items.append({"id": "fix:unique", "kind": "unique",
                  "values": ["b", "a", "b", "zeta", "a", "c", "10", "B", "c", "", "omega", "b", "é", "d", "e", "f", "a"]})
    return items


# package-sourced dependencies: the files shipped in htmltools/lib
PKG_SUBDIRS = {"lib/react": "react.production.min.js", "lib/react-dom": "react-dom.production.min.js",
               "lib": "react/react.production.min.js"}
DOC_OPTS = [["lib", True], ["lib", False], [None, True], [None, False], ["static/libs", True], ["", True]]


def pkg_dep(name: str, version: str, subdir: str, extra: bool = False) -> list:
    p = {"name": name, "version": version, "source": {"package": "htmltools", "subdir": subdir},
         "script": {"src": PKG_SUBDIRS[subdir]}}
    if extra:
        p["stylesheet"] = [{"href": "theme.css"}]
    return ["M", p]


def pkg_item(iid: str, deps: list, opts: list, wrap: str = "div") -> dict:
    """one document per item, so that every process meets these dependencies in its own order"""
    kids = [["T", "app"]] + deps
    return {"id": iid, "kind": "tree", "descs": [G(wrap, True, [], kids)], "doc_kw": [], "doc_opts": opts,
            "_pkg": True}


def pkg_battery() -> list[dict]:
    items = []
    specs = [("react", "17.0.2", "lib/react"), ("react", "18.2.0", "lib/react"), ("react", "16.14.0", "lib/react"),
             ("react", "17.0.2", "lib/react-dom"), ("react", "17.0.2", "lib"), ("react-dom", "17.0.2", "lib/react-dom"),
             ("react-dom", "18.2.0", "lib/react-dom"), ("react-dom", "18.2", "lib/react-dom"), ("react", "18.2.0", "lib")]
    for k, (n, v, sd) in enumerate(specs):
        items.append(pkg_item(f"fix:pkg-{k}-{n}-{v}-{sd.replace('/', '_')}", [pkg_dep(n, v, sd, extra=k % 2 == 1)],
                              DOC_OPTS[k % 2::2] + DOC_OPTS[:1]))
    # two of them in one document (different names), and the colliding pair (resolved to the higher)
    items.append(pkg_item("fix:pkg-two", [pkg_dep("react", "18.2.0", "lib/react"),
                                          pkg_dep("react-dom", "16.0.0", "lib/react-dom")], DOC_OPTS))
    items.append(pkg_item("fix:pkg-collide", [pkg_dep("react", "17.0.2", "lib/react"),
                                              pkg_dep("react", "17.10.0", "lib/react")], DOC_OPTS, wrap="body"))
    return items


def rand_pkg_item(rng, iid: str) -> dict:
    deps = []
    for name in rng.sample(["react", "react-dom", "r"], rng.choice([1, 1, 2])):
        deps.append(pkg_dep(name, rng.choice(["1.0", "1.1", "2.0", "17.0.2", "18.2.0"]),
                            rng.choice(sorted(PKG_SUBDIRS)), extra=rng.random() < 0.3))
    return pkg_item(iid, deps, rng.sample(DOC_OPTS, rng.choice([1, 2, 3])), wrap=rng.choice(["div", "body", "span"]))


def expected_urls(item: dict, lib_prefix, include_version: bool) -> list[str]:
    """written from the documented layout: <lib_prefix>/<name>-<version>/<file>"""
    import posixpath
    out = []
    for d in item["descs"][0][4]:
        if d[0] != "M":
            continue
        p = d[1]
        href = p["name"] + ("-" + p["version"] if include_version else "")
        if lib_prefix:
            href = posixpath.join(lib_prefix, href)
        out.append('<script src="%s"></script>' % posixpath.join(href, p["script"]["src"]))
        for st in p.get("stylesheet", []):
            out.append('<link href="%s" rel="stylesheet"/>' % posixpath.join(href, st["href"]))
    return out


# ------------------------------------------------------------------------------------------
# random batteries (ctx.rng only)
# ------------------------------------------------------------------------------------------
RAND_HC = [
    [["T", "a"]], [["T", "a"], ["M", None]], [["H", "a"]], [["T", "<"]], [["H", "&lt;"]], [["H", "<"]],
    [["G", "title", True, [], [["T", "t"]]]], [["G", "title", False, [], [["T", "t"]]]],
    [["G", "title", True, [], [["T", "t"]]], ["M", NESTED_DEP]],
    [["G", "meta", False, [["name", ["S", "a"]], ["content", ["S", "b"]]], []]],
    [["G", "meta", False, [["content", ["S", "b"]], ["name", ["S", "a"]]], []]],
    [], [["M", None]], [["R", "a"]], [["T", "a"], ["T", ""]], [["T", ""], ["T", "a"]],
    [["G", "div", True, [], [["T", "a"], ["G", "p", True, [], []]]]],
    [["G", "div", True, [], [["T", "a"], ["M", None], ["G", "p", True, [], []]]]],
]


def rand_hc_payload(rng, malformed: bool) -> list:
    r = rng.random()
    if malformed and r < 0.5:
        # an un-expanded tagifiable object somewhere in the arguments
        c = ["C", rng.choice([None, None, "<c/>"]), [["T", "e"]], True]
        base = jl(rng.choice(RAND_HC))
        if base and base[0][0] == "G" and rng.random() < 0.5:
            base[0][4].append(c)
        else:
            base.insert(rng.randrange(len(base) + 1), c)
        return base
    if r < 0.7:
        return jl(rng.choice(RAND_HC))
    n = rng.choice([1, 1, 2, 3])
    return [jl(trees.rand_child(rng, rng.choice([0, 1, 2]), leaves="THRM", names="bivs")) for _ in range(n)]


def inject(rng, d, malformed: bool):
    """replace some bare metadata nodes by head_content nodes / richer dependencies"""
    k = d[0]
    if k == "M":
        if d[1] is None and rng.random() < 0.5:
            return ["M", {"hc": rand_hc_payload(rng, malformed)}]
        if isinstance(d[1], dict) and rng.random() < 0.4:
            p = dict(d[1])
            p["script"] = [{"src": rng.choice(["a.js", "b c.js", "é.js"]), "defer": "", "type": "module"}][: rng.choice([0, 1])]
            p["meta"] = [{"name": "n", "content": trees.rand_text(rng, 4)}][: rng.choice([0, 1])]
            return ["M", p]
        return d
    if k == "G":
        return ["G", d[1], d[2], d[3], [inject(rng, x, malformed) for x in d[4]]]
    if k == "C":
        return ["C", d[1], [inject(rng, x, malformed) for x in d[2]], d[3]]
    return d


def rand_tree_item(rng, iid: str, malformed: bool) -> dict:
    n = rng.choice([1, 1, 2, 3])
    descs = []
    for _ in range(n):
        d = jl(trees.rand_child(rng, rng.choice([1, 2, 3, 3, 4]), leaves="THRMMDDD", names="bbivsc",
                                custom=True, maxkids=5))
        descs.append(inject(rng, d, malformed))
    kw = rng.choice([[], [], [["lang", "en"]], [["class", "k"], ["data_q", "1"]]])
    return {"id": iid, "kind": "tree", "descs": descs, "doc_kw": kw}


def rand_hcdoc_item(rng, iid: str) -> dict:
    """tags only, head_content nodes from HC_POOL: the document oracle applies"""
    def kids(depth):
        out = []
        for _ in range(rng.choice([1, 2, 2, 3, 4])):
            r = rng.random()
            if depth > 0 and r < 0.3:
                name, ws = trees.rand_name(rng, "bi")
                out.append(G(name, ws, [], kids(depth - 1)))
            elif r < 0.85:
                out.append(hc(rng.randrange(len(HC_POOL))))
            else:
                out.append(["T", rng.choice(["body", "text", ""])])
        return out
    return {"id": iid, "kind": "tree", "descs": kids(2), "doc_kw": [], "hcdoc": True}


def exhaustive_hc_items(k: int) -> list[dict]:
    """bounded-exhaustive: every ordered k-tuple of pool payloads in one document (the second in a
    nested tag), so every pair of payloads meets in both orders"""
    import itertools
    out = []
    for combo in itertools.product(range(len(HC_POOL)), repeat=k):
        kids = [hc(combo[0]), G("div", True, [], [hc(i) for i in combo[1:]])]
        out.append({"id": "tuple:" + ":".join(map(str, combo)), "kind": "tree", "descs": kids, "doc_kw": [],
                    "hcdoc": True})
    return out


def rand_text_item(rng, iid: str) -> dict:
    pool = [{"name": rng.choice(["a", "b", "c", "zeta", "A", "10"]), "version": rng.choice(["1.0", "2.1", "1.10"]),
             **rng.choice([{}, {"script": {"src": "s.js"}}, {"head": "<x>"}, {"stylesheet": [{"href": "h.css"}]}])}
            for _ in range(rng.choice([2, 3, 5, 8]))]
    seq = [rng.choice(pool) for _ in range(rng.choice([2, 4, 6, 10, 16]))]
    given = [{"name": rng.choice(["g", "a"]), "version": "1.0"}][: rng.choice([0, 1])]
    fill = [rng.choice(["", "\n", "<p>t</p>", "</script>", "<script>", trees.rand_text(rng, 5)]) for _ in range(3)]
    return text_item(iid, seq, given, fill)


def shared_text(payloads: list[dict], fillers: list[str], pat: str) -> str:
    body = "".join(fillers[i % len(fillers)] + ser(p) for i, p in enumerate(payloads))
    return "<html><head>" + pat + "</head><body>" + body + fillers[-1] + "</body></html>"


def sharedlist_item(iid: str, seqs: list[list[dict]], given: list[dict], pat: str, opts: dict | None = None) -> dict:
    """one text per payload sequence (an empty sequence: a text without serialised dependencies), all documents
    from one list object"""
    it = {"id": iid, "kind": "sharedlist", "pattern": pat, "deps": given,
          "texts": [shared_text(sq, ["<p>%d</p>" % j, "\n", ""], pat) for j, sq in enumerate(seqs)]}
    if opts:
        it["opts"] = opts
    return it


def fixed_sharedlist_items() -> list[dict]:
    A = {"name": "b", "version": "2.0"}
    B = {"name": "zeta", "version": "1.0", "script": {"src": "z.js"}}
    C = {"name": "hc-like", "version": "0.0", "head": "<meta name='m'>"}
    given = [{"name": "a", "version": "1.0", "script": {"src": "a.js"}}]
    seqs = [("with-with", [[A], [A]]), ("with-without", [[A, B], []]), ("without-with", [[], [A, B]]),
            ("without-without", [[], []]), ("different", [[A], [B, C]]), ("dups", [[A, A, B], [B, A]]),
            ("three", [[A], [], [B, A]]), ("three-same", [[C, A], [C, A], [C, A]]), ("three-tail", [[], [], [A]])]
    out = []
    for k, (nm, sq) in enumerate(seqs):
        out.append(sharedlist_item(f"fix:sharedlist-{nm}", sq, given if k % 3 != 2 else [],
                                   PATTERNS[k % len(PATTERNS)], fixed_opts(k) if k % 2 else None))
    return out


def rand_sharedlist_item(rng, iid: str) -> dict:
    pool = [{"name": rng.choice(["a", "b", "c", "zeta"]), "version": rng.choice(["1.0", "2.1"]),
             **rng.choice([{}, {"script": {"src": "s.js"}}, {"head": "<x>"}])} for _ in range(rng.choice([1, 2, 4]))]
    seqs = [[rng.choice(pool) for _ in range(rng.choice([0, 0, 1, 2, 3, 9]))] for _ in range(rng.choice([2, 2, 3]))]
    given = [{"name": rng.choice(["g", "a"]), "version": "1.0"} for _ in range(rng.choice([0, 1, 1, 2]))]
    return sharedlist_item(iid, seqs, given, rng.choice(PATTERNS), rand_opts(rng) if rng.random() < 0.5 else None)


def rand_battery(rng, n: int, tag: str) -> list[dict]:
    items = []
    for i in range(n):
        r = rng.random()
        iid = f"{tag}:{i}"
        if r < 0.10:
            items.append(rand_pkg_item(rng, iid))
        elif r < 0.55:
            items.append(rand_tree_item(rng, iid, malformed=False))
        elif r < 0.62:
            items.append(rand_tree_item(rng, iid, malformed=True))
        elif r < 0.80:
            items.append(rand_hcdoc_item(rng, iid))
        elif r < 0.87:
            items.append(rand_text_item(rng, iid))
        elif r < 0.90:
            items.append(rand_sharedlist_item(rng, iid))
        elif r < 0.96:
            names = rng.sample(["a", "b", "c", "jq", "A", "zz", "b2"], rng.choice([2, 3, 5]))
            items.append({"id": iid, "kind": "resolve", "deps": [
                {"name": rng.choice(names), "version": rng.choice(["1", "1.0", "1.9", "1.10", "2", "0.0.1"])}
                for _ in range(rng.choice([2, 4, 7, 12]))]})
        else:
            vals = [rng.choice(["a", "b", "c", "dd", "e", "", "10", "B", "é"]) for _ in range(rng.choice([3, 6, 12]))]
            items.append({"id": iid, "kind": "unique", "values": vals})
        if items[-1]["kind"] in ("tree", "text") and rng.random() < 0.2:
            items[-1]["opts"] = rand_opts(rng)
    return items


# ------------------------------------------------------------------------------------------
# programs over the public construction / mutation API (item kind "prog", see c18_worker.Prog)
#
# What the pools are built for (each is a CLASS of inputs on which a value-keyed memo, a set(), a
# hash()-derived name or a position-by-substring shortcut goes wrong, while ordinary inputs do not):
#   * attribute values / children / css values that are EQUAL under == and hash alike but are of
#     different types and must be written differently: True / 1 / 1.0, False / 0 / 0.0 / -0.0,
#     's' / HTML('s') / str-subclass('s') / HTML-subclass('s'), 10**20 / 1e20, -1 / -2 (same hash);
#   * attribute names that meet after normalisation (class_ / class / className, data_x / data-x);
#   * class tokens that are prefixes / substrings of one another, repeated tokens, all kinds of
#     white space, several tokens in ONE argument of add_class / remove_class / has_class;
#   * operation sequences on one object (and on copies of it) through every mutating method.
# ------------------------------------------------------------------------------------------
def H(s):
    return {"h": s}


def U(s):
    return {"u": s}


EQ_VALUES = [True, False, None, 1, 0, 1.0, 0.0, -0.0, -1, -1.0, -2, -2.0, 2, 2.0, 1.5, 0.5, 10, 10.0,
             10 ** 20, 1e20, 1e-07, 3, 3.0,
             "1", "0", "1.0", "0.0", "-0.0", "", "True", "False", "None", "2", "x", "a<b", "a&lt;b", 'q"q', "it's",
             H("1"), H("0"), H(""), H("x"), H("a<b"), H("a&lt;b"), H('q"q'), H("1.0"), H("True"),
             U("1"), U("0"), U(""), U("x"), U("a<b"), U('q"q'), U("True"), U("1.0"),
             {"hs": "1"}, {"hs": "a<b"}, {"hs": ""}]
BAD_VALUES = [{"x": "obj"}, {"x": "bytes"}, {"x": "list"}, {"x": "complex"}]
PROG_KEYS = ["class", "class_", "className", "id", "id_", "style", "style_", "hidden", "disabled", "checked",
             "value", "opacity", "cx", "cy", "r", "tabindex", "data_x", "data-x", "data_x_", "data__x",
             "aria_label", "aria-label", "for_", "for", "http_equiv", "title", "href", "x_", "X", "x",
             "viewBox", "xlink:href", "fill_opacity", "fill-opacity", "min", "max"]
CLASS_TOKENS = ["btn", "btn-primary", "btn-lg", "nav", "nav-link", "nav-item", "a", "ab", "abc", "b", "bc", "c",
                "active", "act", "show", "sh", "x", "xx", "é", "A", "col", "col-1", "col-10"]
STYLES = ["color: red;", "top: 0;", "a:1;", "a:1; b:2;", "b:2;", H("font-family: 'X';"), U("b:2;"), H("a:1;"),
          "nosemicolon", "", ";", None, 1, {"css": [["color", "red"], ["top", 0]]}]
TEXTS = ["a<b", "a&lt;b", "1", "1.0", "", "x", "True", "&amp;", "t\n", 'q"q']
TAG_FNS = [("tags", n) for n in ("div", "span", "a", "p", "input", "img", "ul", "li", "button", "script", "style",
                                 "textarea", "pre", "option", "select", "b", "meta", "link")] + \
          [("svg", n) for n in ("svg", "circle", "rect", "g", "path", "text", "line")]
CSS_KEYS = ["color", "font_size", "font-size", "fontSize", "margin_top", "z_index", "opacity", "top", "a", "B", "_x"]


def rand_class_string(rng, tokens=None) -> str:
    toks = [rng.choice(tokens or CLASS_TOKENS) for _ in range(rng.choice([1, 1, 2, 2, 3, 3, 4, 5, 6]))]
    if len(toks) > 1 and rng.random() < 0.3:
        toks.insert(rng.randrange(len(toks) + 1), rng.choice(toks))       # a repeated token
    s = toks[0]
    for t in toks[1:]:
        s += rng.choice([" ", " ", " ", "  ", "\t", "\n"]) + t
    if rng.random() < 0.15:
        s = rng.choice([" ", "\t"]) + s
    if rng.random() < 0.15:
        s = s + rng.choice([" ", "\n"])
    return s


def rand_class_value(rng, tokens=None):
    r = rng.random()
    s = rand_class_string(rng, tokens)
    if r < 0.80:
        return s
    if r < 0.88:
        return H(s)
    if r < 0.94:
        return U(s)
    return rng.choice([None, "", True, False, 1, 1.0, 0])


def rand_value(rng):
    r = rng.random()
    if r < 0.85:
        return rng.choice(EQ_VALUES)
    if r < 0.90:
        return rng.choice(BAD_VALUES)
    if r < 0.95:
        t = trees.rand_text(rng, 6)
        return rng.choice([t, H(t), U(t)])
    return {"css": [[rng.choice(CSS_KEYS), rng.choice(EQ_VALUES)] for _ in range(rng.choice([1, 2, 3]))]}


def typed_dep(rng) -> list:
    """a dependency whose script / stylesheet / meta items carry non-string attribute values"""
    def extras(keys):
        return [[k, rng.choice([True, False, 1, 0, 1.0, 0.0, "", "1", None, "x"])]
                for k in rng.sample(keys, rng.choice([1, 2, 3]))]
    p = {"name": rng.choice(["typed", "a", "b"]), "version": rng.choice(["1.0", "1.10", "2"])}
    if rng.random() < 0.8:
        p["script"] = [dict([["src", rng.choice(["s.js", "t u.js"])]] +
                            extras(["async", "defer", "nomodule", "data-n", "crossorigin", "type"]))
                       for _ in range(rng.choice([1, 1, 2]))]
    if rng.random() < 0.5:
        p["stylesheet"] = [dict([["href", "c.css"]] + extras(["disabled", "media", "data-w", "title"]))]
    if rng.random() < 0.3:
        p["meta"] = [dict([["name", "n"], ["content", "c"]] + extras(["data-k", "lang", "hidden"]))]
    return ["M", p]


def rand_kid(rng, nregs: int, lower: int | None = None, jsx: bool = False):
    """lower: only registers below this index may be referenced (parents have the higher index:
    no cycles)"""
    r = rng.random()
    hi = nregs if lower is None else lower
    if hi > 0 and r < 0.2:
        return {"r": rng.randrange(hi)}
    if r < 0.45:
        t = rng.choice(TEXTS)
        return t if jsx else rng.choice([t, t, H(t), U(t), {"hs": t}, {"n": ["R", t]}])
    if r < 0.6:
        return rng.choice([1, 1.0, 0, 0.0, -0.0, True, False, None, 2.5, 10 ** 20, 1e20, -1, -2])
    if r < 0.75:
        return {"n": jl(trees.rand_child(rng, rng.choice([0, 1, 2]), leaves="THRMDD", names="bivs", maxkids=3))}
    if r < 0.85:
        return {"n": typed_dep(rng)}
    if r < 0.9:
        return {"n": hc(rng.randrange(len(HC_POOL)))}
    if r < 0.95:
        return {"l": [rand_kid(rng, nregs, lower, jsx) for _ in range(rng.choice([0, 1, 2, 3]))]}
    return rng.choice(BAD_VALUES)


def rand_attr_pairs(rng, profile: str) -> list:
    out = []
    for _ in range(rng.choice([0, 1, 1, 2, 2, 3, 4, 6])):
        k = rng.choice(PROG_KEYS)
        if k.rstrip("_") in ("class", "className") and rng.random() < 0.8:
            out.append([k, rand_class_value(rng)])
        elif k.rstrip("_") == "style" and rng.random() < 0.7:
            out.append([k, rng.choice(STYLES)])
        else:
            out.append([k, rand_value(rng)])
    if profile == "class" and not any(k.rstrip("_") == "class" for k, _ in out):
        out.append([rng.choice(["class", "class_"]), rand_class_value(rng)])
    return out


def rand_args(rng, nregs: int, profile: str, jsx: bool = False) -> list:
    args = []
    for _ in range(rng.choice([0, 1, 1, 2, 3, 4])):
        if not jsx and nregs and rng.random() < 0.06:
            args.append({"ra": rng.randrange(nregs)})          # another tag's .attrs object as an attribute dict
        elif not jsx and rng.random() < 0.35:
            args.append({"a": rand_attr_pairs(rng, profile)})
        else:
            args.append(rand_kid(rng, nregs, jsx=jsx))
    return args


def rand_creator(rng, nregs: int, profile: str) -> list:
    r = rng.random()
    kw = rand_attr_pairs(rng, profile)
    if profile == "jsx" and r < 0.6:
        props = [[k, rng.choice([v, v, {"l": [v, 1, 1.0, True]}, {"d": [["k", v], ["j", 1.0]]}, {"js": "() => 1"}])]
                 for k, v in kw]
        if nregs and rng.random() < 0.4:
            props.append(["slot", {"r": rng.randrange(nregs)}])
        return ["jsx", rng.choice(["Foo", "Foo.Bar", "MyTag"]), rand_args(rng, nregs, profile, jsx=True), props]
    if r < 0.45:
        name, ws = trees.rand_name(rng, "bbiivsc")
        return ["tag", name, rng.choice([None, ws, ws, not ws]), rand_args(rng, nregs, profile), kw]
    if r < 0.8:
        mod, name = rng.choice(TAG_FNS)
        return ["fn", mod, name, rand_args(rng, nregs, profile), kw]
    if r < 0.88:
        return ["cons", rand_args(rng, nregs, profile), kw]
    if r < 0.94 and nregs:
        return [rng.choice(["copy", "deepcopy", "tagify"]), rng.randrange(nregs)]
    return ["list", [rand_kid(rng, nregs) for _ in range(rng.choice([0, 1, 2, 3]))]]


def rand_mutator(rng, nregs: int, profile: str) -> list:
    i = rng.randrange(nregs)
    r = rng.random()
    if profile == "class":
        r *= 0.5
    if r < 0.12:
        return ["add_class", i, rand_class_value(rng), rng.random() < 0.3]
    if r < 0.30:
        # one name, several names, names that are not there, names with white space around
        v = rand_class_value(rng, CLASS_TOKENS + ["zz", "nope"])
        return ["remove_class", i, v]
    if r < 0.38:
        return ["has_class", i, rand_class_string(rng)]
    if r < 0.44:
        return ["add_style", i, rng.choice(STYLES), rng.random() < 0.3]
    if r < 0.50:
        return rng.choice([["attrs", i], ["render", i], ["deps", i, False], ["deps", i, True]])
    if r < 0.60:
        return ["set", i, rng.choice(PROG_KEYS), rand_value(rng)]
    if r < 0.70:
        return ["upd", i, [rand_attr_pairs(rng, profile) for _ in range(rng.choice([0, 1, 2]))],
                rand_attr_pairs(rng, profile)]
    if r < 0.74:
        return ["del", i, rng.choice(["class", "style", "id", "hidden", "data-x"])]
    if r < 0.78:
        return ["get", i, rng.choice(["class", "style", "id", "hidden", "data-x", "value"])]
    if r < 0.90:
        op = rng.choice(["append", "extend", "iadd"])
        return [op, i, [rand_kid(rng, nregs, lower=i) for _ in range(rng.choice([1, 1, 2, 3]))]]
    if r < 0.94:
        return ["insert", i, rng.choice([0, 0, 1, -1, 5]), rand_kid(rng, nregs, lower=i)]
    if r < 0.97:
        return ["css", [[rng.choice(CSS_KEYS), rng.choice(EQ_VALUES + [{"l": ["a", "b"]}])]
                        for _ in range(rng.choice([0, 1, 2, 4]))], rng.choice(["", "", "\n", " "])]
    return ["escape", rng.choice(TEXTS + [trees.rand_text(rng, 6)]), rng.random() < 0.5]


def rand_prog_item(rng, iid: str) -> dict:
    profile = rng.choice(["class", "class", "typed", "typed", "mixed", "mixed", "jsx"])
    steps = [rand_creator(rng, 0, profile)]
    nregs = 1
    for _ in range(rng.choice([0, 1, 2, 3, 4, 6, 9])):
        if rng.random() < 0.25:
            steps.append(rand_creator(rng, nregs, profile))
            nregs += 1
        else:
            steps.append(rand_mutator(rng, nregs, profile))
    kw = rng.choice([[], [], [["lang", "en"]], [["hidden", True], ["data_n", 1.0]], [["class", "k"], ["tabindex", 0]],
                     [["data_n", 1], ["lang", U("en")]]])
    it = {"id": iid, "kind": "prog", "steps": steps, "doc_kw": kw}
    if rng.random() < 0.2:
        it["opts"] = rand_opts(rng)
    return it


def fixed_progs() -> list[dict]:
    """hand-written members of the classes above; each construction is its own item, so that every
    process meets them in its own order and each is also rendered without any history"""
    def item(name, steps, kw=()):
        return {"id": "fix:prog-" + name, "kind": "prog", "steps": steps, "doc_kw": [list(x) for x in kw]}
    out = []
    # the same attribute written with ==-equal values of different types, one construction per item
    for j, vals in enumerate([[True, False], [1, 0], [1.0, 0.0], ["1", "0"], [H("1"), H("0")], [U("1"), U("0")],
                              [-0.0, 2.0], [2, "2"], [10 ** 20, 1e20], [-1, -2], [-1.0, -2.0], ["", H("")]]):
        a, b = vals
        out.append(item(f"eq-kw-{j}", [["fn", "tags", "input", [], [["hidden", a], ["disabled", b], ["value", a],
                                                                     ["tabindex", b]]]]))
        out.append(item(f"eq-svg-{j}", [["fn", "svg", "circle", [{"a": [["cx", b], ["cy", a]]}],
                                         [["opacity", a], ["fill_opacity", b], ["r", a]]]]))
        out.append(item(f"eq-set-{j}", [["tag", "div", None, [a, b, "t"], []], ["set", 0, "data-v", a],
                                        ["upd", 0, [[["data-w", b]], [["data-w", a]]], [["data_v", b]]],
                                        ["attrs", 0]], kw=[["data_n", a], ["hidden", b]]))
        out.append(item(f"eq-css-{j}", [["css", [["opacity", a], ["z_index", b], ["top", a]], ""],
                                        ["fn", "tags", "p", ["t"], [["style", {"css": [["opacity", b], ["top", a]]}]]]]))
        out.append(item(f"eq-dep-{j}", [["tag", "div", None, [{"n": ["M", {
            "name": "typed", "version": "1.0", "script": {"src": "s.js", "async": a, "defer": b, "data-n": a},
            "stylesheet": [{"href": "c.css", "disabled": b, "data-w": a}]}]}], []]]))
        out.append(item(f"eq-jsx-{j}", [["jsx", "Foo", ["kid"], [["open", a], ["count", b],
                                                                 ["opts", {"d": [["k", a], ["l", {"l": [a, b]}]]}]]]]))
    # read, then change something BELOW the object that was read, then look again: an inner tag (register 0) inside
    # an outer one (register 1, optionally inside register 2); every kind of read x every way of adding a late
    # dependency / child to the inner tag.  The worker compares with the same program without the reads.
    late = {"n": ["M", {"name": "late", "version": "1.0", "script": {"src": "late.js"}}]}
    for j, read in enumerate([["deps", 1, False], ["deps", 1, True], ["render", 1], ["attrs", 1]]):
        for k, mut in enumerate([["append", 0, [late]], ["extend", 0, [late, "x"]], ["iadd", 0, [late]],
                                 ["insert", 0, 0, late], ["append", 0, ["plain text"]]]):
            for deep in (False, True):
                steps = [["tag", "span", None, ["i"], []], ["tag", "div", None, [{"r": 0}, "t"], []]]
                if deep:
                    steps.append(["tag", "section", None, ["s", {"r": 1}], []])
                top = 2 if deep else 1
                steps += [[read[0], top] + read[2:], mut, [read[0], top] + read[2:]]
                out.append(item(f"read-mutate-below-{j}-{k}-{int(deep)}", steps))
    # the same text as a plain string, trusted markup, subclass instances: children and attributes
    for j, t in enumerate(["a<b", "a&lt;b", 'q"q', "1"]):
        for k, v in enumerate([t, H(t), U(t), {"hs": t}, {"n": ["R", t]}]):
            out.append(item(f"text-{j}-{k}", [["tag", "div", None, [v, {"a": [["title", v if k < 4 else t]]}],
                                               [["class_", v if k < 4 else t]]],
                                              ["add_class", 0, v if k < 4 else t, False]]))
    # attribute names that meet after normalisation, in several orders
    names = ["class", "class_", "className", "data_x", "data-x", "data_x_", "for_", "for"]
    for j, order in enumerate([names, list(reversed(names)), names[1::2] + names[0::2]]):
        out.append(item(f"names-{j}", [["tag", "label", None, [{"a": [[n, f"v{i}"] for i, n in enumerate(order[:4])]}],
                                        [[n, f"w{i}"] for i, n in enumerate(order[4:])]],
                                       ["upd", 0, [[[n, "u"] for n in order]], []], ["attrs", 0]]))
    # class tokens that are prefixes / substrings of one another, repeated, with all kinds of white space
    cls = ["btn-primary btn nav-link nav-item nav", "abc ab a bc b c", "col-10 col-1 col", "x xx x\txx\nx",
           " active  act show sh ", "a b c d e f g h", "nav nav-link nav", "btn btn btn-lg btn"]
    rem = ["btn", "nav btn", "zz nope", "x", " a  c ", "col-1 col", "show zz", "nav-link\tnav", "a b c", "act active zz"]
    for j, c in enumerate(cls):
        for k, rm in enumerate(rem):
            if (j + k) % 2:
                continue
            out.append(item(f"class-{j}-{k}", [
                ["fn", "tags", "div", ["t"], [["class_", c]]], ["remove_class", 0, rm], ["attrs", 0],
                ["has_class", 0, rm], ["add_class", 0, rm, k % 3 == 0], ["remove_class", 0, rem[(k + 3) % len(rem)]],
                ["copy", 0], ["remove_class", 1, rem[(k + 5) % len(rem)]], ["add_class", 1, c, True],
                ["render", 0]]))
    # styles
    out.append(item("styles", [["fn", "tags", "p", [], [["style", "a:1;"]]], ["add_style", 0, "b:2;", False],
                               ["add_style", 0, H("c:'3';"), True], ["add_style", 0, "a:1;", False],
                               ["add_style", 0, "nosemicolon", False], ["add_style", 0, U("d:4;"), True],
                               ["deepcopy", 0], ["add_style", 1, "e:5;", False], ["attrs", 0], ["attrs", 1]]))
    # children through every route, numbers among them
    out.append(item("children", [["tag", "ul", True, [1, 1.0, True, 0, 0.0, False, None, "1"], []],
                                 ["append", 0, [2, 2.0, {"l": [3, [3.0]]}]], ["extend", 0, [H("<i>"), U("<i>"), "<i>"]],
                                 ["insert", 0, 0, -0.0], ["iadd", 0, [10 ** 20, 1e20]], ["tagify", 0], ["copy", 0],
                                 ["append", 2, ["only in the copy"]], ["render", 0], ["render", 1], ["render", 2]]))
    # two features together: HTML() values through the class / style helpers, the attrs object into consolidate_attrs
    # and back into a tag; JSX components inside ordinary tags (all routes: the with-block among them)
    allr = {k: v for k, v in fixed_opts(0).items()}
    out.append(dict(item("html-class-cons", [
        ["fn", "tags", "div", ["k"], [["class_", H("a&amp;b c")], ["style", H("x:'1';")]]],
        ["add_class", 0, H("d&amp;e"), False], ["add_class", 0, "f<g", True], ["add_style", 0, H("y:\"2\";"), False],
        ["add_style", 0, "z:3;", True], ["cons", [{"ra": 0}, {"a": [["class", H("h")], ["style", "w:4;"]]}, "kid", {"r": 0}],
                                        [["class_", "i"]]],
        ["fn", "tags", "span", [{"ra": 0}, {"ra": 1}, "t"], [["class_", H("j")]]], ["remove_class", 2, "c i"],
        ["copy", 2], ["deepcopy", 1], ["attrs", 0], ["attrs", 1], ["attrs", 2]]), opts=allr))
    out.append(dict(item("jsx-in-tags", [
        ["jsx", "Foo", ["kid", {"n": dep("jsx-dep", "1.0", script={"src": "j.js"})}], [["open", True], ["n", 1.0]]],
        ["fn", "tags", "div", [{"r": 0}, "text", {"n": hc(5)}], [["class_", "host"]]],
        ["jsx", "Foo.Bar", [{"r": 1}], [["slot", {"r": 0}]]],
        ["fn", "tags", "section", [{"r": 2}, {"r": 0}], []], ["render", 3]]), opts=dict(allr, wrap="section", indent=2)))
    out.append(item("faults", [["tag", "div", None, [{"x": "obj"}], []], ["tag", "div", None, ["k"], [["id", {"x": "bytes"}]]],
                               ["tag", "div", None, ["k"], [["id", "i"]]], ["set", 2, "a", {"x": "complex"}],
                               ["upd", 2, [[["b", 1.0], ["c", {"x": "list"}], ["d", True]]], []], ["attrs", 2],
                               ["append", 2, ["ok", {"x": "obj"}]], ["add_class", 2, {"x": "obj"}, False],
                               ["fn", "tags", "span", [1.0], [["hidden", True]]]]))
    return out



# ------------------------------------------------------------------------------------------
# non-default arguments: the `opts` of an item (see c18_worker.observe_routes)
# ------------------------------------------------------------------------------------------
INDENTS = [0, 1, 2, 3, 7]
EOLS = ["\n", "\r\n", "", "\n\n", " ", "\t\n"]
LIB_PREFIXES = ["lib", None, "", "static/libs", "a/b/c", "lib with space", "../up"]
LIBDIRS = ["lib", None, "a/b", "static"]
PATTERNS = ["@@DEPS@@", "$1\\1(.*)[a-z]+?", "<!-- deps (.*) -->", "{{ head|safe }}", "\\g<0>^$|", '<meta data-foo="">',
            "[[deps]]", "a+b*c?{2}"]
WRAPS = ["div", "span", "body", "ul", "section", "my-el", "p"]
DOC_KWS = [[], [["lang", "en"]], [["class", "k"], ["data_q", "1"]], [["lang", "fr"], ["class_", "a b a"], ["style", "margin:0;"]],
           [["style", "x:1;"], ["hidden", True], ["data_n", 1.0]], [["class_", "doc"], ["className", "doc2"], ["id", "root"]]]


def rand_opts(rng, all_groups: bool = False, ngroups: int = 3) -> dict:
    return {**({} if all_groups else {"groups": sorted(rng.sample(W.ROUTE_GROUPS, ngroups))}), "indent": rng.choice(INDENTS), "eol": rng.choice(EOLS), "add_ws": rng.random() < 0.6,
            "lib_prefix": rng.choice(LIB_PREFIXES), "include_version": rng.random() < 0.5,
            "libdir": rng.choice(LIBDIRS), "save": rng.choice([None, None, None, "list", "tag", "doc"]),
            "pattern": rng.choice(PATTERNS), "wrap": rng.choice(WRAPS), "build_json": rng.random() < 0.2}


def fixed_opts(k: int) -> dict:
    """a deterministic cycle through the pools (the fixed battery does not draw from the PRNG)"""
    g = W.ROUTE_GROUPS
    return {**({} if k % 4 == 0 else {"groups": sorted({g[k % 8], g[(k // 8 + 3 + k) % 8], g[(5 * k + 1) % 8]})}),
            "indent": INDENTS[k % len(INDENTS)], "eol": EOLS[(k // 2) % len(EOLS)], "add_ws": k % 3 != 0,
            "lib_prefix": LIB_PREFIXES[k % len(LIB_PREFIXES)], "include_version": k % 2 == 0,
            "libdir": LIBDIRS[(k // 3) % len(LIBDIRS)], "save": [None, "list", None, "tag", None, "doc"][k % 6],
            "pattern": PATTERNS[k % len(PATTERNS)], "wrap": WRAPS[k % len(WRAPS)], "build_json": k % 5 == 4}


# ------------------------------------------------------------------------------------------
# sizes: counts around 2^k and long strings, the part that matters BEYOND the threshold
# ------------------------------------------------------------------------------------------
SIZES = [7, 8, 9, 15, 16, 17, 31, 32, 33, 63, 64, 65, 127, 128, 129, 255, 256, 257, 300]
DEPTHS = [7, 8, 9, 15, 16, 17, 31, 32, 33, 63, 64, 65, 70]
STR_LENS = [299, 300, 301, 511, 512, 513, 1023, 1024, 1025, 2047, 2048, 2049, 4095, 4096, 4097, 5000, 8191, 8192,
            8193, 8200, 12287, 12288, 12300, 16383, 16384, 16385, 20000, 32767, 32768, 32769, 65535, 65536, 65537,
            70001, 131071, 131072, 131073, 140000]
UNITS_PLAIN = ["ab", "0123456789abcdef", ".w{margin:0;padding:0}\n", "é", "a\U0001F600b", "線-", "q "]
UNITS_SPECIAL = ["x&y<z> ", "<b>&amp;</b>", "it's \"q\"\r\n"]


def pick_sizes(rng, k: int, pool=None) -> list[int]:
    """k sizes: always one of the four largest (>= 255; depths: >= 63), one from the middle, one small"""
    pool = pool or SIZES
    cut = len(pool) // 2 - 3
    out = [rng.choice(pool[-4:]), rng.choice(pool[cut:-4]), rng.choice(pool[:cut])]
    out += [rng.choice(pool) for _ in range(max(0, k - 3))]
    return out[:k]


def esc_text(s: str) -> str:
    return s.replace("&", "&amp;").replace("<", "&lt;").replace(">", "&gt;")


def esc_attr(s: str) -> str:
    return (esc_text(s).replace('"', "&quot;").replace("'", "&apos;").replace("\r", "&#13;").replace("\n", "&#10;"))


FORMS = ["T", "H", "R", "style", "script", "title", "meta", "T+M", "H+dep"]


def form_payload(form: str, s) -> list:
    """the head_content arguments of a form; s is a string or its {"$rep": ...} notation"""
    if form == "T":
        return [["T", s]]
    if form == "H":
        return [["H", s]]
    if form == "R":
        return [["R", s]]
    if form == "style":
        return [G("style", True, [], [["H", s]])]
    if form == "script":
        return [G("script", True, [], [["T", s]])]
    if form == "title":
        return [G("title", True, [], [["T", s]])]
    if form == "meta":
        return [G("meta", False, [["name", ["S", "long"]], ["content", ["S", s]]], [])]
    if form == "T+M":
        return [["M", None], ["T", s]]
    if form == "H+dep":
        return [["H", s], ["M", NESTED_DEP]]
    raise ValueError(form)


def form_content(form: str, s: str) -> str:
    """what the arguments of the form render to (written from the rendering rules: text is escaped except
    inside script / style, trusted markup and self-rendered objects are written as they are, an attribute
    value is escaped with the attribute table, metadata leaves no trace)"""
    if form in ("T", "T+M"):
        return esc_text(s)
    if form in ("H", "R", "H+dep"):
        return s
    if form in ("style", "script"):
        return "<%s>%s</%s>" % (form, s, form)
    if form == "title":
        return "<title>" + esc_text(s) + "</title>"
    if form == "meta":
        return '<meta name="long" content="' + esc_attr(s) + '"/>'
    raise ValueError(form)


def hcf(form: str, s) -> list:
    """a head_content node of a known form; "expect" = [form, s] is what the oracle derives the content from"""
    return ["M", {"hc": form_payload(form, s), "expect": [form, s]}]


def rep(unit: str, n: int, pos: int, ins: str) -> dict:
    return {"$rep": [unit, n, pos, ins]}


def marker(k: int) -> str:
    return "[k%06d]" % k


def place(rng, nodes: list, layout: str) -> list:
    """the nodes, in this order, in a tree of the given layout"""
    if layout == "flat":
        return [G("div", True, [], nodes)]
    if layout == "top":
        return list(nodes)
    if layout == "lists":
        out: list = []
        for x in reversed(nodes):
            out = [x, ["L", out] if len(out) % 3 else ["L", out, "t"]] if out else [x]
        return [G("section", True, [], [["L", out]])]
    if layout == "chain":
        t = None
        for x in reversed(nodes):
            t = G(rng.choice(["div", "section", "ul", "span"]), True, [], [x] + ([t] if t is not None else []))
        return [t]
    if layout == "objects":
        # (a tagifiable object returns tagified content: the nested object sits inside a tag of its expansion)
        out2: list = []
        for x in reversed(nodes):
            out2 = [x, ["C", None, [G("div", True, [], out2)], len(out2) % 2 == 0]] if out2 else [x]
        return [G("div", True, [], out2)]
    if layout == "body":
        return [G("body", True, [["class", ["S", "b"]]], nodes)]
    if layout == "html":
        half = len(nodes) // 2
        return [G("html", True, [["data-a", ["S", "1"]]],
                  [G("head", True, [], [G("title", True, [], [["T", "own head"]])] + nodes[:half]),
                   G("body", True, [], nodes[half:])])]
    raise ValueError(layout)


def seam_positions(n: int) -> list[int]:
    out = {0, 1, n // 2, n - 1, n}
    b = 64
    while b <= n:
        out |= {b - 1, b, b + 1}
        b *= 2
    # the last whole block of the usual block sizes
    for blk in (64, 512, 4096, 8192, 65536):
        last = (n // blk) * blk
        if last:
            out |= {last - 1, last, min(n, last + 1)}
    return sorted(x for x in out if 0 <= x <= n)


def long_family_item(rng, iid: str, n: int, base_k: int, forms=None, unit=None, positions=None, layout=None) -> dict:
    """several head_content payloads that share a long base and differ in a marker only (at the head, the middle,
    a seam or the tail), some of them equal in content through another form, in one document"""
    special = rng.random() < 0.25 if unit is None else False
    unit = unit or rng.choice(UNITS_SPECIAL if special else UNITS_PLAIN)
    seams = seam_positions(n)
    # (few members when the strings are very long: the library's extraction of serialised dependencies scans the
    # json-mode text with a lazy regular expression)
    positions = positions or ([n, n] + rng.sample(seams, 1 if n >= 60000 else min(len(seams), rng.choice([1, 2, 3]))))
    forms = forms or [rng.choice(FORMS)] * 2 + [rng.choice(FORMS) for _ in range(len(positions))]
    nodes = []
    for j, pos in enumerate(positions):
        nodes.append(hcf(forms[j % len(forms)], rep(unit, n, pos, marker(base_k + j))))
    if rng.random() < 0.5 and n < 60000:
        # the base alone: a proper prefix of every member whose marker is at the tail
        nodes.append(hcf(forms[0], rep(unit, n, 0, "")))
    # equal content once more (same form; and as text / trusted markup / self-rendered when nothing is escaped)
    u, nn, pos, ins = nodes[0][1]["expect"][1]["$rep"]
    nodes.append(hcf(nodes[0][1]["expect"][0], rep(u, nn, pos, ins)))
    f0 = nodes[0][1]["expect"][0]
    if f0 in ("T", "H", "R") and esc_text(unit) == unit:
        nodes.append(hcf(rng.choice(["T", "H", "R", "T+M", "H+dep"]), rep(u, nn, pos, ins)))
    rng.shuffle(nodes)
    nodes.insert(rng.randrange(len(nodes) + 1), ["T", "body text"])
    layout = layout or rng.choice(["flat", "top", "lists", "chain", "objects", "body", "html"])
    return {"id": iid, "kind": "tree", "descs": place(rng, nodes, layout), "doc_kw": rng.choice(DOC_KWS),
            "hcdoc": True, "opts": rand_opts(rng, True)}


def hc_count_item(rng, iid: str, n: int, base_k: int) -> dict:
    """n head_content nodes in one document; the last one repeats an early content or differs from it in the
    last character only"""
    nodes = []
    for j in range(n - 1):
        nodes.append(hcf(rng.choice(["T", "H", "title", "meta", "T"]), marker(base_k + j)))
    first_form, first_s = nodes[0][1]["expect"]
    nodes.append(hcf(first_form, first_s) if rng.random() < 0.5 else hcf(first_form, first_s + "'"))
    layout = rng.choice(["flat", "top", "lists", "chain", "objects", "body", "html"] if n <= 70 else
                        ["flat", "top", "body", "html"])
    return {"id": iid, "kind": "tree", "descs": place(rng, nodes, layout), "doc_kw": rng.choice(DOC_KWS),
            "hcdoc": True, "opts": rand_opts(rng, n <= 70, 4)}


def many_deps(rng, n: int) -> list:
    """n dependency payloads over about n/2 names; the last one collides with the first (a higher version)"""
    names = [f"d{j}" for j in range(max(2, n // 2))]
    out = [{"name": "d0", "version": "1.0", "script": {"src": "first.js"}}]
    for j in range(1, n - 1):
        out.append({"name": rng.choice(names), "version": rng.choice(["1", "1.0", "1.9", "1.10", "2", "0.0.1", "1.0.0.1"]),
                    **rng.choice([{}, {"script": {"src": f"s{j}.js"}}, {"stylesheet": [{"href": f"c{j}.css"}]}])})
    out.append({"name": "d0", "version": rng.choice(["1.0", "3", "0.1"]), "script": {"src": "last.js"}})
    return out


def many_versions(rng, n: int) -> list:
    """n versions of ONE name (the highest somewhere beyond the threshold), long version strings included"""
    vs = [".".join(str(rng.randrange(0, 12)) for _ in range(rng.choice([1, 2, 3, 4]))) for _ in range(n - 2)]
    vs.insert(rng.randrange(n // 2, n - 1), "12." + ".".join(["0"] * rng.choice([1, 8, 33])) + ".1")
    vs.append("12")
    return [{"name": "one", "version": v, "script": {"src": f"v{j}.js"}} for j, v in enumerate(vs)]


def deps_count_items(rng, iid: str, n: int) -> list[dict]:
    ps = many_deps(rng, n) if rng.random() < 0.6 else many_versions(rng, n)
    nodes = [["M", p] for p in ps]
    layout = rng.choice(["flat", "top", "lists", "chain", "objects", "body"] if n <= 70 else ["flat", "top", "body"])
    return [{"id": iid + ":tree", "kind": "tree", "descs": place(rng, nodes, layout), "doc_kw": rng.choice(DOC_KWS),
             "opts": rand_opts(rng, n <= 70, 4)},
            {"id": iid + ":resolve", "kind": "resolve", "deps": [{"name": p["name"], "version": p["version"]} for p in ps]}]


def big_text_item(rng, iid: str, n: int, long_len: int) -> dict:
    """a text with n serialised dependencies (drawn with repetition; the last one repeats the first or is new), one
    of them with a long head string, long fillers between them"""
    pool = [{"name": f"t{j}", "version": rng.choice(["1.0", "2.1"]), **rng.choice([{}, {"script": {"src": "s.js"}}])}
            for j in range(max(2, (2 * n) // 3))]
    seq = [rng.choice(pool) for _ in range(n - 1)]
    seq.append(seq[0] if rng.random() < 0.5 else {"name": "last", "version": "9"})
    parts: list = ["<html><head>", "$PAT", "</head><body>"]
    long_at = rng.randrange(n)
    for j, p_ in enumerate(seq):
        if j == long_at:
            q = dict(p_, name="longhead", head="@@LONG@@")
            a, b = (OPEN_TAG + json.dumps(q) + CLOSE_TAG).split("@@LONG@@")
            parts += [a, rep("abcdefg ", long_len, long_len, "tail%d" % j), b]
        else:
            parts.append(ser(p_))
        if j % 7 == 3:
            parts.append(rep("<p>filler</p>\n", rng.choice([300, 5000, 70000]), 0, ""))
    parts.append("</body></html>")
    pat = rng.choice(PATTERNS)
    parts = [pat if x == "$PAT" else x for x in parts]
    return {"id": iid, "kind": "text", "text": {"$cat": parts}, "deps": [{"name": "given", "version": "1.0"}],
            "pattern": pat, "opts": rand_opts(rng, True)}


def big_attr_item(rng, iid: str, n: int) -> dict:
    """n attributes on one tag / n tokens in one class value / n dicts merged into one attribute / long values"""
    keys = [f"data-k{j}" for j in range(n)]
    rng.shuffle(keys)
    toks = [rng.choice(CLASS_TOKENS) + str(j % max(2, n // 3)) for j in range(n)]
    long_v = rep(rng.choice(UNITS_PLAIN + UNITS_SPECIAL), rng.choice(STR_LENS), 0, "")
    descs = [
        ["K", "div", [{k: str(j) for j, k in enumerate(keys)}], [["data_k0", "again"], ["title", long_v]], [["T", "x"]]],
        ["K", "p", [{"class": " ".join(toks)}], [["class_", toks[-1] + " " + toks[0]]], []],
        ["K", "span", [{"class": t, "style": f"p{j}:{j};"} for j, t in enumerate(toks)], [["className", "last"]], []],
        ["K", "a", [{"href": long_v, "class": long_v}], [["class_", "tail"]], []]]
    return {"id": iid, "kind": "tree", "descs": descs, "doc_kw": [["class", " ".join(toks[: n // 2])]],
            "opts": rand_opts(rng, True)}


def deep_item(rng, iid: str, depth: int) -> dict:
    """a dependency, a head_content node and a long text at the bottom of `depth` levels of tags / lists /
    tagifiable objects; a colliding dependency at the top"""
    kind = rng.choice(["tags", "lists", "objects", "mixed"])
    bottom = [dep("deep", "1.0", script={"src": "deep.js"}), hcf("T", marker(700000 + depth)), ["T", "bottom"],
              ["H", rep("<i>x</i>", rng.choice([300, 5000]), 0, "")]]
    t = G("b", False, [], bottom)
    for lvl in range(depth):
        k = kind if kind != "mixed" else rng.choice(["tags", "lists", "objects"])
        if k == "tags":
            t = G(rng.choice(["div", "span", "ul", "li", "section"]), rng.random() < 0.7, [], [t] if lvl % 5 else [["T", "t"], t])
        elif k == "lists":
            t = ["L", [t]] if lvl % 2 else ["L", [t], "t"]
        else:
            t = ["C", None, [G("div", True, [], [t])], lvl % 2 == 0]
    # head_content whose own arguments are nested that deep
    inner = ["T", "in" + marker(710000 + depth)]
    for lvl in range(depth):
        inner = G("div" if lvl % 2 else "span", lvl % 3 != 0, [], [inner])
    descs = [dep("deep", "2.0", script={"src": "top.js"}), G("div", True, [], [t]), ["M", {"hc": [inner]}]]
    return {"id": iid, "kind": "tree", "descs": descs, "doc_kw": [], "opts": rand_opts(rng, True)}


def wide_item(rng, iid: str, n: int) -> dict:
    kids: list = []
    for j in range(n - 1):
        r = rng.random()
        kids.append(["T", f"t{j}<"] if r < 0.4 else ["H", f"<i>{j}</i>"] if r < 0.6 else
                    G("span", False, [], [["T", str(j)]]) if r < 0.8 else
                    dep(f"w{j % 5}", rng.choice(["1.0", "1.1"]), script={"src": f"w{j}.js"}))
    kids.insert(0, dep("w0", "1.0", script={"src": "w-first.js"}))
    kids.append(dep("w0", "5.0", script={"src": "w-last.js"}))
    return {"id": iid, "kind": "tree", "descs": [G("ul", True, [], kids), ["L", kids[: n // 2]]], "doc_kw": [],
            "opts": rand_opts(rng, n <= 70, 4)}


def big_unique_item(rng, iid: str, n: int) -> dict:
    vals = [f"v{rng.randrange(max(2, (2 * n) // 3))}" for _ in range(n - 2)]
    vals += [rep("u", rng.choice([300, 5000, 70000]), 0, ""), vals[0]]
    return {"id": iid, "kind": "unique", "values": vals}


def long_prog_item(rng, iid: str, n: int) -> dict:
    """n steps on few objects (a long history on one object)"""
    profile = rng.choice(["class", "typed", "mixed"])
    steps = [rand_creator(rng, 0, profile)]
    nregs = 1
    for j in range(n):
        if j % 40 == 17:
            steps.append(rand_creator(rng, nregs, profile))
            nregs += 1
        else:
            steps.append(rand_mutator(rng, nregs, profile))
    toks = " ".join(f"c{j}" for j in range(n))
    steps += [["add_class", 0, toks, False], ["remove_class", 0, " ".join(f"c{j}" for j in range(0, n, 2))],
              ["has_class", 0, f"c{n - 1}"], ["css", [[f"p{j}", j] for j in range(n)], ""], ["attrs", 0]]
    return {"id": iid, "kind": "prog", "steps": steps, "doc_kw": [], "opts": rand_opts(rng, n <= 70, 4)}


def fixed_long_items() -> list[dict]:
    """families of long payloads that every run has (the PRNG-drawn ones come on top)"""
    import random as _random
    r = _random.Random(18)                      # a fixed battery: not the run's PRNG
    css_unit = ".w{margin:0;padding:0}\n"
    spec = [(300, ["meta", "meta", "T"], "ab", [300, 300, 0, 150]),
            (4096, ["H", "H", "T"], "0123456789abcdef", [4096, 4096, 4095, 0]),
            (5000, ["style", "style", "script"], css_unit, [5000, 5000, 4096, 2500, 0]),
            (8192, ["H", "R", "T"], "q ", [8192, 8192, 4095, 4096, 4097]),
            (12300, ["title", "title"], "x&y<z> ", [12300, 12300, 12288, 1]),
            (65537, ["script", "script"], "a\U0001F600b", [65537, 65537, 65536]),
            (70001, ["T", "T", "H"], "線-", [70001, 70001, 35000]),
            (140000, ["style", "style"], css_unit, [140000, 140000])]
    out = []
    for j, (n, forms, unit, positions) in enumerate(spec):
        it = long_family_item(r, f"fix:long-{n}", n, 900000 + 100 * j, forms=forms, unit=unit, positions=positions,
                              layout=["flat", "html", "top", "chain", "body", "lists", "objects", "flat"][j])
        it["opts"] = fixed_opts(j)
        out.append(it)
    for j, n in enumerate([33, 129, 257]):
        it = hc_count_item(r, f"fix:hc-count-{n}", n, 800000 + 1000 * j)
        it["opts"] = fixed_opts(j + 3)
        out.append(it)
    return out


def big_items(rng, tag: str, quick: bool) -> list[dict]:
    """the sparse big cases of one battery"""
    out: list[dict] = []
    k = 0
    lens = [rng.choice(STR_LENS[-8:]), rng.choice(STR_LENS[12:-8]), rng.choice(STR_LENS[12:-8]), rng.choice(STR_LENS[:12])]
    lens += [rng.choice(STR_LENS) for _ in range(2 if quick else 6)]
    for n in lens:
        out.append(long_family_item(rng, f"{tag}:long:{k}", n, 100000 + 100 * k))
        k += 1
    for n in pick_sizes(rng, 4 if quick else 7):
        out.append(hc_count_item(rng, f"{tag}:hc-count:{k}", n, 200000 + 1000 * k))
        k += 1
    for n in pick_sizes(rng, 4 if quick else 7):
        out += deps_count_items(rng, f"{tag}:deps:{k}", n)
        k += 1
    for n in pick_sizes(rng, 3 if quick else 6):
        out.append(big_text_item(rng, f"{tag}:text:{k}", n, rng.choice([300, 5000, 70000])))
        k += 1
    for n in pick_sizes(rng, 3 if quick else 6):
        out.append(big_attr_item(rng, f"{tag}:attrs:{k}", n))
        k += 1
    for d in pick_sizes(rng, 4 if quick else 7, DEPTHS):
        out.append(deep_item(rng, f"{tag}:deep:{k}", d))
        k += 1
    for n in pick_sizes(rng, 3 if quick else 6):
        out.append(wide_item(rng, f"{tag}:wide:{k}", n))
        k += 1
    for n in pick_sizes(rng, 3 if quick else 6):
        out.append(big_unique_item(rng, f"{tag}:unique:{k}", n))
        k += 1
    for n in pick_sizes(rng, 3 if quick else 6):
        out.append(long_prog_item(rng, f"{tag}:prog:{k}", n))
        k += 1
    return out


# ------------------------------------------------------------------------------------------
# walking descriptions
# ------------------------------------------------------------------------------------------
def walk(d, f):
    f(d)
    k = d[0]
    if k == "G" or k == "K":
        for x in d[4]:
            walk(x, f)
    elif k == "C":
        for x in d[2]:
            walk(x, f)
    elif k == "L":
        for x in d[1]:
            walk(x, f)
    elif k == "M" and isinstance(d[1], dict) and "hc" in d[1]:
        for x in d[1]["hc"]:
            walk(x, f)


def item_stats(item: dict) -> dict:
    st = {"deps": 0, "hc": 0, "attrs": 0, "K": 0, "C": 0}

    def f(d):
        if d[0] == "M" and isinstance(d[1], dict):
            st["hc" if "hc" in d[1] else "deps"] += 1
        elif d[0] == "G":
            st["attrs"] = max(st["attrs"], len(d[3]))
        elif d[0] == "K":
            st["K"] += 1
            st["attrs"] = max(st["attrs"], sum(len(x) for x in d[2]) + len(d[3]))
        elif d[0] == "C":
            st["C"] += 1
    for d in item.get("descs", []):
        walk(d, f)
    return st


def nontrivial(item: dict) -> bool:
    if item["kind"] != "tree":
        return True
    st = item_stats(item)
    return st["deps"] + st["hc"] >= 1 or st["attrs"] >= 2


def release(v: str) -> list[int]:
    return [int(x) for x in v.split(".")]


class SxEnc:
    """description -> sx for the model, numbering dependencies like c18_worker.Builder
    (construction order; a head_content dependency before the dependencies of its payload)"""

    def __init__(self, hc_names: dict):
        self.next = 0
        self.hc_names = hc_names
        self.bad = False

    def meta(self, p):
        if p is None:
            # a bare MetadataNode is not a dependency: the model has no such payload; it is
            # dropped by the caller
            raise AssertionError
        my = self.next
        self.next += 1
        if "hc" in p:
            for x in p["hc"]:
                self.node(x)           # advances the numbering like Builder does
            name = self.hc_names.get(canon(p["hc"]))
            if name is None:
                self.bad = True
                name = ""
            return [S(name), [0, 0], my]
        return [S(p["name"]), release(p["version"]), my]

    def node(self, d):
        k = d[0]
        if k == "T":
            return [[0, S(d[1])]]
        if k == "H":
            return [[1, S(d[1])]]
        if k == "R":
            return [[2, S(d[1])]]
        if k == "M":
            if d[1] is None:
                # MetadataNode(): invisible to rendering and to dependency collection.  The model's
                # Meta payload type here is dep, so the node is omitted (C07: no trace).
                return []
            return [[3, self.meta(d[1])]]
        if k == "G":
            kids = [y for x in d[4] for y in self.node(x)]
            return [[4, S(d[1]), 1 if d[2] else 0,
                     [[S(key), [1 if m == "H" else 0, S(v)]] for key, (m, v) in d[3]], kids]]
        if k == "C":
            exp = [y for x in d[2] for y in self.node(x)]
            return [[5, [] if d[1] is None else [S(d[1])], exp]]
        if k == "L":
            # a Python list of children: the constructors flatten it
            return [y for x in d[1] for y in self.node(x)]
        raise ValueError(d)

    def nodes(self, descs):
        return [y for d in descs for y in self.node(d)]


def nested_custom(item: dict) -> bool:
    """a tagifiable object somewhere inside the expansion of another"""
    def inside(d, in_c):
        k = d[0]
        if k == "C":
            return in_c or any(inside(x, True) for x in d[2])
        if k == "G":
            return any(inside(x, in_c) for x in d[4])
        if k == "L":
            return any(inside(x, in_c) for x in d[1])
        if k == "M" and isinstance(d[1], dict) and "hc" in d[1]:
            return any(inside(x, in_c) for x in d[1]["hc"])
        return False
    return any(inside(d, False) for d in item.get("descs", []))


def has_kind(item: dict, kind: str) -> bool:
    found = []
    for d in item.get("descs", []):
        walk(d, lambda x: found.append(1) if x[0] == kind else None)
    return bool(found)


# ------------------------------------------------------------------------------------------
# subprocesses
# ------------------------------------------------------------------------------------------
def wire(items: list[dict]) -> str:
    return json.dumps({"items": [{k: v for k, v in it.items() if not k.startswith("_")} for it in items]},
                      ensure_ascii=True)


def run_worker(battery_json: str, hashseed: str, order_seed: int, isolated: bool = False,
               raw_ids: list[str] | None = None) -> dict:
    env = dict(os.environ)
    env["PYTHONHASHSEED"] = hashseed
    env["PYTHONPATH"] = REPO
    env["VERIF_REPO"] = REPO
    try:
        p = subprocess.run([PY, WORKER, str(order_seed)] + (["--isolated"] if isolated else []) +
                           ["--raw=" + i for i in (raw_ids or [])], input=battery_json, stdout=subprocess.PIPE,
                           stderr=subprocess.PIPE, env=env, text=True, timeout=900, cwd="/")
    except subprocess.TimeoutExpired:
        return {"failed": "timeout"}
    if p.returncode != 0:
        return {"failed": f"exit {p.returncode}: {p.stderr[-1500:]}"}
    try:
        return json.loads(p.stdout)
    except ValueError:
        return {"failed": "unparsable output: " + p.stdout[-500:]}


def hash_seeds(rng, n: int) -> list[str]:
    seeds = ["0", "1", "random", "4294967295"]
    while len(seeds) < n:
        s = "random" if len(seeds) % 8 == 7 else str(rng.randrange(2, 2**32 - 1))
        if s == "random" or s not in seeds:
            seeds.append(s)
    return seeds[:n]


# ------------------------------------------------------------------------------------------
# oracles on the in-process reference
# ------------------------------------------------------------------------------------------
def first_occ(xs: list) -> list:
    out = []
    for x in xs:
        if x not in out:
            out.append(x)
    return out


def hc_contents_in_order(item: dict) -> list[str]:
    """expected contents of the head_content nodes of an hcdoc item (strings expanded), in document order: from the
    node's "expect" = [form, text] when it has one, else from the hand-written pool"""
    by_payload = {canon(p): c for p, c in HC_POOL}
    out = []

    def f(d):
        if d[0] == "M" and isinstance(d[1], dict) and "hc" in d[1]:
            out.append(form_content(*d[1]["expect"]) if "expect" in d[1] else by_payload[canon(d[1]["hc"])])
    for d in item["descs"]:
        # these payloads contain no head_content themselves, so walk() only meets top-level ones
        walk(d, f)
    return out


MARK_RE = r"m\d\d|\[k\d+\]"
# document-like results of observe_routes (each: ["ok", digest, dependency rows] + its text)
DOC_ROUTES = ["doc_opts", "doc_opts_again", "doc_copy", "doc_append", "tag_doc", "save", "textdoc", "textdoc_again",
              "textdoc_json"]


def short(x, lim: int = 300):
    """long strings of a report: both ends, the length and a digest"""
    if isinstance(x, str) and len(x) > lim:
        return "%s ...[%d characters in all, sha1 %s]... %s" % (x[:120], len(x), sha1(x), x[-120:])
    if isinstance(x, (list, tuple)):
        return [short(y, lim) for y in x]
    if isinstance(x, dict):
        return {k: short(v, lim) for k, v in x.items()}
    return x


def first_diff(a: str, b: str) -> int:
    n = min(len(a), len(b))
    return next((i for i in range(n) if a[i] != b[i]), n)


def check_hc_text(ctx: Ctx, shown: dict, where: str, contents: list[str], names_got, html: str) -> None:
    """one document-like result of an item whose head_content contents are known: each distinct content is
    there exactly once (every content carries prefix-free marker tokens mNN / [kNNNNNN]) and the names are
    'headcontent_' + sha1(content) in first-occurrence order"""
    import re
    want = [HC + sha1(c) for c in first_occ(contents)]
    marks = sorted(set(re.findall(MARK_RE, "".join(set(contents)))))
    counts = {m: html.count(m) for m in marks}
    expect_counts = {m: sum(c.count(m) for c in set(contents)) for m in marks}
    if (names_got is not None and names_got != want) or counts != expect_counts:
        bad = sorted(m for m in marks if counts[m] != expect_counts[m])
        ctx.violation(V_DOC, shown, {"where": where,
                                     "impl_output": {"names": names_got, "occurrences": {m: counts[m] for m in bad[:20]}},
                                     "expected": {"names": want, "occurrences": {m: expect_counts[m] for m in bad[:20]}},
                                     "contents": short(first_occ(contents)[:12])})


def check_reference(ctx: Ctx, items: list[dict], ref: dict, compact: dict | None = None) -> list:
    """oracles that need one process only; returns the (name, content) log of the battery.  `items` have their
    strings expanded; reports show the compact notation (`compact`: id -> item as generated)."""
    def shown(it):
        return plain((compact or {}).get(it["id"], it))
    log = []
    form_bad = []
    for it in items:
        o = ref[it["id"]]
        for name, content in o.get("_hc_raw", []):
            log.append((name, content, it["id"]))
            if name != HC + sha1(content):
                ctx.violation(V_NAME, shown(it), {"impl_output": name, "expected": HC + sha1(content),
                                                  "content": short(content)})
        if it["kind"] == "text":
            bad = o["text"][1].get("reuse_bad") if o["text"][0] == "ok" else None
        else:
            bad = o.get("reuse_bad")
        if bad:
            ctx.violation(V_SECOND, shown(it), {"impl_output": bad, "expected": "the same result from the same arguments"})
        if it["kind"] in ("tree", "expr", "prog"):
            if o.get("html", ["err"])[0] == "ok" and (o["html_again"] != o["html"] or o["str"] != o["html"]):
                ctx.violation(V_AGAIN, shown(it), {"impl_output": [o["html_again"], o["str"]], "expected": o["html"]})
            if "json_again" in o and o["json_again"] != o["json"]:
                ctx.violation(V_AGAIN, shown(it), {"where": "str(x) in json dependency mode (markup and every dependency written out), "
                                                            "first and after the other entry points were used on x",
                                                   "impl_output": o["json_again"], "expected": o["json"], "opts": it.get("opts")})
            R = o.get("routes")
            if R is not None and o.get("html", ["err"])[0] == "ok":
                # after every other entry point has been used on it, the object renders as before; the same
                # document made twice is the same
                pairs = [("render() after the other entry points", R.get("html_after"), o["html"]),
                         ("render()['dependencies'] after the lists handed out earlier were changed by the caller",
                          R.get("deps_after"), ["ok", o.get("deps")]),
                         ("HTMLDocument(x).render(lib_prefix=, include_version=) made twice", R.get("doc_opts_again"), R.get("doc_opts")),
                         ("HTMLTextDocument of the json-mode text made twice", R.get("textdoc_again"), R.get("textdoc"))]
                for what, got, want in pairs:
                    if got is not None and want is not None and got != want:
                        ctx.violation(V_AGAIN, shown(it), {"where": what, "impl_output": got, "expected": want,
                                                           "opts": it.get("opts")})
            # no name twice among the dependencies of a rendering
            rows_of = [(key, o.get(key, [])) for key in ("deps", "doc_deps")]
            if R is not None:
                rows_of += [(k, v[2]) for k, v in R.items() if k in DOC_ROUTES + ["tag_render"] and v[0] == "ok" and len(v) > 2
                            and k != "save"]
                rows_of += [(k, R[k][1]) for k in ("deps_dedup", "tag_deps") if R.get(k, ["err"])[0] == "ok"]
            for key, rows in rows_of:
                names = [r[0] for r in rows]
                if len(set(names)) != len(names):
                    ctx.violation(V_DOC, shown(it), {"where": key, "impl_output": names, "expected": "each name once"})
        if it.get("hcdoc"):
            contents = hc_contents_in_order(it)
            # (the forms' expected contents against the implementation's own rendering of the arguments)
            impl_contents = [c for _, c in o.get("_hc_raw", [])][0::2]
            if o.get("build", ["err"])[0] == "ok" and impl_contents != contents:
                form_bad.append({"case": shown(it), "impl_output": short(impl_contents[:6]), "expected": short(contents[:6])})
            if o.get("html", ["err"])[0] == "ok":
                want = [HC + sha1(c) for c in first_occ(contents)]
                got = [r[0] for r in o["deps"] if r[0].startswith(HC)]
                if got != want:
                    ctx.violation(V_DOC, shown(it), {"where": "render()['dependencies']", "impl_output": got,
                                                     "expected": want, "contents": short(first_occ(contents)[:12])})
            if o.get("doc", ["err"])[0] == "ok":
                check_hc_text(ctx, shown(it), "HTMLDocument(x, **doc_kw).render()", contents,
                              [r[0] for r in o["doc_deps"] if r[0].startswith(HC)], o["_doc_raw"])
            R = o.get("routes") or {}
            for route in DOC_ROUTES:
                if R.get(route, ["err"])[0] == "ok" and route in o.get("_routes_raw", {}):
                    names = None if route == "save" else [r[0] for r in R[route][2] if r[0].startswith(HC)]
                    check_hc_text(ctx, shown(it), "route %s with opts %s" % (route, json.dumps(it.get("opts"))),
                                  contents, names, o["_routes_raw"][route])
        if it.get("_pkg") and o.get("doc", ["err"])[0] == "ok":
            # colliding names in one document: only the resolved (kept) dependencies are written
            kept = {r[2] for r in o["doc_deps"]}
            settings = [["lib", True, o["_doc_raw"]]] + [
                [v[0], v[1], raw] for v, raw in zip(o.get("doc_variants", []), o.get("_doc_variants_raw", []))
                if v[2][0] == "ok"]
            metas = [d for d in it["descs"][0][4] if d[0] == "M"]
            for lib_prefix, incl, html in settings:
                sub = dict(it)
                sub["descs"] = [G("x", True, [], [m for i, m in enumerate(metas) if i in kept])]
                want = expected_urls(sub, lib_prefix, incl)
                missing = [u for u in want if html.count(u) != 1]
                if missing:
                    ctx.violation(V_URL, {k: v for k, v in it.items() if not k.startswith("_")},
                                  {"lib_prefix": lib_prefix, "include_version": incl, "expected": missing,
                                   "impl_output": [l.strip() for l in html.splitlines()
                                                   if "<script src" in l or "<link href" in l]})
        if it["kind"] == "text" and o["text"][0] == "ok":
            r = o["text"][1]
            ext = []
            for s in first_occ(it["_payloads"]):
                p = json.loads(s[len(OPEN_TAG):-len(CLOSE_TAG)])
                ext.append([p["name"], p["version"]])
            want = [[p["name"], p["version"]] for p in it["deps"]] + ext
            if r["deps"] != want or r["static"] != ext:
                ctx.violation(V_EXTRACT, shown(it), {"impl_output": {"deps": r["deps"], "static": r["static"]},
                                                     "expected": {"deps": want, "static": ext}})
            if "html_again" in r and r["html_again"] != r["html"]:
                ctx.violation(V_AGAIN, shown(it), {"where": "HTMLTextDocument.render() twice", "impl_output": r["html_again"],
                                                   "expected": r["html"]})
            if "second" in r and r["second"] != [r["html"], r["deps"]]:
                ctx.violation(V_SECOND, shown(it), {"where": "a second HTMLTextDocument from the same text and an equal, "
                                                             "separate deps list", "impl_output": r["second"],
                                                    "expected": [r["html"], r["deps"]]})
            if "opts" in r and r["opts"][1] != want:
                ctx.violation(V_EXTRACT, shown(it), {"where": "render(lib_prefix=, include_version=)", "opts": it.get("opts"),
                                                     "impl_output": r["opts"][1], "expected": want})
        if it["kind"] == "sharedlist" and o["shared"][0] == "ok":
            r = o["shared"][1]
            n = len(it["texts"])
            want_deps = []
            for t in it["texts"]:
                ext = []
                for s_ in first_occ(ensure_payloads({"kind": "text", "text": t})["_payloads"]):
                    p_ = json.loads(s_[len(OPEN_TAG):-len(CLOSE_TAG)])
                    ext.append([p_["name"], p_["version"]])
                want_deps.append([[p_["name"], p_["version"]] for p_ in it["deps"]] + ext)
            problems = []
            if [a[1] for a in r["alone"]] != want_deps:
                problems.append("a document alone does not list the given dependencies followed by its own extracted ones")
            for key, what in (("first", "constructed together, first rendering"), ("again", "constructed together, rendered again"),
                              ("interleaved", "each rendered before the next is constructed")):
                for j in range(n):
                    if r[key][j] != r["alone"][j]:
                        problems.append("document %d (%s) does not render as the same text alone with a list of its own" % (j, what))
            for j, later in enumerate(r["first_document_later"]):
                if later != r["interleaved"][0]:
                    problems.append("the first document renders differently after document %d was constructed from the same list" % (j + 1))
            lists = [("after construction of document %d" % j, l) for j, l in enumerate(r["list_after_each_construction"])] + \
                    [("after rendering", r["list_after_render"]), ("after the interleaved sequence", r["list_after_interleaved"])]
            for what, l in lists:
                if l != r["list_before"]:
                    problems.append("the caller's list is changed %s: %s" % (what, [x[0] for x in l]))
            if problems:
                ctx.violation(V_SHARED, shown(it), {"problems": problems[:8],
                                                    "impl_output": {k_: r[k_] for k_ in ("list_before", "list_after_each_construction",
                                                                                          "first", "again", "interleaved",
                                                                                          "first_document_later")},
                                                    "expected": {"every document": r["alone"], "caller's list": r["list_before"]}})
        if it["kind"] == "unique" and o["unique"] != ["ok", first_occ(it["values"])]:
            ctx.violation(V_UNIQUE, shown(it), {"impl_output": short(o["unique"]), "expected": short(first_occ(it["values"]))})
    ctx.obligation("expected contents of the generated head_content forms = the implementation's rendering of "
                   "the arguments (%d hcdoc items)" % sum(1 for it in items if it.get("hcdoc")), not form_bad)
    if form_bad:
        ctx.extra["disagree_forms"] = form_bad[:2]
    # all pairs: equal content <=> equal name
    by_content: dict = {}
    by_name: dict = {}
    ids = {it["id"]: it for it in items}
    for name, content, iid in log:
        if by_content.setdefault(content, (name, iid))[0] != name:
            ctx.violation(V_SPLIT, {"content": short(content), "items": [shown(ids[i]) for i in sorted({by_content[content][1], iid})]},
                          {"impl_output": [by_content[content][0], name], "expected": "one name"})
        if by_name.setdefault(name, (content, iid))[0] != content:
            other, oid = by_name[name]
            ctx.violation(V_MERGE, {"contents": [short(other), short(content)],
                                    "lengths": [len(other), len(content)],
                                    "first_difference_at_character": first_diff(other, content),
                                    "items": [shown(ids[i]) for i in sorted({oid, iid})]},
                          {"impl_output": name, "expected": "two names"})
    return log


# ------------------------------------------------------------------------------------------
# correspondence with the extracted model
# ------------------------------------------------------------------------------------------
def correspondence(ctx: Ctx, items: list[dict], ref: dict, label: str) -> None:
    from htmltools import MetadataNode, TagList, head_content

    # ---- op 1: every distinct head_content payload of the battery ------------------------
    payloads: dict = {}
    for it in items:
        for d in it.get("descs", []):
            walk(d, lambda x: payloads.setdefault(canon(x[1]["hc"]), x[1]["hc"])
                 if x[0] == "M" and isinstance(x[1], dict) and "hc" in x[1] else None)
    for p, _ in HC_POOL:
        payloads.setdefault(canon(p), p)
    keys = sorted(payloads)
    # no payload with attribute-dict tags (K) reaches the model; nor do the very long ones (the model's strings are
    # lists of code points: the theorems are about all strings, the long ones are judged by the oracles of step C)
    keys = [k for k in keys if not any(has_kind({"descs": [d]}, "K") for d in payloads[k]) and len(k) <= MODEL_MAX]
    # (op 3 travels in the same model run: one driver start-up less)
    rcases = [it for it in items if it["kind"] == "resolve"]
    model_all = run_model([[1, SxEnc({}).nodes(payloads[k])] for k in keys] +
                          [[3, [[S(p["name"]), release(p["version"]), i] for i, p in enumerate(it["deps"])]]
                           for it in rcases], driver="c18")
    model, model3 = model_all[:len(keys)], model_all[len(keys):]
    hc_names: dict = {}
    dis = []
    expected_pool = {canon(p): c for p, c in HC_POOL}
    pool_bad = []
    for k, m in zip(keys, model):
        kids = payloads[k]

        def impl():
            b = W.Builder()
            built = [b.node(x) for x in kids]
            h = head_content(*built)
            # bare MetadataNode objects are not dependencies: the model (Meta payload = dep) omits them
            n_head = sum(1 for x in h.head if type(x) is not MetadataNode)
            return [h.name, str(h.version), n_head, TagList(*built).get_html_string()]
        iv = W.safe(impl)
        if isinstance(m, tuple) or m == [999999, 999999]:
            dis.append({"case": kids, "impl_output": iv, "model_output": repr(m)})
            continue
        mc, mh = m
        if mc[0] == 0:
            content = unS(mc[1])
            mname, mver, mlen = unS(mh[1][0]), mh[1][1], mh[1][2]
            # the model's name is prefix ++ H(content) with H the identity; with H = SHA-1:
            mv = ["ok", [HC + sha1(content), ".".join(str(x) for x in mver), mlen, content]]
            if mname != HC + content:
                dis.append({"case": kids, "model_output": mname, "expected": HC + content})
            hc_names[k] = HC + sha1(content)
        else:
            mv = ["err", ERR_NAME[mc[1]]]
            if mh != [1, mc[1]]:
                dis.append({"case": kids, "model_output": mh, "expected": "the rendering error"})
        if mv != iv:
            dis.append({"case": kids, "impl_output": iv, "model_output": mv})
        if k in expected_pool and iv[0] == "ok" and iv[1][3] != expected_pool[k]:
            pool_bad.append({"case": kids, "impl_output": iv[1][3], "expected": expected_pool[k]})
    ctx.corr_cases += len(keys)
    ctx.obligation(f"correspondence head_content: content, name = prefix + sha1(model content), version, "
                   f"payload ({label}, {len(keys)} payloads)", not dis)
    if dis:
        ctx.extra.setdefault("disagreements", []).extend(dis[:3])
    ctx.obligation(f"hand-written expected contents of the head_content pool ({label})", not pool_bad)
    if pool_bad:
        ctx.extra["disagree_pool"] = pool_bad[:3]

    # ---- op 2: TagList.render() of the tree items ------------------------------------------
    cases, sxs = [], []
    for it in items:
        # (the model's tagifiable objects expand to content without further objects, as harness/trees.py makes them)
        if it["kind"] != "tree" or has_kind(it, "K") or len(canon(it["descs"])) > MODEL_MAX or nested_custom(it):
            continue
        enc = SxEnc(hc_names)
        nodes = enc.nodes(it["descs"])
        o = ref[it["id"]]
        if enc.bad:
            # some head_content of the item fails in the model: the construction must fail alike
            if o["build"] != ["err", "RuntimeError"]:
                dis.append({"case": it, "impl_output": o["build"], "model_output": ["err", "RuntimeError"]})
            continue
        cases.append(it)
        sxs.append([2, nodes])
    model = run_model(sxs, driver="c18")
    dis2 = []
    for it, m in zip(cases, model):
        o = ref[it["id"]]
        if isinstance(m, tuple) or m == [999999, 999999]:
            dis2.append({"case": it, "model_output": repr(m)})
            continue
        if o["build"][0] != "ok":
            dis2.append({"case": it, "impl_output": o["build"], "model_output": "builds"})
            continue
        mh, mids = m
        if mh[0] == 0:
            mv = {"html": ["ok", W.digest(unS(mh[1]))], "ids": mids}
            iv = {"html": o["html"], "ids": [r[2] for r in o.get("deps", [])]}
        else:
            mv = {"html": ["err", ERR_NAME[mh[1]]]}
            iv = {"html": o["html"]}
        if mv != iv:
            dis2.append({"case": it, "impl_output": iv, "model_output": mv,
                         "impl_html": o.get("_html_raw"), "model_html": unS(mh[1]) if mh[0] == 0 else None})
    ctx.corr_cases += len(cases)
    ctx.obligation(f"correspondence TagList.render(): markup and resolved dependency order ({label}, "
                   f"{len(cases)} items)", not dis2)
    if dis2:
        dis2.sort(key=lambda d: len(canon(d["case"])))
        ctx.extra.setdefault("disagreements", []).extend(dis2[:3])

    # ---- op 3: _resolve_dependencies ---------------------------------------------------------
    dis3 = []
    for it, m in zip(rcases, model3):
        iv = ref[it["id"]]["resolve"]
        mv = ["ok", [[it["deps"][i]["name"], it["deps"][i]["version"], i] for i in m]] \
            if not isinstance(m, tuple) else repr(m)
        if iv != mv:
            dis3.append({"case": it, "impl_output": iv, "model_output": mv})
    ctx.corr_cases += len(rcases)
    ctx.obligation(f"correspondence _resolve_dependencies order ({label}, {len(rcases)} lists)", not dis3)
    if dis3:
        ctx.extra.setdefault("disagreements", []).extend(dis3[:3])


# ------------------------------------------------------------------------------------------
# after a difference has been seen: show it (texts instead of digests) and look for its cause
# ------------------------------------------------------------------------------------------
def plain(it: dict) -> dict:
    return {k: v for k, v in it.items() if not k.startswith("_")}


def differing(a, b) -> list:
    return sorted(k for k in set(a or {}) | set(b or {}) if (a or {}).get(k) != (b or {}).get(k))


def first_of(ctx: Ctx, what: str) -> bool:
    """ctx.violation keeps the first report of each kind: the costly explanations are made for that one only"""
    return len(ctx.violations) < 5 and not any(v["what"] == what for v in ctx.violations)


def texts(o: dict | None) -> dict:
    return {k[1:-4]: short(o[k], 6000) for k in ("_html_raw", "_doc_raw") if o and k in o}


def one_run(items: list[dict], it: dict, hashseed: str) -> dict | None:
    """the items, then `it`, in this order in a fresh interpreter; the observation of `it` with its texts"""
    out = run_worker(wire(items + [it]), hashseed, 0, raw_ids=[it["id"]])
    return None if "failed" in out else out["results"].get(it["id"])


def explain(pool: ThreadPoolExecutor, items: list[dict], it: dict, hashseed: str) -> dict:
    """`it` alone in a fresh interpreter (PYTHONHASHSEED=hashseed) against `it` after the given other items
    (in the given order): if the observations differ, halve the history down to one earlier item (when one
    is enough)."""
    alone = one_run([], it, hashseed)
    out = {"alone": alone}
    if alone is None:
        return out
    base = W.strip_raw(alone)
    # the item itself, built and rendered once before (under another id)
    twin = dict(it, id=it["id"] + "#the-same-construction-before")
    again = one_run([twin], it, hashseed)
    if again is not None and W.strip_raw(again) != base:
        out["history"], out["after_history"] = [twin], again
        return out
    cands = list(items)
    full = one_run(cands, it, hashseed)
    if full is None or W.strip_raw(full) == base:
        return out
    out["after_all"] = full
    while len(cands) > 1:
        a, b = cands[:len(cands) // 2], cands[len(cands) // 2:]
        fa, fb = pool.submit(one_run, a, it, hashseed), pool.submit(one_run, b, it, hashseed)
        ra, rb = fa.result(), fb.result()
        if ra is not None and W.strip_raw(ra) != base:
            cands, full = a, ra
        elif rb is not None and W.strip_raw(rb) != base:
            cands, full = b, rb
        else:
            break               # no half is enough on its own
    out["history"] = cands
    out["after_history"] = full
    return out


def history_detail(ex: dict, hashseed: str) -> dict:
    d = {}
    if ex.get("alone") is None:
        return d
    d["texts_alone"] = texts(ex["alone"])
    if ex.get("history") is not None:
        h = ex["history"]
        d["earlier_items"] = [plain(x) for x in h] if len(h) <= 3 else \
            {"count": len(h), "first": plain(h[0]), "note": "no half of these is enough on its own"}
        d["fields_changed_by_the_earlier_items"] = differing(W.strip_raw(ex["alone"]), W.strip_raw(ex["after_history"]))
        d["texts_after_the_earlier_items"] = texts(ex["after_history"])
        d["reproduce"] = ("fresh interpreter, PYTHONHASHSEED=%s: build and render earlier_items, then this item; "
                          "compare with this item alone" % hashseed)
    else:
        d["earlier_items"] = ("not found: the battery items that came before this one do not change it in a fresh "
                              "interpreter with PYTHONHASHSEED=%s (in the process of ./check the fault prelude runs "
                              "before the battery)" % hashseed)
    return d


# ------------------------------------------------------------------------------------------
def process_battery(ctx: Ctx, items: list[dict], configs: list[tuple[str, int]], label: str,
                    pool: ThreadPoolExecutor, n_fresh: int = 12) -> dict:
    import time as _time
    t_start = _time.time()
    phases: dict = {}

    def phase(name: str) -> None:
        now = _time.time()
        phases[name] = round(now - phase.t, 1)
        phase.t = now
    phase.t = t_start
    ids = [it["id"] for it in items]
    assert len(set(ids)) == len(ids)
    bj = wire(items)
    # the items with their strings written out ({"$rep": ...} / {"$cat": ...} expanded): what the oracles and the
    # model see; reports show the items as generated
    xitems = [ensure_payloads(W.expand(it)) for it in items]
    # the history-free reference runs use the hash seed of one of the worker processes (the first that is
    # not "random"): that worker and the reference differ by the history only.  (The hash seed of THIS process
    # is whatever ./check was started with.)
    h_conf = next((k for k, (hs, _) in enumerate(configs) if hs != "random"), 0)
    h_seed = configs[h_conf][0]
    explains_left = [2]                                    # searches for the earlier item that matters (costly)
    futures = [pool.submit(run_worker, bj, hs, os_) for hs, os_ in configs]
    # references without history: (a) every item in its own forked child of a process that has
    # only imported htmltools (two shards), (b) a sample -- all package-sourced items first -- each
    # in a really fresh interpreter that is given that one item only
    shards = [items[0::2], items[1::2]] if len(items) > 1 else [items]
    iso_futures = [pool.submit(run_worker, wire(sh), h_seed, 1 + k, True)
                   for k, sh in enumerate(shards)]
    fresh_items = ([it for it in items if it.get("_pkg") and it["id"].startswith("fix:")] +
                   [it for it in items if not it.get("_pkg")][:: max(1, len(items) // n_fresh)])[: n_fresh + 11]
    fresh_futures = [pool.submit(run_worker, wire([it]), h_seed, 1)
                     for k, it in enumerate(fresh_items)]
    # in-process reference (natural order) while the workers run
    ref = {it["id"]: W.observe(jl({k: v for k, v in it.items() if not k.startswith("_")}), raw=True)
           for it in items}
    ref_plain = {k: jl(W.strip_raw(v)) for k, v in ref.items()}
    for it in items:
        ctx.count({"item": it["id"], "battery": label, "where": "in-process"}, nontrivial(it),
                  f"{it['kind']} (in-process reference)")
    by_id = {it["id"]: it for it in items}
    phase("in-process reference")
    check_reference(ctx, xitems, ref, by_id)
    phase("oracles")
    correspondence(ctx, xitems, ref, label)
    phase("correspondence")

    failed, probes, wrong_import, mode_bad = [], set(), [], []
    n_diff = 0
    w_h = None                      # the results of the worker that ran with h_seed
    for ci, ((hs, os_), fu) in enumerate(zip(configs, futures)):
        out = fu.result()
        if ci == h_conf and "failed" not in out:
            w_h = out["results"]
        if "failed" in out:
            failed.append({"hashseed": hs, "order_seed": os_, "why": out["failed"]})
            continue
        meta = out["meta"]
        probes.add(meta["hash_probe"])
        if not meta["htmltools_file"].startswith(os.path.abspath(REPO) + os.sep):
            wrong_import.append(meta["htmltools_file"])
        if meta["mode_after"] != "invisible":
            mode_bad.append(meta)
        for iid in ids:
            it = by_id[iid]
            ctx.count({"item": iid, "battery": label, "hashseed": hs, "order": os_}, nontrivial(it),
                      f"{it['kind']} (subprocess)")
            got = out["results"].get(iid)
            if got != ref_plain[iid]:
                n_diff += 1
                fields = differing(got, ref_plain[iid])
                detail = {"fields": fields, "hashseed": hs, "order_seed": os_,
                          "impl_output": {k: (got or {}).get(k) for k in fields},
                          "expected": {k: ref_plain[iid].get(k) for k in fields},
                          "note": "impl_output = worker process; expected = the process of ./check (its own hash "
                                  "seed, natural order)"}
                if first_of(ctx, V_PROC):
                    # what the difference looks like, and what it depends on
                    detail["expected_texts"] = texts(ref[iid])
                    other = next(x for x in ("0", "1", "2") if x != hs)
                    a1 = one_run([], it, hs) if hs != "random" else None
                    a0 = one_run([], it, other)
                    if a1 is not None and a0 is not None and W.strip_raw(a1) != W.strip_raw(a0):
                        detail["impl_texts"] = texts(a1)
                        detail["texts_with_another_hash_seed"] = texts(a0)
                        detail["cause"] = ("the hash seed: this item alone in a fresh interpreter gives impl_texts with "
                                           "PYTHONHASHSEED=%s and texts_with_another_hash_seed with PYTHONHASHSEED=%s"
                                           % (hs, other))
                    elif hs != "random" and explains_left[0] > 0:
                        explains_left[0] -= 1
                        if a1 is not None and jl(W.strip_raw(a1)) == got:
                            # the worker agrees with the item alone: the in-process run is the one that deviates
                            before = items[:ids.index(iid)]
                            who = "the process of ./check (natural order)"
                        else:
                            # the items that came before this one in that worker, in its order
                            import random as _random
                            perm = list(range(len(items)))
                            _random.Random(os_).shuffle(perm)          # as c18_worker.main does
                            before = [items[j] for j in perm[:perm.index(ids.index(iid))]]
                            who = "that worker process"
                        ex = explain(pool, before, it, hs)
                        detail.update(history_detail(ex, hs))
                        detail["cause"] = ("what was built or rendered earlier in %s: the item alone in a fresh interpreter "
                                           "gives texts_alone" % who)
                ctx.violation(V_PROC, plain(it), detail)
    phase("workers")
    # ---- history: at the end of the run (everything has been built and rendered in this process)
    # every item once more; against its first rendering and against the history-free references
    for it in reversed(items):
        end_raw = W.observe(jl(plain(it)), raw=True)
        end = jl(W.strip_raw(end_raw))
        ctx.count({"item": it["id"], "battery": label, "where": "in-process, end of run"}, nontrivial(it),
                  f"{it['kind']} (in-process, re-rendered at the end)")
        if end != ref_plain[it["id"]]:
            fields = differing(end, ref_plain[it["id"]])
            detail = {"fields": fields, "impl_output": {k: end.get(k) for k in fields},
                      "expected": {k: ref_plain[it["id"]].get(k) for k in fields},
                      "note": "impl_output = the item rendered again at the end of the in-process run; "
                              "expected = its first rendering in the same process"}
            if first_of(ctx, V_HISTORY):
                detail["impl_texts"], detail["expected_texts"] = texts(end_raw), texts(ref[it["id"]])
                if explains_left[0] > 0:
                    explains_left[0] -= 1
                    others = [x for x in items if x["id"] != it["id"]]
                    detail.update(history_detail(explain(pool, others, it, h_seed), h_seed))
            ctx.violation(V_HISTORY, plain(it), detail)
    phase("end-of-run re-rendering")
    iso_failed = []
    for what, futs, groups in (("forked child of a process that rendered nothing", iso_futures, shards),
                               ("fresh interpreter given this item only", fresh_futures, [[x] for x in fresh_items])):
        for fu, group in zip(futs, groups):
            out = fu.result()
            if "failed" in out:
                iso_failed.append({"what": what, "why": out["failed"]})
                continue
            probes.add(out["meta"]["hash_probe"])
            for it in group:
                got = out["results"].get(it["id"])
                ctx.count({"item": it["id"], "battery": label, "where": what}, nontrivial(it),
                          f"{it['kind']} ({'isolated child' if futs is iso_futures else 'fresh interpreter'})")
                # against the worker that ran with the same hash seed (it built and rendered other items before
                # this one); a difference from the in-process run alone has been reported above (that worker
                # then differs from the in-process run)
                with_history = w_h.get(it["id"]) if w_h is not None else ref_plain[it["id"]]
                if got != with_history:
                    fields = differing(got, with_history)
                    detail = {"fields": fields, "impl_output": {k: (with_history or {}).get(k) for k in fields},
                              "expected": {k: (got or {}).get(k) for k in fields},
                              "note": "impl_output = %s; expected = %s (PYTHONHASHSEED=%s)"
                                      % ("worker process (PYTHONHASHSEED=%s) after other items" % h_seed
                                         if w_h is not None else "in-process run after other items", what, h_seed)}
                    if first_of(ctx, V_HISTORY) and explains_left[0] > 0:
                        explains_left[0] -= 1
                        if w_h is not None:
                            import random as _random
                            perm = list(range(len(items)))
                            _random.Random(configs[h_conf][1]).shuffle(perm)        # as c18_worker.main does
                            before = [items[j] for j in perm[:perm.index(ids.index(it["id"]))]]
                        else:
                            before = items[:ids.index(it["id"])]
                        detail.update(history_detail(explain(pool, before, it, h_seed), h_seed))
                    ctx.violation(V_HISTORY, plain(it), detail)
    ctx.obligation(f"history-free reference runs completed ({label}: every item in an isolated child, "
                   f"{len(fresh_items)} items in fresh interpreters)", not iso_failed)
    if iso_failed:
        ctx.extra["proof_log_tail"] = json.dumps(iso_failed[:2])[-2500:]
    ctx.obligation(f"worker processes completed ({label}, {len(configs)} processes)", not failed)
    if failed:
        ctx.extra["proof_log_tail"] = json.dumps(failed[:2])[-2500:]
    ctx.obligation(f"workers imported htmltools from {REPO} and left the render mode restored ({label})",
                   not wrong_import and not mode_bad)
    phase("history-free references")
    ctx.extra.setdefault("phase_wall_s", {})[label] = phases
    return {"probes": probes, "diffs": n_diff, "processes": len(configs) - len(failed)}


def run(ctx: Ctx, only_items: list[dict] | None = None) -> None:
    rng = ctx.rng
    ctx.rule = ("A fixed hand-written battery (public-API constructions with attribute dicts / css / class helpers, "
                "14 dependencies with colliding names flat, nested, reversed and inside tagifiable objects, every "
                "head_content payload of a 17-entry pool with equal / different / metadata-only-different content, "
                "8 attributes in 5 orders, texts with duplicated and interleaved serialised dependencies, "
                "_resolve_dependencies and unique() inputs; hand-written programs over the public construction / mutation API: "
                "the same attribute / child / css value / dependency attribute / JSX prop written with ==-equal values of "
                "different types, one construction per item; the same text as str / str subclass / HTML / HTML subclass; "
                "attribute names that meet after normalisation; class strings whose tokens are prefixes / substrings / "
                "repeats of one another under remove_class / add_class / has_class with one and several names; style and "
                "children helpers; fault steps) plus random programs of 1..10 steps over the same pools "
                "(profiles class / typed / mixed / jsx) plus random batteries from the seeded PRNG (random trees "
                "depth <= 4 with dependencies, MetadataNodes, head_content nodes and tagifiable objects; tag-only "
                "documents over the head_content pool; texts with 2..16 serialised dependencies drawn with repetition; "
                "dependency lists; string lists; package-sourced dependencies (htmltools/lib) with colliding names and different versions, colliding (name, version) with different subdirs, one document per item, rendered under several lib_prefix / include_version settings) plus, bounded-exhaustively, every ordered pair (thorough: triple) of pool payloads in one document.  Every battery is built and rendered in-process and in N interpreter "
                "processes with distinct PYTHONHASHSEED (0, 1, random, 4294967295, PRNG-drawn) each in its own "
                "permutation of the items; in addition every item is re-rendered in-process at the end of the run and rendered without history (in a forked child of a process that rendered nothing; a sample, all fixed package-sourced items included, in a fresh interpreter given that item only).  Sizes: every run also has families of head_content payloads that share a base of 300 .. 140000 "
                "characters (lengths around 2^k, 5000, 70001) and differ in a marker at the head / middle / a 2^k seam / the tail, in "
                "several forms (text, HTML, self-rendered, style, script, title, attribute value; multi-byte units), with equal-content "
                "twins, in documents of several layouts (flat, nested lists / tuples, chains, tagifiable objects, body root, html root "
                "with its own head); documents with 7 .. 300 head_content nodes / dependencies / versions of one name, texts with "
                "7 .. 300 serialised dependencies and long fillers, unique() lists, tags with 7 .. 300 attributes / class tokens / "
                "merged dicts, nesting 7 .. 70 deep, programs of 7 .. 300 steps (sizes around 8, 16, ..., 256, 300; one of the four "
                "largest always).  Entry points: a fifth of the tree / text / program items (all fixed trees, all big items) carry "
                "non-default arguments (indent, eol, add_ws, lib_prefix, include_version, libdir, deps_replace_pattern with regex "
                "metacharacters, wrapper tag, construction under json render mode) and are also taken through get_html_string / "
                "tagify / get_dependencies(dedup=) / repr / _repr_html_ / a second parent / copy / deepcopy / == / + / += / insert / "
                "append / extend / HTMLDocument render, copy, append / save_html of list, tag and document / json mode with "
                "HTMLTextDocument / the with-block; each such result is compared across processes and histories, the document-like "
                "ones of items with known head_content contents are checked for once-per-content, and afterwards the object must "
                "render as before.  Items of kind sharedlist: two or three HTMLTextDocument objects from one deps list object (texts with / "
                "without serialised dependencies, both orders, constructed together or interleaved with rendering), each judged against "
                "the same text alone with its own list, the caller's list snapshotted.  An evaluation = one item in one process; non-trivial = the item has a "
                "dependency / head_content / >= 2 attributes or is a text / list / program item; distinct = (item, process).")
    ctx.assumptions = [
        "process-level determinism is observed on the sampled hash seeds and orders, not proved (DESIGN C18: PARTIAL)",
        "SHA-1 injectivity is an explicit premise of C18_distinct* (no collision among the battery's contents is checked)",
        "the extracted OCaml model behaves as the Gallina model",
        "CPython's PYTHONHASHSEED is the only per-process source of hash variation (str/bytes hashing)",
    ]
    ctx.proof()

    nproc = ctx.budget(8, 64)
    nbat = 1 if ctx.quick else 4
    per = nproc // nbat
    seeds = hash_seeds(rng, nproc)
    fixed = fixed_battery()
    for path in sorted(glob.glob(os.path.join(VERIF, "corpus", "C18", "*.json"))):
        with open(path, encoding="utf-8") as f:
            for j, it in enumerate(json.load(f)["items"]):
                it = ensure_payloads(dict(it))
                it["id"] = f"corpus:{os.path.basename(path)}:{j}"
                fixed.append(it)
    probes: set = set()
    total = {"diffs": 0, "processes": 0}
    with ThreadPoolExecutor(max_workers=16) as pool:
        for b in range(nbat):
            if only_items is not None:
                items = only_items
            else:
                items = fixed + rand_battery(rng, ctx.budget(800, 2500), f"rand{b}")
                items += [rand_prog_item(rng, f"prog{b}:{i}") for i in range(ctx.budget(300, 1500))]
                items += big_items(rng, f"big{b}", ctx.quick)
                if b == 0:
                    items = items + exhaustive_hc_items(ctx.budget(2, 3))
            configs = [(seeds[b * per + j], rng.randrange(1, 2**31)) for j in range(per)]
            r = process_battery(ctx, items, configs, f"battery {b}", pool, n_fresh=ctx.budget(12, 96))
            probes |= r["probes"]
            total["diffs"] += r["diffs"]
            total["processes"] += r["processes"]
    # the processes really hashed strings differently (otherwise the experiment shows nothing)
    ctx.obligation("worker processes ran with different string hashes", len(probes) >= min(4, nproc // 2))
    ctx.extra["processes"] = total["processes"]
    ctx.extra["distinct_string_hash_probes"] = len(probes)
    ctx.extra["hash_seeds"] = seeds[:12]
    ctx.extra["cross_process_differences"] = total["diffs"]


def ensure_payloads(c: dict) -> dict:
    """text items stored without the generator's payload list (corpus, replays): recover the
    serialised elements from the text for the extraction oracle"""
    if c.get("kind") == "text" and "_payloads" not in c:
        import re
        c["_payloads"] = [OPEN_TAG + m + CLOSE_TAG for m in
                          re.findall(re.escape(OPEN_TAG) + r"((?:.|\r|\n)*?)" + re.escape(CLOSE_TAG), c["text"])]
    return c


def replay(ctx: Ctx, path: str) -> None:
    with open(path, encoding="utf-8") as f:
        r = json.load(f)
    print(json.dumps(r, indent=1)[:4000])
    c = r.get("case")
    if isinstance(c, dict) and "kind" in c and "id" in c:
        ensure_payloads(c)
        ctx.tier = "quick"
        # the item inside the fixed battery: a failure that needs a history (something built or
        # rendered before it) does not show on the item alone
        fixed = fixed_battery()
        have = {it["id"] for it in fixed}
        # the earlier items that the report found to matter (generated ones are not in the fixed battery)
        earlier = (r.get("detail") or {}).get("earlier_items")
        extra = [ensure_payloads(dict(x)) for x in earlier if isinstance(x, dict) and x.get("id") not in have] \
            if isinstance(earlier, list) else []
        if c["id"] not in have:
            extra.append(c)
        run(ctx, only_items=fixed + extra)
    else:
        run(ctx)
